// Copyright 2021 Developers of the Rand project.
//
// Licensed under the Apache License, Version 2.0 <LICENSE-APACHE or
// https://www.apache.org/licenses/LICENSE-2.0> or the MIT license
// <LICENSE-MIT or https://opensource.org/licenses/MIT>, at your
// option. This file may not be copied, modified, or distributed
// except according to those terms.

use crate::distributions::{Distribution, Uniform};

/// A distribution to sample items uniformly from a slice.
///
/// [`Slice::new`] constructs a distribution referencing a slice and uniformly
/// samples references from the items in the slice. It may do extra work up
/// front to make sampling of multiple values faster; if only one sample from
/// the slice is required, [`SliceRandom::choose`] can be more efficient.
///
/// Steps are taken to avoid bias which might be present in naive
/// implementations; for example `slice[rng.gen() % slice.len()]` samples from
/// the slice, but may be more likely to select numbers in the low range than
/// other values.
///
/// This distribution samples with replacement; each sample is independent.
/// Sampling without replacement requires state to be retained, and therefore
/// cannot be handled by a distribution; you should instead consider methods
/// on [`SliceRandom`], such as [`SliceRandom::choose_multiple`].
///
/// # Example
///
/// ```
/// use rand::Rng;
/// use rand::distributions::Slice;
///
/// let vowels = ['a', 'e', 'i', 'o', 'u'];
/// let vowels_dist = Slice::new(&vowels).unwrap();
/// let rng = rand::thread_rng();
///
/// // build a string of 10 vowels
/// let vowel_string: String = rng
///     .sample_iter(&vowels_dist)
///     .take(10)
///     .collect();
///
/// println!("{}", vowel_string);
/// assert_eq!(vowel_string.len(), 10);
/// assert!(vowel_string.chars().all(|c| vowels.contains(&c)));
/// ```
///
/// For a single sample, [`SliceRandom::choose`][crate::seq::SliceRandom::choose]
/// may be preferred:
///
/// ```
/// use rand::seq::SliceRandom;
///
/// let vowels = ['a', 'e', 'i', 'o', 'u'];
/// let mut rng = rand::thread_rng();
///
/// println!("{}", vowels.choose(&mut rng).unwrap())
/// ```
///
/// [`SliceRandom`]: crate::seq::SliceRandom
/// [`SliceRandom::choose`]: crate::seq::SliceRandom::choose
/// [`SliceRandom::choose_multiple`]: crate::seq::SliceRandom::choose_multiple
#[derive(Debug, Clone, Copy)]
pub struct Slice<'a, T> {
    slice: &'a [T],
    range: Uniform<usize>,
}

impl<'a, T> Slice<'a, T> {
    /// Create a new `Slice` instance which samples uniformly from the slice.
    /// Returns `Err` if the slice is empty.
    pub fn new(slice: &'a [T]) -> Result<Self, EmptySlice> {
        match slice.len() {
            0 => Err(EmptySlice),
            len => Ok(Self {
                slice,
                range: Uniform::new(0, len),
            }),
        }
    }
}

impl<'a, T> Distribution<&'a T> for Slice<'a, T> {
    fn sample<R: crate::Rng + ?Sized>(&self, rng: &mut R) -> &'a T {
        let idx = self.range.sample(rng);

        debug_assert!(
            idx < self.slice.len(),
            "Uniform::new(0, {}) somehow returned {}",
            self.slice.len(),
            idx
        );

        // Safety: at construction time, it was ensured that the slice was
        // non-empty, and that the `Uniform` range produces values in range
        // for the slice
        unsafe { self.slice.get_unchecked(idx) }
    }
}

/// Error type indicating that a [`Slice`] distribution was improperly
/// constructed with an empty slice.
#[derive(Debug, Clone, Copy)]
pub struct EmptySlice;

impl core::fmt::Display for EmptySlice {
    fn fmt(&self, f: &mut core::fmt::Formatter<'_>) -> core::fmt::Result {
        write!(
            f,
            "Tried to create a `distributions::Slice` with an empty slice"
        )
    }
}

#[cfg(feature = "std")]
impl std::error::Error for EmptySlice {}
