// Copyright 2018 Developers of the Rand project.
//
// Licensed under the Apache License, Version 2.0 <LICENSE-APACHE or
// https://www.apache.org/licenses/LICENSE-2.0> or the MIT license
// <LICENSE-MIT or https://opensource.org/licenses/MIT>, at your
// option. This file may not be copied, modified, or distributed
// except according to those terms.

//! The implementations of the `Standard` distribution for other built-in types.

use core::char;
use core::num::Wrapping;
#[cfg(feature = "alloc")]
use alloc::string::String;

use crate::distributions::{Distribution, Standard, Uniform};
#[cfg(feature = "alloc")]
use crate::distributions::DistString;
use crate::Rng;

#[cfg(feature = "serde1")]
use serde::{Serialize, Deserialize};
#[cfg(feature = "min_const_gen")]
use core::mem::{self, MaybeUninit};


// ----- Sampling distributions -----

/// Sample a `u8`, uniformly distributed over ASCII letters and numbers:
/// a-z, A-Z and 0-9.
///
/// # Example
///
/// ```
/// use rand::{Rng, thread_rng};
/// use rand::distributions::Alphanumeric;
///
/// let mut rng = thread_rng();
/// let chars: String = (0..7).map(|_| rng.sample(Alphanumeric) as char).collect();
/// println!("Random chars: {}", chars);
/// ```
///
/// The [`DistString`] trait provides an easier method of generating
/// a random `String`, and offers more efficient allocation:
/// ```
/// use rand::distributions::{Alphanumeric, DistString};
/// let string = Alphanumeric.sample_string(&mut rand::thread_rng(), 16);
/// println!("Random string: {}", string);
/// ```
///
/// # Passwords
///
/// Users sometimes ask whether it is safe to use a string of random characters
/// as a password. In principle, all RNGs in Rand implementing `CryptoRng` are
/// suitable as a source of randomness for generating passwords (if they are
/// properly seeded), but it is more conservative to only use randomness
/// directly from the operating system via the `getrandom` crate, or the
/// corresponding bindings of a crypto library.
///
/// When generating passwords or keys, it is important to consider the threat
/// model and in some cases the memorability of the password. This is out of
/// scope of the Rand project, and therefore we defer to the following
/// references:
///
/// - [Wikipedia article on Password Strength](https://en.wikipedia.org/wiki/Password_strength)
/// - [Diceware for generating memorable passwords](https://en.wikipedia.org/wiki/Diceware)
#[derive(Debug, Clone, Copy)]
#[cfg_attr(feature = "serde1", derive(Serialize, Deserialize))]
pub struct Alphanumeric;


// ----- Implementations of distributions -----

impl Distribution<char> for Standard {
    #[inline]
    fn sample<R: Rng + ?Sized>(&self, rng: &mut R) -> char {
        // A valid `char` is either in the interval `[0, 0xD800)` or
        // `(0xDFFF, 0x11_0000)`. All `char`s must therefore be in
        // `[0, 0x11_0000)` but not in the "gap" `[0xD800, 0xDFFF]` which is
        // reserved for surrogates. This is the size of that gap.
        const GAP_SIZE: u32 = 0xDFFF - 0xD800 + 1;

        // Uniform::new(0, 0x11_0000 - GAP_SIZE) can also be used but it
        // seemed slower.
        let range = Uniform::new(GAP_SIZE, 0x11_0000);

        let mut n = range.sample(rng);
        if n <= 0xDFFF {
            n -= GAP_SIZE;
        }
        unsafe { char::from_u32_unchecked(n) }
    }
}

/// Note: the `String` is potentially left with excess capacity; optionally the
/// user may call `string.shrink_to_fit()` afterwards.
#[cfg(feature = "alloc")]
impl DistString for Standard {
    fn append_string<R: Rng + ?Sized>(&self, rng: &mut R, s: &mut String, len: usize) {
        // A char is encoded with at most four bytes, thus this reservation is
        // guaranteed to be sufficient. We do not shrink_to_fit afterwards so
        // that repeated usage on the same `String` buffer does not reallocate.
        s.reserve(4 * len);
        s.extend(Distribution::<char>::sample_iter(self, rng).take(len));
    }
}

impl Distribution<u8> for Alphanumeric {
    fn sample<R: Rng + ?Sized>(&self, rng: &mut R) -> u8 {
        const RANGE: u32 = 26 + 26 + 10;
        const GEN_ASCII_STR_CHARSET: &[u8] = b"ABCDEFGHIJKLMNOPQRSTUVWXYZ\
                abcdefghijklmnopqrstuvwxyz\
                0123456789";
        // We can pick from 62 characters. This is so close to a power of 2, 64,
        // that we can do better than `Uniform`. Use a simple bitshift and
        // rejection sampling. We do not use a bitmask, because for small RNGs
        // the most significant bits are usually of higher quality.
        loop {
            let var = rng.next_u32() >> (32 - 6);
            if var < RANGE {
                return GEN_ASCII_STR_CHARSET[var as usize];
            }
        }
    }
}

#[cfg(feature = "alloc")]
impl DistString for Alphanumeric {
    fn append_string<R: Rng + ?Sized>(&self, rng: &mut R, string: &mut String, len: usize) {
        unsafe {
            let v = string.as_mut_vec();
            v.extend(self.sample_iter(rng).take(len));
        }
    }
}

impl Distribution<bool> for Standard {
    #[inline]
    fn sample<R: Rng + ?Sized>(&self, rng: &mut R) -> bool {
        // We can compare against an arbitrary bit of an u32 to get a bool.
        // Because the least significant bits of a lower quality RNG can have
        // simple patterns, we compare against the most significant bit. This is
        // easiest done using a sign test.
        (rng.next_u32() as i32) < 0
    }
}

macro_rules! tuple_impl {
    // use variables to indicate the arity of the tuple
    ($($tyvar:ident),* ) => {
        // the trailing commas are for the 1 tuple
        impl< $( $tyvar ),* >
            Distribution<( $( $tyvar ),* , )>
            for Standard
            where $( Standard: Distribution<$tyvar> ),*
        {
            #[inline]
            fn sample<R: Rng + ?Sized>(&self, _rng: &mut R) -> ( $( $tyvar ),* , ) {
                (
                    // use the $tyvar's to get the appropriate number of
                    // repeats (they're not actually needed)
                    $(
                        _rng.gen::<$tyvar>()
                    ),*
                    ,
                )
            }
        }
    }
}

impl Distribution<()> for Standard {
    #[allow(clippy::unused_unit)]
    #[inline]
    fn sample<R: Rng + ?Sized>(&self, _: &mut R) -> () {
        ()
    }
}
tuple_impl! {A}
tuple_impl! {A, B}
tuple_impl! {A, B, C}
tuple_impl! {A, B, C, D}
tuple_impl! {A, B, C, D, E}
tuple_impl! {A, B, C, D, E, F}
tuple_impl! {A, B, C, D, E, F, G}
tuple_impl! {A, B, C, D, E, F, G, H}
tuple_impl! {A, B, C, D, E, F, G, H, I}
tuple_impl! {A, B, C, D, E, F, G, H, I, J}
tuple_impl! {A, B, C, D, E, F, G, H, I, J, K}
tuple_impl! {A, B, C, D, E, F, G, H, I, J, K, L}

#[cfg(feature = "min_const_gen")]
#[cfg_attr(docsrs, doc(cfg(feature = "min_const_gen")))]
impl<T, const N: usize> Distribution<[T; N]> for Standard
where Standard: Distribution<T>
{
    #[inline]
    fn sample<R: Rng + ?Sized>(&self, _rng: &mut R) -> [T; N] {
        let mut buff: [MaybeUninit<T>; N] = unsafe { MaybeUninit::uninit().assume_init() };

        for elem in &mut buff {
            *elem = MaybeUninit::new(_rng.gen());
        }

        unsafe { mem::transmute_copy::<_, _>(&buff) }
    }
}

#[cfg(not(feature = "min_const_gen"))]
macro_rules! array_impl {
    // recursive, given at least one type parameter:
    {$n:expr, $t:ident, $($ts:ident,)*} => {
        array_impl!{($n - 1), $($ts,)*}

        impl<T> Distribution<[T; $n]> for Standard where Standard: Distribution<T> {
            #[inline]
            fn sample<R: Rng + ?Sized>(&self, _rng: &mut R) -> [T; $n] {
                [_rng.gen::<$t>(), $(_rng.gen::<$ts>()),*]
            }
        }
    };
    // empty case:
    {$n:expr,} => {
        impl<T> Distribution<[T; $n]> for Standard {
            fn sample<R: Rng + ?Sized>(&self, _rng: &mut R) -> [T; $n] { [] }
        }
    };
}

#[cfg(not(feature = "min_const_gen"))]
array_impl! {32, T, T, T, T, T, T, T, T, T, T, T, T, T, T, T, T, T, T, T, T, T, T, T, T, T, T, T, T, T, T, T, T,}

impl<T> Distribution<Option<T>> for Standard
where Standard: Distribution<T>
{
    #[inline]
    fn sample<R: Rng + ?Sized>(&self, rng: &mut R) -> Option<T> {
        // UFCS is needed here: https://github.com/rust-lang/rust/issues/24066
        if rng.gen::<bool>() {
            Some(rng.gen())
        } else {
            None
        }
    }
}

impl<T> Distribution<Wrapping<T>> for Standard
where Standard: Distribution<T>
{
    #[inline]
    fn sample<R: Rng + ?Sized>(&self, rng: &mut R) -> Wrapping<T> {
        Wrapping(rng.gen())
    }
}


#[cfg(test)]
mod tests {
    use super::*;
    use crate::RngCore;
    #[cfg(feature = "alloc")] use alloc::string::String;

    #[test]
    fn test_misc() {
        let rng: &mut dyn RngCore = &mut crate::test::rng(820);

        rng.sample::<char, _>(Standard);
        rng.sample::<bool, _>(Standard);
    }

    #[cfg(feature = "alloc")]
    #[test]
    fn test_chars() {
        use core::iter;
        let mut rng = crate::test::rng(805);

        // Test by generating a relatively large number of chars, so we also
        // take the rejection sampling path.
        let word: String = iter::repeat(())
            .map(|()| rng.gen::<char>())
            .take(1000)
            .collect();
        assert!(!word.is_empty());
    }

    #[test]
    fn test_alphanumeric() {
        let mut rng = crate::test::rng(806);

        // Test by generating a relatively large number of chars, so we also
        // take the rejection sampling path.
        let mut incorrect = false;
        for _ in 0..100 {
            let c: char = rng.sample(Alphanumeric).into();
            incorrect |= !(('0'..='9').contains(&c) ||
                           ('A'..='Z').contains(&c) ||
                           ('a'..='z').contains(&c) );
        }
        assert!(!incorrect);
    }

    #[test]
    fn value_stability() {
        fn test_samples<T: Copy + core::fmt::Debug + PartialEq, D: Distribution<T>>(
            distr: &D, zero: T, expected: &[T],
        ) {
            let mut rng = crate::test::rng(807);
            let mut buf = [zero; 5];
            for x in &mut buf {
                *x = rng.sample(&distr);
            }
            assert_eq!(&buf, expected);
        }

        test_samples(&Standard, 'a', &[
            '\u{8cdac}',
            '\u{a346a}',
            '\u{80120}',
            '\u{ed692}',
            '\u{35888}',
        ]);
        test_samples(&Alphanumeric, 0, &[104, 109, 101, 51, 77]);
        test_samples(&Standard, false, &[true, true, false, true, false]);
        test_samples(&Standard, None as Option<bool>, &[
            Some(true),
            None,
            Some(false),
            None,
            Some(false),
        ]);
        test_samples(&Standard, Wrapping(0i32), &[
            Wrapping(-2074640887),
            Wrapping(-1719949321),
            Wrapping(2018088303),
            Wrapping(-547181756),
            Wrapping(838957336),
        ]);

        // We test only sub-sets of tuple and array impls
        test_samples(&Standard, (), &[(), (), (), (), ()]);
        test_samples(&Standard, (false,), &[
            (true,),
            (true,),
            (false,),
            (true,),
            (false,),
        ]);
        test_samples(&Standard, (false, false), &[
            (true, true),
            (false, true),
            (false, false),
            (true, false),
            (false, false),
        ]);

        test_samples(&Standard, [0u8; 0], &[[], [], [], [], []]);
        test_samples(&Standard, [0u8; 3], &[
            [9, 247, 111],
            [68, 24, 13],
            [174, 19, 194],
            [172, 69, 213],
            [149, 207, 29],
        ]);
    }
}
