// Copyright 2018 Developers of the Rand project.
//
// Licensed under the Apache License, Version 2.0 <LICENSE-APACHE or
// https://www.apache.org/licenses/LICENSE-2.0> or the MIT license
// <LICENSE-MIT or https://opensource.org/licenses/MIT>, at your
// option. This file may not be copied, modified, or distributed
// except according to those terms.

//! Weighted index sampling
//!
//! This module is deprecated. Use [`crate::distributions::WeightedIndex`] and
//! [`crate::distributions::WeightedError`] instead.

pub use super::{WeightedIndex, WeightedError};

#[allow(missing_docs)]
#[deprecated(since = "0.8.0", note = "moved to rand_distr crate")]
pub mod alias_method {
    // This module exists to provide a deprecation warning which minimises
    // compile errors, but still fails to compile if ever used.
    use core::marker::PhantomData;
    use alloc::vec::Vec;
    use super::WeightedError;

    #[derive(Debug)]
    pub struct WeightedIndex<W: Weight> {
        _phantom: PhantomData<W>,
    }
    impl<W: Weight> WeightedIndex<W> {
        pub fn new(_weights: Vec<W>) -> Result<Self, WeightedError> {
            Err(WeightedError::NoItem)
        }
    }

    pub trait Weight {}
    macro_rules! impl_weight {
        () => {};
        ($T:ident, $($more:ident,)*) => {
            impl Weight for $T {}
            impl_weight!($($more,)*);
        };
    }
    impl_weight!(f64, f32,);
    impl_weight!(u8, u16, u32, u64, usize,);
    impl_weight!(i8, i16, i32, i64, isize,);
    impl_weight!(u128, i128,);
}
