// Copyright 2018-2020 Developers of the Rand project.
// Copyright 2017 The Rust Project Developers.
//
// Licensed under the Apache License, Version 2.0 <LICENSE-APACHE or
// https://www.apache.org/licenses/LICENSE-2.0> or the MIT license
// <LICENSE-MIT or https://opensource.org/licenses/MIT>, at your
// option. This file may not be copied, modified, or distributed
// except according to those terms.

//! A distribution uniformly sampling numbers within a given range.
//!
//! [`Uniform`] is the standard distribution to sample uniformly from a range;
//! e.g. `Uniform::new_inclusive(1, 6)` can sample integers from 1 to 6, like a
//! standard die. [`Rng::gen_range`] supports any type supported by
//! [`Uniform`].
//!
//! This distribution is provided with support for several primitive types
//! (all integer and floating-point types) as well as [`std::time::Duration`],
//! and supports extension to user-defined types via a type-specific *back-end*
//! implementation.
//!
//! The types [`UniformInt`], [`UniformFloat`] and [`UniformDuration`] are the
//! back-ends supporting sampling from primitive integer and floating-point
//! ranges as well as from [`std::time::Duration`]; these types do not normally
//! need to be used directly (unless implementing a derived back-end).
//!
//! # Example usage
//!
//! ```
//! use rand::{Rng, thread_rng};
//! use rand::distributions::Uniform;
//!
//! let mut rng = thread_rng();
//! let side = Uniform::new(-10.0, 10.0);
//!
//! // sample between 1 and 10 points
//! for _ in 0..rng.gen_range(1..=10) {
//!     // sample a point from the square with sides -10 - 10 in two dimensions
//!     let (x, y) = (rng.sample(side), rng.sample(side));
//!     println!("Point: {}, {}", x, y);
//! }
//! ```
//!
//! # Extending `Uniform` to support a custom type
//!
//! To extend [`Uniform`] to support your own types, write a back-end which
//! implements the [`UniformSampler`] trait, then implement the [`SampleUniform`]
//! helper trait to "register" your back-end. See the `MyF32` example below.
//!
//! At a minimum, the back-end needs to store any parameters needed for sampling
//! (e.g. the target range) and implement `new`, `new_inclusive` and `sample`.
//! Those methods should include an assert to check the range is valid (i.e.
//! `low < high`). The example below merely wraps another back-end.
//!
//! The `new`, `new_inclusive` and `sample_single` functions use arguments of
//! type `SampleBorrow<X>` in order to support passing in values by reference or
//! by value. In the implementation of these functions, you can choose to
//! simply use the reference returned by [`SampleBorrow::borrow`], or you can choose
//! to copy or clone the value, whatever is appropriate for your type.
//!
//! ```
//! use rand::prelude::*;
//! use rand::distributions::uniform::{Uniform, SampleUniform,
//!         UniformSampler, UniformFloat, SampleBorrow};
//!
//! struct MyF32(f32);
//!
//! #[derive(Clone, Copy, Debug)]
//! struct UniformMyF32(UniformFloat<f32>);
//!
//! impl UniformSampler for UniformMyF32 {
//!     type X = MyF32;
//!     fn new<B1, B2>(low: B1, high: B2) -> Self
//!         where B1: SampleBorrow<Self::X> + Sized,
//!               B2: SampleBorrow<Self::X> + Sized
//!     {
//!         UniformMyF32(UniformFloat::<f32>::new(low.borrow().0, high.borrow().0))
//!     }
//!     fn new_inclusive<B1, B2>(low: B1, high: B2) -> Self
//!         where B1: SampleBorrow<Self::X> + Sized,
//!               B2: SampleBorrow<Self::X> + Sized
//!     {
//!         UniformMyF32(UniformFloat::<f32>::new_inclusive(
//!             low.borrow().0,
//!             high.borrow().0,
//!         ))
//!     }
//!     fn sample<R: Rng + ?Sized>(&self, rng: &mut R) -> Self::X {
//!         MyF32(self.0.sample(rng))
//!     }
//! }
//!
//! impl SampleUniform for MyF32 {
//!     type Sampler = UniformMyF32;
//! }
//!
//! let (low, high) = (MyF32(17.0f32), MyF32(22.0f32));
//! let uniform = Uniform::new(low, high);
//! let x = uniform.sample(&mut thread_rng());
//! ```
//!
//! [`SampleUniform`]: crate::distributions::uniform::SampleUniform
//! [`UniformSampler`]: crate::distributions::uniform::UniformSampler
//! [`UniformInt`]: crate::distributions::uniform::UniformInt
//! [`UniformFloat`]: crate::distributions::uniform::UniformFloat
//! [`UniformDuration`]: crate::distributions::uniform::UniformDuration
//! [`SampleBorrow::borrow`]: crate::distributions::uniform::SampleBorrow::borrow

use core::time::Duration;
use core::ops::{Range, RangeInclusive};

use crate::distributions::float::IntoFloat;
use crate::distributions::utils::{BoolAsSIMD, FloatAsSIMD, FloatSIMDUtils, WideningMultiply};
use crate::distributions::Distribution;
use crate::{Rng, RngCore};

#[cfg(not(feature = "std"))]
#[allow(unused_imports)] // rustc doesn't detect that this is actually used
use crate::distributions::utils::Float;

#[cfg(feature = "serde1")]
use serde::{Serialize, Deserialize};

/// Sample values uniformly between two bounds.
///
/// [`Uniform::new`] and [`Uniform::new_inclusive`] construct a uniform
/// distribution sampling from the given range; these functions may do extra
/// work up front to make sampling of multiple values faster. If only one sample
/// from the range is required, [`Rng::gen_range`] can be more efficient.
///
/// When sampling from a constant range, many calculations can happen at
/// compile-time and all methods should be fast; for floating-point ranges and
/// the full range of integer types this should have comparable performance to
/// the `Standard` distribution.
///
/// Steps are taken to avoid bias which might be present in naive
/// implementations; for example `rng.gen::<u8>() % 170` samples from the range
/// `[0, 169]` but is twice as likely to select numbers less than 85 than other
/// values. Further, the implementations here give more weight to the high-bits
/// generated by the RNG than the low bits, since with some RNGs the low-bits
/// are of lower quality than the high bits.
///
/// Implementations must sample in `[low, high)` range for
/// `Uniform::new(low, high)`, i.e., excluding `high`. In particular, care must
/// be taken to ensure that rounding never results values `< low` or `>= high`.
///
/// # Example
///
/// ```
/// use rand::distributions::{Distribution, Uniform};
///
/// let between = Uniform::from(10..10000);
/// let mut rng = rand::thread_rng();
/// let mut sum = 0;
/// for _ in 0..1000 {
///     sum += between.sample(&mut rng);
/// }
/// println!("{}", sum);
/// ```
///
/// For a single sample, [`Rng::gen_range`] may be preferred:
///
/// ```
/// use rand::Rng;
///
/// let mut rng = rand::thread_rng();
/// println!("{}", rng.gen_range(0..10));
/// ```
///
/// [`new`]: Uniform::new
/// [`new_inclusive`]: Uniform::new_inclusive
/// [`Rng::gen_range`]: Rng::gen_range
#[derive(Clone, Copy, Debug, PartialEq)]
#[cfg_attr(feature = "serde1", derive(Serialize, Deserialize))]
#[cfg_attr(feature = "serde1", serde(bound(serialize = "X::Sampler: Serialize")))]
#[cfg_attr(feature = "serde1", serde(bound(deserialize = "X::Sampler: Deserialize<'de>")))]
pub struct Uniform<X: SampleUniform>(X::Sampler);

impl<X: SampleUniform> Uniform<X> {
    /// Create a new `Uniform` instance which samples uniformly from the half
    /// open range `[low, high)` (excluding `high`). Panics if `low >= high`.
    pub fn new<B1, B2>(low: B1, high: B2) -> Uniform<X>
    where
        B1: SampleBorrow<X> + Sized,
        B2: SampleBorrow<X> + Sized,
    {
        Uniform(X::Sampler::new(low, high))
    }

    /// Create a new `Uniform` instance which samples uniformly from the closed
    /// range `[low, high]` (inclusive). Panics if `low > high`.
    pub fn new_inclusive<B1, B2>(low: B1, high: B2) -> Uniform<X>
    where
        B1: SampleBorrow<X> + Sized,
        B2: SampleBorrow<X> + Sized,
    {
        Uniform(X::Sampler::new_inclusive(low, high))
    }
}

impl<X: SampleUniform> Distribution<X> for Uniform<X> {
    fn sample<R: Rng + ?Sized>(&self, rng: &mut R) -> X {
        self.0.sample(rng)
    }
}

/// Helper trait for creating objects using the correct implementation of
/// [`UniformSampler`] for the sampling type.
///
/// See the [module documentation] on how to implement [`Uniform`] range
/// sampling for a custom type.
///
/// [module documentation]: crate::distributions::uniform
pub trait SampleUniform: Sized {
    /// The `UniformSampler` implementation supporting type `X`.
    type Sampler: UniformSampler<X = Self>;
}

/// Helper trait handling actual uniform sampling.
///
/// See the [module documentation] on how to implement [`Uniform`] range
/// sampling for a custom type.
///
/// Implementation of [`sample_single`] is optional, and is only useful when
/// the implementation can be faster than `Self::new(low, high).sample(rng)`.
///
/// [module documentation]: crate::distributions::uniform
/// [`sample_single`]: UniformSampler::sample_single
pub trait UniformSampler: Sized {
    /// The type sampled by this implementation.
    type X;

    /// Construct self, with inclusive lower bound and exclusive upper bound
    /// `[low, high)`.
    ///
    /// Usually users should not call this directly but instead use
    /// `Uniform::new`, which asserts that `low < high` before calling this.
    fn new<B1, B2>(low: B1, high: B2) -> Self
    where
        B1: SampleBorrow<Self::X> + Sized,
        B2: SampleBorrow<Self::X> + Sized;

    /// Construct self, with inclusive bounds `[low, high]`.
    ///
    /// Usually users should not call this directly but instead use
    /// `Uniform::new_inclusive`, which asserts that `low <= high` before
    /// calling this.
    fn new_inclusive<B1, B2>(low: B1, high: B2) -> Self
    where
        B1: SampleBorrow<Self::X> + Sized,
        B2: SampleBorrow<Self::X> + Sized;

    /// Sample a value.
    fn sample<R: Rng + ?Sized>(&self, rng: &mut R) -> Self::X;

    /// Sample a single value uniformly from a range with inclusive lower bound
    /// and exclusive upper bound `[low, high)`.
    ///
    /// By default this is implemented using
    /// `UniformSampler::new(low, high).sample(rng)`. However, for some types
    /// more optimal implementations for single usage may be provided via this
    /// method (which is the case for integers and floats).
    /// Results may not be identical.
    ///
    /// Note that to use this method in a generic context, the type needs to be
    /// retrieved via `SampleUniform::Sampler` as follows:
    /// ```
    /// use rand::{thread_rng, distributions::uniform::{SampleUniform, UniformSampler}};
    /// # #[allow(unused)]
    /// fn sample_from_range<T: SampleUniform>(lb: T, ub: T) -> T {
    ///     let mut rng = thread_rng();
    ///     <T as SampleUniform>::Sampler::sample_single(lb, ub, &mut rng)
    /// }
    /// ```
    fn sample_single<R: Rng + ?Sized, B1, B2>(low: B1, high: B2, rng: &mut R) -> Self::X
    where
        B1: SampleBorrow<Self::X> + Sized,
        B2: SampleBorrow<Self::X> + Sized,
    {
        let uniform: Self = UniformSampler::new(low, high);
        uniform.sample(rng)
    }

    /// Sample a single value uniformly from a range with inclusive lower bound
    /// and inclusive upper bound `[low, high]`.
    ///
    /// By default this is implemented using
    /// `UniformSampler::new_inclusive(low, high).sample(rng)`. However, for
    /// some types more optimal implementations for single usage may be provided
    /// via this method.
    /// Results may not be identical.
    fn sample_single_inclusive<R: Rng + ?Sized, B1, B2>(low: B1, high: B2, rng: &mut R)
        -> Self::X
        where B1: SampleBorrow<Self::X> + Sized,
              B2: SampleBorrow<Self::X> + Sized
    {
        let uniform: Self = UniformSampler::new_inclusive(low, high);
        uniform.sample(rng)
    }
}

impl<X: SampleUniform> From<Range<X>> for Uniform<X> {
    fn from(r: ::core::ops::Range<X>) -> Uniform<X> {
        Uniform::new(r.start, r.end)
    }
}

impl<X: SampleUniform> From<RangeInclusive<X>> for Uniform<X> {
    fn from(r: ::core::ops::RangeInclusive<X>) -> Uniform<X> {
        Uniform::new_inclusive(r.start(), r.end())
    }
}


/// Helper trait similar to [`Borrow`] but implemented
/// only for SampleUniform and references to SampleUniform in
/// order to resolve ambiguity issues.
///
/// [`Borrow`]: std::borrow::Borrow
pub trait SampleBorrow<Borrowed> {
    /// Immutably borrows from an owned value. See [`Borrow::borrow`]
    ///
    /// [`Borrow::borrow`]: std::borrow::Borrow::borrow
    fn borrow(&self) -> &Borrowed;
}
impl<Borrowed> SampleBorrow<Borrowed> for Borrowed
where Borrowed: SampleUniform
{
    #[inline(always)]
    fn borrow(&self) -> &Borrowed {
        self
    }
}
impl<'a, Borrowed> SampleBorrow<Borrowed> for &'a Borrowed
where Borrowed: SampleUniform
{
    #[inline(always)]
    fn borrow(&self) -> &Borrowed {
        *self
    }
}

/// Range that supports generating a single sample efficiently.
///
/// Any type implementing this trait can be used to specify the sampled range
/// for `Rng::gen_range`.
pub trait SampleRange<T> {
    /// Generate a sample from the given range.
    fn sample_single<R: RngCore + ?Sized>(self, rng: &mut R) -> T;

    /// Check whether the range is empty.
    fn is_empty(&self) -> bool;
}

impl<T: SampleUniform + PartialOrd> SampleRange<T> for Range<T> {
    #[inline]
    fn sample_single<R: RngCore + ?Sized>(self, rng: &mut R) -> T {
        T::Sampler::sample_single(self.start, self.end, rng)
    }

    #[inline]
    fn is_empty(&self) -> bool {
        !(self.start < self.end)
    }
}

impl<T: SampleUniform + PartialOrd> SampleRange<T> for RangeInclusive<T> {
    #[inline]
    fn sample_single<R: RngCore + ?Sized>(self, rng: &mut R) -> T {
        T::Sampler::sample_single_inclusive(self.start(), self.end(), rng)
    }

    #[inline]
    fn is_empty(&self) -> bool {
        !(self.start() <= self.end())
    }
}


////////////////////////////////////////////////////////////////////////////////

// What follows are all back-ends.


/// The back-end implementing [`UniformSampler`] for integer types.
///
/// Unless you are implementing [`UniformSampler`] for your own type, this type
/// should not be used directly, use [`Uniform`] instead.
///
/// # Implementation notes
///
/// For simplicity, we use the same generic struct `UniformInt<X>` for all
/// integer types `X`. This gives us only one field type, `X`; to store unsigned
/// values of this size, we take use the fact that these conversions are no-ops.
///
/// For a closed range, the number of possible numbers we should generate is
/// `range = (high - low + 1)`. To avoid bias, we must ensure that the size of
/// our sample space, `zone`, is a multiple of `range`; other values must be
/// rejected (by replacing with a new random sample).
///
/// As a special case, we use `range = 0` to represent the full range of the
/// result type (i.e. for `new_inclusive($ty::MIN, $ty::MAX)`).
///
/// The optimum `zone` is the largest product of `range` which fits in our
/// (unsigned) target type. We calculate this by calculating how many numbers we
/// must reject: `reject = (MAX + 1) % range = (MAX - range + 1) % range`. Any (large)
/// product of `range` will suffice, thus in `sample_single` we multiply by a
/// power of 2 via bit-shifting (faster but may cause more rejections).
///
/// The smallest integer PRNGs generate is `u32`. For 8- and 16-bit outputs we
/// use `u32` for our `zone` and samples (because it's not slower and because
/// it reduces the chance of having to reject a sample). In this case we cannot
/// store `zone` in the target type since it is too large, however we know
/// `ints_to_reject < range <= $unsigned::MAX`.
///
/// An alternative to using a modulus is widening multiply: After a widening
/// multiply by `range`, the result is in the high word. Then comparing the low
/// word against `zone` makes sure our distribution is uniform.
#[derive(Clone, Copy, Debug, PartialEq)]
#[cfg_attr(feature = "serde1", derive(Serialize, Deserialize))]
pub struct UniformInt<X> {
    low: X,
    range: X,
    z: X, // either ints_to_reject or zone depending on implementation
}

macro_rules! uniform_int_impl {
    ($ty:ty, $unsigned:ident, $u_large:ident) => {
        impl UniformInt<$ty> {
            /// Get the maximum possible value
            #[allow(unused)]
            #[inline]
            pub(crate) fn max(&self) -> $ty {
                self.range.wrapping_sub(1).wrapping_add(self.low)
            }
        }

        impl SampleUniform for $ty {
            type Sampler = UniformInt<$ty>;
        }

        impl UniformSampler for UniformInt<$ty> {
            // We play free and fast with unsigned vs signed here
            // (when $ty is signed), but that's fine, since the
            // contract of this macro is for $ty and $unsigned to be
            // "bit-equal", so casting between them is a no-op.

            type X = $ty;

            #[inline] // if the range is constant, this helps LLVM to do the
                      // calculations at compile-time.
            fn new<B1, B2>(low_b: B1, high_b: B2) -> Self
            where
                B1: SampleBorrow<Self::X> + Sized,
                B2: SampleBorrow<Self::X> + Sized,
            {
                let low = *low_b.borrow();
                let high = *high_b.borrow();
                assert!(low < high, "Uniform::new called with `low >= high`");
                UniformSampler::new_inclusive(low, high - 1)
            }

            #[inline] // if the range is constant, this helps LLVM to do the
                      // calculations at compile-time.
            fn new_inclusive<B1, B2>(low_b: B1, high_b: B2) -> Self
            where
                B1: SampleBorrow<Self::X> + Sized,
                B2: SampleBorrow<Self::X> + Sized,
            {
                let low = *low_b.borrow();
                let high = *high_b.borrow();
                assert!(
                    low <= high,
                    "Uniform::new_inclusive called with `low > high`"
                );
                let unsigned_max = ::core::$u_large::MAX;

                let range = high.wrapping_sub(low).wrapping_add(1) as $unsigned;
                let ints_to_reject = if range > 0 {
                    let range = $u_large::from(range);
                    (unsigned_max - range + 1) % range
                } else {
                    0
                };

                UniformInt {
                    low,
                    // These are really $unsigned values, but store as $ty:
                    range: range as $ty,
                    z: ints_to_reject as $unsigned as $ty,
                }
            }

            #[inline]
            fn sample<R: Rng + ?Sized>(&self, rng: &mut R) -> Self::X {
                let range = self.range as $unsigned as $u_large;
                if range > 0 {
                    let unsigned_max = ::core::$u_large::MAX;
                    let zone = unsigned_max - (self.z as $unsigned as $u_large);
                    loop {
                        let v: $u_large = rng.gen();
                        let (hi, lo) = v.wmul(range);
                        if lo <= zone {
                            return self.low.wrapping_add(hi as $ty);
                        }
                    }
                } else {
                    // Sample from the entire integer range.
                    rng.gen()
                }
            }

            #[inline]
            fn sample_single<R: Rng + ?Sized, B1, B2>(low_b: B1, high_b: B2, rng: &mut R) -> Self::X
            where
                B1: SampleBorrow<Self::X> + Sized,
                B2: SampleBorrow<Self::X> + Sized,
            {
                let low = *low_b.borrow();
                let high = *high_b.borrow();
                assert!(low < high, "UniformSampler::sample_single: low >= high");
                Self::sample_single_inclusive(low, high - 1, rng)
            }

            #[inline]
            fn sample_single_inclusive<R: Rng + ?Sized, B1, B2>(low_b: B1, high_b: B2, rng: &mut R) -> Self::X
            where
                B1: SampleBorrow<Self::X> + Sized,
                B2: SampleBorrow<Self::X> + Sized,
            {
                let low = *low_b.borrow();
                let high = *high_b.borrow();
                assert!(low <= high, "UniformSampler::sample_single_inclusive: low > high");
                let range = high.wrapping_sub(low).wrapping_add(1) as $unsigned as $u_large;
                // If the above resulted in wrap-around to 0, the range is $ty::MIN..=$ty::MAX,
                // and any integer will do.
                if range == 0 {
                    return rng.gen();
                }

                let zone = if ::core::$unsigned::MAX <= ::core::u16::MAX as $unsigned {
                    // Using a modulus is faster than the approximation for
                    // i8 and i16. I suppose we trade the cost of one
                    // modulus for near-perfect branch prediction.
                    let unsigned_max: $u_large = ::core::$u_large::MAX;
                    let ints_to_reject = (unsigned_max - range + 1) % range;
                    unsigned_max - ints_to_reject
                } else {
                    // conservative but fast approximation. `- 1` is necessary to allow the
                    // same comparison without bias.
                    (range << range.leading_zeros()).wrapping_sub(1)
                };

                loop {
                    let v: $u_large = rng.gen();
                    let (hi, lo) = v.wmul(range);
                    if lo <= zone {
                        return low.wrapping_add(hi as $ty);
                    }
                }
            }
        }
    };
}

uniform_int_impl! { i8, u8, u32 }
uniform_int_impl! { i16, u16, u32 }
uniform_int_impl! { i32, u32, u32 }
uniform_int_impl! { i64, u64, u64 }
uniform_int_impl! { i128, u128, u128 }
uniform_int_impl! { isize, usize, usize }
uniform_int_impl! { u8, u8, u32 }
uniform_int_impl! { u16, u16, u32 }
uniform_int_impl! { u32, u32, u32 }
uniform_int_impl! { u64, u64, u64 }
uniform_int_impl! { usize, usize, usize }
uniform_int_impl! { u128, u128, u128 }

impl SampleUniform for char {
    type Sampler = UniformChar;
}

/// The back-end implementing [`UniformSampler`] for `char`.
///
/// Unless you are implementing [`UniformSampler`] for your own type, this type
/// should not be used directly, use [`Uniform`] instead.
///
/// This differs from integer range sampling since the range `0xD800..=0xDFFF`
/// are used for surrogate pairs in UCS and UTF-16, and consequently are not
/// valid Unicode code points. We must therefore avoid sampling values in this
/// range.
#[derive(Clone, Copy, Debug)]
#[cfg_attr(feature = "serde1", derive(Serialize, Deserialize))]
pub struct UniformChar {
    #[cfg_attr(feature = "serde1", serde(deserialize_with = "deser_sampler"))]
    sampler: UniformInt<u32>,
}

#[cfg(feature = "serde1")]
fn deser_sampler<'de, D>(d: D) -> Result<UniformInt<u32>, D::Error>
where
D: serde::Deserializer<'de>,
{
    let sampler = <UniformInt<u32> as serde::Deserialize>::deserialize(d)?;
    if sampler.max() > std::char::MAX as u32 - CHAR_SURROGATE_LEN {
        return Err(serde::de::Error::custom(
            "bad sampler range for UniformChar",
        ));
    }
    Ok(sampler)
}

/// UTF-16 surrogate range start
const CHAR_SURROGATE_START: u32 = 0xD800;
/// UTF-16 surrogate range size
const CHAR_SURROGATE_LEN: u32 = 0xE000 - CHAR_SURROGATE_START;

/// Convert `char` to compressed `u32`
fn char_to_comp_u32(c: char) -> u32 {
    match c as u32 {
        c if c >= CHAR_SURROGATE_START => c - CHAR_SURROGATE_LEN,
        c => c,
    }
}

impl UniformSampler for UniformChar {
    type X = char;

    #[inline] // if the range is constant, this helps LLVM to do the
              // calculations at compile-time.
    fn new<B1, B2>(low_b: B1, high_b: B2) -> Self
    where
        B1: SampleBorrow<Self::X> + Sized,
        B2: SampleBorrow<Self::X> + Sized,
    {
        let low = char_to_comp_u32(*low_b.borrow());
        let high = char_to_comp_u32(*high_b.borrow());
        let sampler = UniformInt::<u32>::new(low, high);
        UniformChar { sampler }
    }

    #[inline] // if the range is constant, this helps LLVM to do the
              // calculations at compile-time.
    fn new_inclusive<B1, B2>(low_b: B1, high_b: B2) -> Self
    where
        B1: SampleBorrow<Self::X> + Sized,
        B2: SampleBorrow<Self::X> + Sized,
    {
        let low = char_to_comp_u32(*low_b.borrow());
        let high = char_to_comp_u32(*high_b.borrow());
        let sampler = UniformInt::<u32>::new_inclusive(low, high);
        UniformChar { sampler }
    }

    fn sample<R: Rng + ?Sized>(&self, rng: &mut R) -> Self::X {
        let mut x = self.sampler.sample(rng);
        if x >= CHAR_SURROGATE_START {
            x += CHAR_SURROGATE_LEN;
        }
        // SAFETY: x must not be in surrogate range or greater than char::MAX.
        // This relies on range constructors which accept char arguments.
        // Validity of input char values is assumed.
        unsafe { core::char::from_u32_unchecked(x) }
    }
}

/// The back-end implementing [`UniformSampler`] for floating-point types.
///
/// Unless you are implementing [`UniformSampler`] for your own type, this type
/// should not be used directly, use [`Uniform`] instead.
///
/// # Implementation notes
///
/// Instead of generating a float in the `[0, 1)` range using [`Standard`], the
/// `UniformFloat` implementation converts the output of an PRNG itself. This
/// way one or two steps can be optimized out.
///
/// The floats are first converted to a value in the `[1, 2)` interval using a
/// transmute-based method, and then mapped to the expected range with a
/// multiply and addition. Values produced this way have what equals 23 bits of
/// random digits for an `f32`, and 52 for an `f64`.
///
/// [`new`]: UniformSampler::new
/// [`new_inclusive`]: UniformSampler::new_inclusive
/// [`Standard`]: crate::distributions::Standard
#[derive(Clone, Copy, Debug, PartialEq)]
#[cfg_attr(feature = "serde1", derive(Serialize, Deserialize))]
pub struct UniformFloat<X> {
    low: X,
    scale: X,
}

macro_rules! uniform_float_impl {
    ($ty:ty, $uty:ident, $f_scalar:ident, $u_scalar:ident, $bits_to_discard:expr) => {
        impl SampleUniform for $ty {
            type Sampler = UniformFloat<$ty>;
        }

        impl UniformSampler for UniformFloat<$ty> {
            type X = $ty;

            fn new<B1, B2>(low_b: B1, high_b: B2) -> Self
            where
                B1: SampleBorrow<Self::X> + Sized,
                B2: SampleBorrow<Self::X> + Sized,
            {
                let low = *low_b.borrow();
                let high = *high_b.borrow();
                debug_assert!(
                    low.all_finite(),
                    "Uniform::new called with `low` non-finite."
                );
                debug_assert!(
                    high.all_finite(),
                    "Uniform::new called with `high` non-finite."
                );
                assert!(low.all_lt(high), "Uniform::new called with `low >= high`");
                let max_rand = <$ty>::splat(
                    (::core::$u_scalar::MAX >> $bits_to_discard).into_float_with_exponent(0) - 1.0,
                );

                let mut scale = high - low;
                assert!(scale.all_finite(), "Uniform::new: range overflow");

                loop {
                    let mask = (scale * max_rand + low).ge_mask(high);
                    if mask.none() {
                        break;
                    }
                    scale = scale.decrease_masked(mask);
                }

                debug_assert!(<$ty>::splat(0.0).all_le(scale));

                UniformFloat { low, scale }
            }

            fn new_inclusive<B1, B2>(low_b: B1, high_b: B2) -> Self
            where
                B1: SampleBorrow<Self::X> + Sized,
                B2: SampleBorrow<Self::X> + Sized,
            {
                let low = *low_b.borrow();
                let high = *high_b.borrow();
                debug_assert!(
                    low.all_finite(),
                    "Uniform::new_inclusive called with `low` non-finite."
                );
                debug_assert!(
                    high.all_finite(),
                    "Uniform::new_inclusive called with `high` non-finite."
                );
                assert!(
                    low.all_le(high),
                    "Uniform::new_inclusive called with `low > high`"
                );
                let max_rand = <$ty>::splat(
                    (::core::$u_scalar::MAX >> $bits_to_discard).into_float_with_exponent(0) - 1.0,
                );

                let mut scale = (high - low) / max_rand;
                assert!(scale.all_finite(), "Uniform::new_inclusive: range overflow");

                loop {
                    let mask = (scale * max_rand + low).gt_mask(high);
                    if mask.none() {
                        break;
                    }
                    scale = scale.decrease_masked(mask);
                }

                debug_assert!(<$ty>::splat(0.0).all_le(scale));

                UniformFloat { low, scale }
            }

            fn sample<R: Rng + ?Sized>(&self, rng: &mut R) -> Self::X {
                // Generate a value in the range [1, 2)
                let value1_2 = (rng.gen::<$uty>() >> $bits_to_discard).into_float_with_exponent(0);

                // Get a value in the range [0, 1) in order to avoid
                // overflowing into infinity when multiplying with scale
                let value0_1 = value1_2 - 1.0;

                // We don't use `f64::mul_add`, because it is not available with
                // `no_std`. Furthermore, it is slower for some targets (but
                // faster for others). However, the order of multiplication and
                // addition is important, because on some platforms (e.g. ARM)
                // it will be optimized to a single (non-FMA) instruction.
                value0_1 * self.scale + self.low
            }

            #[inline]
            fn sample_single<R: Rng + ?Sized, B1, B2>(low_b: B1, high_b: B2, rng: &mut R) -> Self::X
            where
                B1: SampleBorrow<Self::X> + Sized,
                B2: SampleBorrow<Self::X> + Sized,
            {
                let low = *low_b.borrow();
                let high = *high_b.borrow();
                debug_assert!(
                    low.all_finite(),
                    "UniformSampler::sample_single called with `low` non-finite."
                );
                debug_assert!(
                    high.all_finite(),
                    "UniformSampler::sample_single called with `high` non-finite."
                );
                assert!(
                    low.all_lt(high),
                    "UniformSampler::sample_single: low >= high"
                );
                let mut scale = high - low;
                assert!(scale.all_finite(), "UniformSampler::sample_single: range overflow");

                loop {
                    // Generate a value in the range [1, 2)
                    let value1_2 =
                        (rng.gen::<$uty>() >> $bits_to_discard).into_float_with_exponent(0);

                    // Get a value in the range [0, 1) in order to avoid
                    // overflowing into infinity when multiplying with scale
                    let value0_1 = value1_2 - 1.0;

                    // Doing multiply before addition allows some architectures
                    // to use a single instruction.
                    let res = value0_1 * scale + low;

                    debug_assert!(low.all_le(res) || !scale.all_finite());
                    if res.all_lt(high) {
                        return res;
                    }

                    // This handles a number of edge cases.
                    // * `low` or `high` is NaN. In this case `scale` and
                    //   `res` are going to end up as NaN.
                    // * `low` is negative infinity and `high` is finite.
                    //   `scale` is going to be infinite and `res` will be
                    //   NaN.
                    // * `high` is positive infinity and `low` is finite.
                    //   `scale` is going to be infinite and `res` will
                    //   be infinite or NaN (if value0_1 is 0).
                    // * `low` is negative infinity and `high` is positive
                    //   infinity. `scale` will be infinite and `res` will
                    //   be NaN.
                    // * `low` and `high` are finite, but `high - low`
                    //   overflows to infinite. `scale` will be infinite
                    //   and `res` will be infinite or NaN (if value0_1 is 0).
                    // So if `high` or `low` are non-finite, we are guaranteed
                    // to fail the `res < high` check above and end up here.
                    //
                    // While we technically should check for non-finite `low`
                    // and `high` before entering the loop, by doing the checks
                    // here instead, we allow the common case to avoid these
                    // checks. But we are still guaranteed that if `low` or
                    // `high` are non-finite we'll end up here and can do the
                    // appropriate checks.
                    //
                    // Likewise `high - low` overflowing to infinity is also
                    // rare, so handle it here after the common case.
                    let mask = !scale.finite_mask();
                    if mask.any() {
                        assert!(
                            low.all_finite() && high.all_finite(),
                            "Uniform::sample_single: low and high must be finite"
                        );
                        scale = scale.decrease_masked(mask);
                    }
                }
            }
        }
    };
}

uniform_float_impl! { f32, u32, f32, u32, 32 - 23 }
uniform_float_impl! { f64, u64, f64, u64, 64 - 52 }

/// The back-end implementing [`UniformSampler`] for `Duration`.
///
/// Unless you are implementing [`UniformSampler`] for your own types, this type
/// should not be used directly, use [`Uniform`] instead.
#[derive(Clone, Copy, Debug)]
#[cfg_attr(feature = "serde1", derive(Serialize, Deserialize))]
pub struct UniformDuration {
    mode: UniformDurationMode,
    offset: u32,
}

#[derive(Debug, Copy, Clone)]
#[cfg_attr(feature = "serde1", derive(Serialize, Deserialize))]
enum UniformDurationMode {
    Small {
        secs: u64,
        nanos: Uniform<u32>,
    },
    Medium {
        nanos: Uniform<u64>,
    },
    Large {
        max_secs: u64,
        max_nanos: u32,
        secs: Uniform<u64>,
    },
}

impl SampleUniform for Duration {
    type Sampler = UniformDuration;
}

impl UniformSampler for UniformDuration {
    type X = Duration;

    #[inline]
    fn new<B1, B2>(low_b: B1, high_b: B2) -> Self
    where
        B1: SampleBorrow<Self::X> + Sized,
        B2: SampleBorrow<Self::X> + Sized,
    {
        let low = *low_b.borrow();
        let high = *high_b.borrow();
        assert!(low < high, "Uniform::new called with `low >= high`");
        UniformDuration::new_inclusive(low, high - Duration::new(0, 1))
    }

    #[inline]
    fn new_inclusive<B1, B2>(low_b: B1, high_b: B2) -> Self
    where
        B1: SampleBorrow<Self::X> + Sized,
        B2: SampleBorrow<Self::X> + Sized,
    {
        let low = *low_b.borrow();
        let high = *high_b.borrow();
        assert!(
            low <= high,
            "Uniform::new_inclusive called with `low > high`"
        );

        let low_s = low.as_secs();
        let low_n = low.subsec_nanos();
        let mut high_s = high.as_secs();
        let mut high_n = high.subsec_nanos();

        if high_n < low_n {
            high_s -= 1;
            high_n += 1_000_000_000;
        }

        let mode = if low_s == high_s {
            UniformDurationMode::Small {
                secs: low_s,
                nanos: Uniform::new_inclusive(low_n, high_n),
            }
        } else {
            let max = high_s
                .checked_mul(1_000_000_000)
                .and_then(|n| n.checked_add(u64::from(high_n)));

            if let Some(higher_bound) = max {
                let lower_bound = low_s * 1_000_000_000 + u64::from(low_n);
                UniformDurationMode::Medium {
                    nanos: Uniform::new_inclusive(lower_bound, higher_bound),
                }
            } else {
                // An offset is applied to simplify generation of nanoseconds
                let max_nanos = high_n - low_n;
                UniformDurationMode::Large {
                    max_secs: high_s,
                    max_nanos,
                    secs: Uniform::new_inclusive(low_s, high_s),
                }
            }
        };
        UniformDuration {
            mode,
            offset: low_n,
        }
    }

    #[inline]
    fn sample<R: Rng + ?Sized>(&self, rng: &mut R) -> Duration {
        match self.mode {
            UniformDurationMode::Small { secs, nanos } => {
                let n = nanos.sample(rng);
                Duration::new(secs, n)
            }
            UniformDurationMode::Medium { nanos } => {
                let nanos = nanos.sample(rng);
                Duration::new(nanos / 1_000_000_000, (nanos % 1_000_000_000) as u32)
            }
            UniformDurationMode::Large {
                max_secs,
                max_nanos,
                secs,
            } => {
                // constant folding means this is at least as fast as `Rng::sample(Range)`
                let nano_range = Uniform::new(0, 1_000_000_000);
                loop {
                    let s = secs.sample(rng);
                    let n = nano_range.sample(rng);
                    if !(s == max_secs && n > max_nanos) {
                        let sum = n + self.offset;
                        break Duration::new(s, sum);
                    }
                }
            }
        }
    }
}

#[cfg(test)]
mod tests {
    use super::*;
    use crate::rngs::mock::StepRng;

    #[test]
    #[cfg(feature = "serde1")]
    fn test_serialization_uniform_duration() {
        let distr = UniformDuration::new(Duration::from_secs(10), Duration::from_secs(60));
        let de_distr: UniformDuration = bincode::deserialize(&bincode::serialize(&distr).unwrap()).unwrap();
        assert_eq!(
            distr.offset, de_distr.offset
        );
        match (distr.mode, de_distr.mode) {
            (UniformDurationMode::Small {secs: a_secs, nanos: a_nanos}, UniformDurationMode::Small {secs, nanos}) => {
                assert_eq!(a_secs, secs);

                assert_eq!(a_nanos.0.low, nanos.0.low);
                assert_eq!(a_nanos.0.range, nanos.0.range);
                assert_eq!(a_nanos.0.z, nanos.0.z);
            }
            (UniformDurationMode::Medium {nanos: a_nanos} , UniformDurationMode::Medium {nanos}) => {
                assert_eq!(a_nanos.0.low, nanos.0.low);
                assert_eq!(a_nanos.0.range, nanos.0.range);
                assert_eq!(a_nanos.0.z, nanos.0.z);
            }
            (UniformDurationMode::Large {max_secs:a_max_secs, max_nanos:a_max_nanos, secs:a_secs}, UniformDurationMode::Large {max_secs, max_nanos, secs} ) => {
                assert_eq!(a_max_secs, max_secs);
                assert_eq!(a_max_nanos, max_nanos);

                assert_eq!(a_secs.0.low, secs.0.low);
                assert_eq!(a_secs.0.range, secs.0.range);
                assert_eq!(a_secs.0.z, secs.0.z);
            }
            _ => panic!("`UniformDurationMode` was not serialized/deserialized correctly")
        }
    }
    
    #[test]
    #[cfg(feature = "serde1")]
    fn test_uniform_serialization() {
        let unit_box: Uniform<i32>  = Uniform::new(-1, 1);
        let de_unit_box: Uniform<i32> = bincode::deserialize(&bincode::serialize(&unit_box).unwrap()).unwrap();

        assert_eq!(unit_box.0.low, de_unit_box.0.low);
        assert_eq!(unit_box.0.range, de_unit_box.0.range);
        assert_eq!(unit_box.0.z, de_unit_box.0.z);

        let unit_box: Uniform<f32> = Uniform::new(-1., 1.);
        let de_unit_box: Uniform<f32> = bincode::deserialize(&bincode::serialize(&unit_box).unwrap()).unwrap();

        assert_eq!(unit_box.0.low, de_unit_box.0.low);
        assert_eq!(unit_box.0.scale, de_unit_box.0.scale);
    }

    #[should_panic]
    #[test]
    fn test_uniform_bad_limits_equal_int() {
        Uniform::new(10, 10);
    }

    #[test]
    fn test_uniform_good_limits_equal_int() {
        let mut rng = crate::test::rng(804);
        let dist = Uniform::new_inclusive(10, 10);
        for _ in 0..20 {
            assert_eq!(rng.sample(dist), 10);
        }
    }

    #[should_panic]
    #[test]
    fn test_uniform_bad_limits_flipped_int() {
        Uniform::new(10, 5);
    }

    #[test]
    #[cfg_attr(miri, ignore)] // Miri is too slow
    fn test_integers() {
        use core::{i128, u128};
        use core::{i16, i32, i64, i8, isize};
        use core::{u16, u32, u64, u8, usize};

        let mut rng = crate::test::rng(251);
        macro_rules! t {
            ($ty:ident, $v:expr, $le:expr, $lt:expr) => {{
                for &(low, high) in $v.iter() {
                    let my_uniform = Uniform::new(low, high);
                    for _ in 0..1000 {
                        let v: $ty = rng.sample(my_uniform);
                        assert!($le(low, v) && $lt(v, high));
                    }

                    let my_uniform = Uniform::new_inclusive(low, high);
                    for _ in 0..1000 {
                        let v: $ty = rng.sample(my_uniform);
                        assert!($le(low, v) && $le(v, high));
                    }

                    let my_uniform = Uniform::new(&low, high);
                    for _ in 0..1000 {
                        let v: $ty = rng.sample(my_uniform);
                        assert!($le(low, v) && $lt(v, high));
                    }

                    let my_uniform = Uniform::new_inclusive(&low, &high);
                    for _ in 0..1000 {
                        let v: $ty = rng.sample(my_uniform);
                        assert!($le(low, v) && $le(v, high));
                    }

                    for _ in 0..1000 {
                        let v = <$ty as SampleUniform>::Sampler::sample_single(low, high, &mut rng);
                        assert!($le(low, v) && $lt(v, high));
                    }

                    for _ in 0..1000 {
                        let v = <$ty as SampleUniform>::Sampler::sample_single_inclusive(low, high, &mut rng);
                        assert!($le(low, v) && $le(v, high));
                    }
                }
            }};

            // scalar bulk
            ($($ty:ident),*) => {{
                $(t!(
                    $ty,
                    [(0, 10), (10, 127), ($ty::MIN, $ty::MAX)],
                    |x, y| x <= y,
                    |x, y| x < y
                );)*
            }};

            // simd bulk
            ($($ty:ident),* => $scalar:ident) => {{
                $(t!(
                    $ty,
                    [
                        ($ty::splat(0), $ty::splat(10)),
                        ($ty::splat(10), $ty::splat(127)),
                        ($ty::splat($scalar::MIN), $ty::splat($scalar::MAX)),
                    ],
                    |x: $ty, y| x.le(y).all(),
                    |x: $ty, y| x.lt(y).all()
                );)*
            }};
        }
        t!(i8, i16, i32, i64, isize, u8, u16, u32, u64, usize, i128, u128);
    }

    #[test]
    #[cfg_attr(miri, ignore)] // Miri is too slow
    fn test_char() {
        let mut rng = crate::test::rng(891);
        let mut max = core::char::from_u32(0).unwrap();
        for _ in 0..100 {
            let c = rng.gen_range('A'..='Z');
            assert!(('A'..='Z').contains(&c));
            max = max.max(c);
        }
        assert_eq!(max, 'Z');
        let d = Uniform::new(
            core::char::from_u32(0xD7F0).unwrap(),
            core::char::from_u32(0xE010).unwrap(),
        );
        for _ in 0..100 {
            let c = d.sample(&mut rng);
            assert!((c as u32) < 0xD800 || (c as u32) > 0xDFFF);
        }
    }

    #[test]
    #[cfg(feature = "serde1")]
    fn test_char_bad_deser() {
        let json = r#"{"sampler":{"low":4294967200,"range":0,"z":0}}"#;
        let result = serde_json::from_str::<Uniform<char>>(json);
        assert!(result.is_err());
        let err = result.unwrap_err();
        assert_eq!(err.classify(), serde_json::error::Category::Data);

        #[cfg(feature = "alloc")]
        {
            assert_eq!(
                alloc::string::ToString::to_string(&err),
                       "bad sampler range for UniformChar at line 1 column 46"
            );
        }
    }

    #[test]
    #[cfg_attr(miri, ignore)] // Miri is too slow
    fn test_floats() {
        let mut rng = crate::test::rng(252);
        let mut zero_rng = StepRng::new(0, 0);
        let mut max_rng = StepRng::new(0xffff_ffff_ffff_ffff, 0);
        macro_rules! t {
            ($ty:ty, $f_scalar:ident, $bits_shifted:expr) => {{
                let v: &[($f_scalar, $f_scalar)] = &[
                    (0.0, 100.0),
                    (-1e35, -1e25),
                    (1e-35, 1e-25),
                    (-1e35, 1e35),
                    (<$f_scalar>::from_bits(0), <$f_scalar>::from_bits(3)),
                    (-<$f_scalar>::from_bits(10), -<$f_scalar>::from_bits(1)),
                    (-<$f_scalar>::from_bits(5), 0.0),
                    (-<$f_scalar>::from_bits(7), -0.0),
                    (0.1 * ::core::$f_scalar::MAX, ::core::$f_scalar::MAX),
                    (-::core::$f_scalar::MAX * 0.2, ::core::$f_scalar::MAX * 0.7),
                ];
                for &(low_scalar, high_scalar) in v.iter() {
                    for lane in 0..<$ty>::lanes() {
                        let low = <$ty>::splat(0.0 as $f_scalar).replace(lane, low_scalar);
                        let high = <$ty>::splat(1.0 as $f_scalar).replace(lane, high_scalar);
                        let my_uniform = Uniform::new(low, high);
                        let my_incl_uniform = Uniform::new_inclusive(low, high);
                        for _ in 0..100 {
                            let v = rng.sample(my_uniform).extract(lane);
                            assert!(low_scalar <= v && v < high_scalar);
                            let v = rng.sample(my_incl_uniform).extract(lane);
                            assert!(low_scalar <= v && v <= high_scalar);
                            let v = <$ty as SampleUniform>::Sampler
                                ::sample_single(low, high, &mut rng).extract(lane);
                            assert!(low_scalar <= v && v < high_scalar);
                        }

                        assert_eq!(
                            rng.sample(Uniform::new_inclusive(low, low)).extract(lane),
                            low_scalar
                        );

                        assert_eq!(zero_rng.sample(my_uniform).extract(lane), low_scalar);
                        assert_eq!(zero_rng.sample(my_incl_uniform).extract(lane), low_scalar);
                        assert_eq!(<$ty as SampleUniform>::Sampler
                            ::sample_single(low, high, &mut zero_rng)
                            .extract(lane), low_scalar);
                        assert!(max_rng.sample(my_uniform).extract(lane) < high_scalar);
                        assert!(max_rng.sample(my_incl_uniform).extract(lane) <= high_scalar);

                        // Don't run this test for really tiny differences between high and low
                        // since for those rounding might result in selecting high for a very
                        // long time.
                        if (high_scalar - low_scalar) > 0.0001 {
                            let mut lowering_max_rng = StepRng::new(
                                0xffff_ffff_ffff_ffff,
                                (-1i64 << $bits_shifted) as u64,
                            );
                            assert!(
                                <$ty as SampleUniform>::Sampler
                                    ::sample_single(low, high, &mut lowering_max_rng)
                                    .extract(lane) < high_scalar
                            );
                        }
                    }
                }

                assert_eq!(
                    rng.sample(Uniform::new_inclusive(
                        ::core::$f_scalar::MAX,
                        ::core::$f_scalar::MAX
                    )),
                    ::core::$f_scalar::MAX
                );
                assert_eq!(
                    rng.sample(Uniform::new_inclusive(
                        -::core::$f_scalar::MAX,
                        -::core::$f_scalar::MAX
                    )),
                    -::core::$f_scalar::MAX
                );
            }};
        }

        t!(f32, f32, 32 - 23);
        t!(f64, f64, 64 - 52);
    }

    #[test]
    #[should_panic]
    fn test_float_overflow() {
        let _ = Uniform::from(::core::f64::MIN..::core::f64::MAX);
    }

    #[test]
    #[should_panic]
    fn test_float_overflow_single() {
        let mut rng = crate::test::rng(252);
        rng.gen_range(::core::f64::MIN..::core::f64::MAX);
    }

    #[test]
    #[cfg(all(
        feature = "std",
        not(target_arch = "wasm32"),
    ))]
    fn test_float_assertions() {
        use super::SampleUniform;
        use std::panic::catch_unwind;
        fn range<T: SampleUniform>(low: T, high: T) {
            let mut rng = crate::test::rng(253);
            T::Sampler::sample_single(low, high, &mut rng);
        }

        macro_rules! t {
            ($ty:ident, $f_scalar:ident) => {{
                let v: &[($f_scalar, $f_scalar)] = &[
                    (::std::$f_scalar::NAN, 0.0),
                    (1.0, ::std::$f_scalar::NAN),
                    (::std::$f_scalar::NAN, ::std::$f_scalar::NAN),
                    (1.0, 0.5),
                    (::std::$f_scalar::MAX, -::std::$f_scalar::MAX),
                    (::std::$f_scalar::INFINITY, ::std::$f_scalar::INFINITY),
                    (
                        ::std::$f_scalar::NEG_INFINITY,
                        ::std::$f_scalar::NEG_INFINITY,
                    ),
                    (::std::$f_scalar::NEG_INFINITY, 5.0),
                    (5.0, ::std::$f_scalar::INFINITY),
                    (::std::$f_scalar::NAN, ::std::$f_scalar::INFINITY),
                    (::std::$f_scalar::NEG_INFINITY, ::std::$f_scalar::NAN),
                    (::std::$f_scalar::NEG_INFINITY, ::std::$f_scalar::INFINITY),
                ];
                for &(low_scalar, high_scalar) in v.iter() {
                    for lane in 0..<$ty>::lanes() {
                        let low = <$ty>::splat(0.0 as $f_scalar).replace(lane, low_scalar);
                        let high = <$ty>::splat(1.0 as $f_scalar).replace(lane, high_scalar);
                        assert!(catch_unwind(|| range(low, high)).is_err());
                        assert!(catch_unwind(|| Uniform::new(low, high)).is_err());
                        assert!(catch_unwind(|| Uniform::new_inclusive(low, high)).is_err());
                        assert!(catch_unwind(|| range(low, low)).is_err());
                        assert!(catch_unwind(|| Uniform::new(low, low)).is_err());
                    }
                }
            }};
        }

        t!(f32, f32);
        t!(f64, f64);
    }


    #[test]
    #[cfg_attr(miri, ignore)] // Miri is too slow
    fn test_durations() {
        let mut rng = crate::test::rng(253);

        let v = &[
            (Duration::new(10, 50000), Duration::new(100, 1234)),
            (Duration::new(0, 100), Duration::new(1, 50)),
            (
                Duration::new(0, 0),
                Duration::new(u64::max_value(), 999_999_999),
            ),
        ];
        for &(low, high) in v.iter() {
            let my_uniform = Uniform::new(low, high);
            for _ in 0..1000 {
                let v = rng.sample(my_uniform);
                assert!(low <= v && v < high);
            }
        }
    }

    #[test]
    fn test_custom_uniform() {
        use crate::distributions::uniform::{
            SampleBorrow, SampleUniform, UniformFloat, UniformSampler,
        };
        #[derive(Clone, Copy, PartialEq, PartialOrd)]
        struct MyF32 {
            x: f32,
        }
        #[derive(Clone, Copy, Debug)]
        struct UniformMyF32(UniformFloat<f32>);
        impl UniformSampler for UniformMyF32 {
            type X = MyF32;

            fn new<B1, B2>(low: B1, high: B2) -> Self
            where
                B1: SampleBorrow<Self::X> + Sized,
                B2: SampleBorrow<Self::X> + Sized,
            {
                UniformMyF32(UniformFloat::<f32>::new(low.borrow().x, high.borrow().x))
            }

            fn new_inclusive<B1, B2>(low: B1, high: B2) -> Self
            where
                B1: SampleBorrow<Self::X> + Sized,
                B2: SampleBorrow<Self::X> + Sized,
            {
                UniformSampler::new(low, high)
            }

            fn sample<R: Rng + ?Sized>(&self, rng: &mut R) -> Self::X {
                MyF32 {
                    x: self.0.sample(rng),
                }
            }
        }
        impl SampleUniform for MyF32 {
            type Sampler = UniformMyF32;
        }

        let (low, high) = (MyF32 { x: 17.0f32 }, MyF32 { x: 22.0f32 });
        let uniform = Uniform::new(low, high);
        let mut rng = crate::test::rng(804);
        for _ in 0..100 {
            let x: MyF32 = rng.sample(uniform);
            assert!(low <= x && x < high);
        }
    }

    #[test]
    fn test_uniform_from_std_range() {
        let r = Uniform::from(2u32..7);
        assert_eq!(r.0.low, 2);
        assert_eq!(r.0.range, 5);
        assert_eq!(r.0.max(), 6);
        let r = Uniform::from(2.0f64..7.0);
        assert_eq!(r.0.low, 2.0);
        assert_eq!(r.0.scale, 5.0);
    }

    #[test]
    fn test_uniform_from_std_range_inclusive() {
        let r = Uniform::from(2u32..=6);
        assert_eq!(r.0.low, 2);
        assert_eq!(r.0.range, 5);
        assert_eq!(r.0.max(), 6);
        let r = Uniform::from(2.0f64..=7.0);
        assert_eq!(r.0.low, 2.0);
        assert!(r.0.scale > 5.0);
        assert!(r.0.scale < 5.0 + 1e-14);
    }

    #[test]
    fn value_stability() {
        fn test_samples<T: SampleUniform + Copy + core::fmt::Debug + PartialEq>(
            lb: T, ub: T, expected_single: &[T], expected_multiple: &[T],
        ) where Uniform<T>: Distribution<T> {
            let mut rng = crate::test::rng(897);
            let mut buf = [lb; 3];

            for x in &mut buf {
                *x = T::Sampler::sample_single(lb, ub, &mut rng);
            }
            assert_eq!(&buf, expected_single);

            let distr = Uniform::new(lb, ub);
            for x in &mut buf {
                *x = rng.sample(&distr);
            }
            assert_eq!(&buf, expected_multiple);
        }

        // We test on a sub-set of types; possibly we should do more.
        // TODO: SIMD types

        test_samples(11u8, 219, &[17, 66, 214], &[181, 93, 165]);
        test_samples(11u32, 219, &[17, 66, 214], &[181, 93, 165]);

        test_samples(0f32, 1e-2f32, &[0.0003070104, 0.0026630748, 0.00979833], &[
            0.008194133,
            0.00398172,
            0.007428536,
        ]);
        test_samples(
            -1e10f64,
            1e10f64,
            &[-4673848682.871551, 6388267422.932352, 4857075081.198343],
            &[1173375212.1808167, 1917642852.109581, 2365076174.3153973],
        );

        test_samples(
            Duration::new(2, 0),
            Duration::new(4, 0),
            &[
                Duration::new(2, 532615131),
                Duration::new(3, 638826742),
                Duration::new(3, 485707508),
            ],
            &[
                Duration::new(3, 117337521),
                Duration::new(3, 191764285),
                Duration::new(3, 236507617),
            ],
        );
    }

    #[test]
    fn uniform_distributions_can_be_compared() {
        assert_eq!(Uniform::new(1.0, 2.0), Uniform::new(1.0, 2.0));

        // To cover UniformInt
        assert_eq!(Uniform::new(1 as u32, 2 as u32), Uniform::new(1 as u32, 2 as u32));
    }
}
