// Copyright 2018 Developers of the Rand project.
//
// Licensed under the Apache License, Version 2.0 <LICENSE-APACHE or
// https://www.apache.org/licenses/LICENSE-2.0> or the MIT license
// <LICENSE-MIT or https://opensource.org/licenses/MIT>, at your
// option. This file may not be copied, modified, or distributed
// except according to those terms.

//! The implementations of the `Standard` distribution for integer types.

use crate::distributions::{Distribution, Standard};
use crate::Rng;
use core::num::{NonZeroU16, NonZeroU32, NonZeroU64, NonZeroU8, NonZeroUsize,
    NonZeroU128};

impl Distribution<u8> for Standard {
    #[inline]
    fn sample<R: Rng + ?Sized>(&self, rng: &mut R) -> u8 {
        rng.next_u32() as u8
    }
}

impl Distribution<u16> for Standard {
    #[inline]
    fn sample<R: Rng + ?Sized>(&self, rng: &mut R) -> u16 {
        rng.next_u32() as u16
    }
}

impl Distribution<u32> for Standard {
    #[inline]
    fn sample<R: Rng + ?Sized>(&self, rng: &mut R) -> u32 {
        rng.next_u32()
    }
}

impl Distribution<u64> for Standard {
    #[inline]
    fn sample<R: Rng + ?Sized>(&self, rng: &mut R) -> u64 {
        rng.next_u64()
    }
}

impl Distribution<u128> for Standard {
    #[inline]
    fn sample<R: Rng + ?Sized>(&self, rng: &mut R) -> u128 {
        // Use LE; we explicitly generate one value before the next.
        let x = u128::from(rng.next_u64());
        let y = u128::from(rng.next_u64());
        (y << 64) | x
    }
}

impl Distribution<usize> for Standard {
    #[inline]
    #[cfg(any(target_pointer_width = "32", target_pointer_width = "16"))]
    fn sample<R: Rng + ?Sized>(&self, rng: &mut R) -> usize {
        rng.next_u32() as usize
    }

    #[inline]
    #[cfg(target_pointer_width = "64")]
    fn sample<R: Rng + ?Sized>(&self, rng: &mut R) -> usize {
        rng.next_u64() as usize
    }
}

macro_rules! impl_int_from_uint {
    ($ty:ty, $uty:ty) => {
        impl Distribution<$ty> for Standard {
            #[inline]
            fn sample<R: Rng + ?Sized>(&self, rng: &mut R) -> $ty {
                rng.gen::<$uty>() as $ty
            }
        }
    };
}

impl_int_from_uint! { i8, u8 }
impl_int_from_uint! { i16, u16 }
impl_int_from_uint! { i32, u32 }
impl_int_from_uint! { i64, u64 }
impl_int_from_uint! { i128, u128 }
impl_int_from_uint! { isize, usize }

macro_rules! impl_nzint {
    ($ty:ty, $new:path) => {
        impl Distribution<$ty> for Standard {
            fn sample<R: Rng + ?Sized>(&self, rng: &mut R) -> $ty {
                loop {
                    if let Some(nz) = $new(rng.gen()) {
                        break nz;
                    }
                }
            }
        }
    };
}

impl_nzint!(NonZeroU8, NonZeroU8::new);
impl_nzint!(NonZeroU16, NonZeroU16::new);
impl_nzint!(NonZeroU32, NonZeroU32::new);
impl_nzint!(NonZeroU64, NonZeroU64::new);
impl_nzint!(NonZeroU128, NonZeroU128::new);
impl_nzint!(NonZeroUsize, NonZeroUsize::new);

#[cfg(test)]
mod tests {
    use super::*;

    #[test]
    fn test_integers() {
        let mut rng = crate::test::rng(806);

        rng.sample::<isize, _>(Standard);
        rng.sample::<i8, _>(Standard);
        rng.sample::<i16, _>(Standard);
        rng.sample::<i32, _>(Standard);
        rng.sample::<i64, _>(Standard);
        rng.sample::<i128, _>(Standard);

        rng.sample::<usize, _>(Standard);
        rng.sample::<u8, _>(Standard);
        rng.sample::<u16, _>(Standard);
        rng.sample::<u32, _>(Standard);
        rng.sample::<u64, _>(Standard);
        rng.sample::<u128, _>(Standard);
    }

    #[test]
    fn value_stability() {
        fn test_samples<T: Copy + core::fmt::Debug + PartialEq>(zero: T, expected: &[T])
        where Standard: Distribution<T> {
            let mut rng = crate::test::rng(807);
            let mut buf = [zero; 3];
            for x in &mut buf {
                *x = rng.sample(Standard);
            }
            assert_eq!(&buf, expected);
        }

        test_samples(0u8, &[9, 247, 111]);
        test_samples(0u16, &[32265, 42999, 38255]);
        test_samples(0u32, &[2220326409, 2575017975, 2018088303]);
        test_samples(0u64, &[
            11059617991457472009,
            16096616328739788143,
            1487364411147516184,
        ]);
        test_samples(0u128, &[
            296930161868957086625409848350820761097,
            145644820879247630242265036535529306392,
            111087889832015897993126088499035356354,
        ]);
        #[cfg(any(target_pointer_width = "32", target_pointer_width = "16"))]
        test_samples(0usize, &[2220326409, 2575017975, 2018088303]);
        #[cfg(target_pointer_width = "64")]
        test_samples(0usize, &[
            11059617991457472009,
            16096616328739788143,
            1487364411147516184,
        ]);

        test_samples(0i8, &[9, -9, 111]);
        // Skip further i* types: they are simple reinterpretation of u* samples
    }
}
