// Copyright 2018 Developers of the Rand project.
//
// Licensed under the Apache License, Version 2.0 <LICENSE-APACHE or
// https://www.apache.org/licenses/LICENSE-2.0> or the MIT license
// <LICENSE-MIT or https://opensource.org/licenses/MIT>, at your
// option. This file may not be copied, modified, or distributed
// except according to those terms.

//! Math helper functions


pub(crate) trait WideningMultiply<RHS = Self> {
    type Output;

    fn wmul(self, x: RHS) -> Self::Output;
}

macro_rules! wmul_impl {
    ($ty:ty, $wide:ty, $shift:expr) => {
        impl WideningMultiply for $ty {
            type Output = ($ty, $ty);

            #[inline(always)]
            fn wmul(self, x: $ty) -> Self::Output {
                let tmp = (self as $wide) * (x as $wide);
                ((tmp >> $shift) as $ty, tmp as $ty)
            }
        }
    };

    // simd bulk implementation
    ($(($ty:ident, $wide:ident),)+, $shift:expr) => {
        $(
            impl WideningMultiply for $ty {
                type Output = ($ty, $ty);

                #[inline(always)]
                fn wmul(self, x: $ty) -> Self::Output {
                    // For supported vectors, this should compile to a couple
                    // supported multiply & swizzle instructions (no actual
                    // casting).
                    // TODO: optimize
                    let y: $wide = self.cast();
                    let x: $wide = x.cast();
                    let tmp = y * x;
                    let hi: $ty = (tmp >> $shift).cast();
                    let lo: $ty = tmp.cast();
                    (hi, lo)
                }
            }
        )+
    };
}
wmul_impl! { u8, u16, 8 }
wmul_impl! { u16, u32, 16 }
wmul_impl! { u32, u64, 32 }
wmul_impl! { u64, u128, 64 }

// This code is a translation of the __mulddi3 function in LLVM's
// compiler-rt. It is an optimised variant of the common method
// `(a + b) * (c + d) = ac + ad + bc + bd`.
//
// For some reason LLVM can optimise the C version very well, but
// keeps shuffling registers in this Rust translation.
macro_rules! wmul_impl_large {
    ($ty:ty, $half:expr) => {
        impl WideningMultiply for $ty {
            type Output = ($ty, $ty);

            #[inline(always)]
            fn wmul(self, b: $ty) -> Self::Output {
                const LOWER_MASK: $ty = !0 >> $half;
                let mut low = (self & LOWER_MASK).wrapping_mul(b & LOWER_MASK);
                let mut t = low >> $half;
                low &= LOWER_MASK;
                t += (self >> $half).wrapping_mul(b & LOWER_MASK);
                low += (t & LOWER_MASK) << $half;
                let mut high = t >> $half;
                t = low >> $half;
                low &= LOWER_MASK;
                t += (b >> $half).wrapping_mul(self & LOWER_MASK);
                low += (t & LOWER_MASK) << $half;
                high += t >> $half;
                high += (self >> $half).wrapping_mul(b >> $half);

                (high, low)
            }
        }
    };

    // simd bulk implementation
    (($($ty:ty,)+) $scalar:ty, $half:expr) => {
        $(
            impl WideningMultiply for $ty {
                type Output = ($ty, $ty);

                #[inline(always)]
                fn wmul(self, b: $ty) -> Self::Output {
                    // needs wrapping multiplication
                    const LOWER_MASK: $scalar = !0 >> $half;
                    let mut low = (self & LOWER_MASK) * (b & LOWER_MASK);
                    let mut t = low >> $half;
                    low &= LOWER_MASK;
                    t += (self >> $half) * (b & LOWER_MASK);
                    low += (t & LOWER_MASK) << $half;
                    let mut high = t >> $half;
                    t = low >> $half;
                    low &= LOWER_MASK;
                    t += (b >> $half) * (self & LOWER_MASK);
                    low += (t & LOWER_MASK) << $half;
                    high += t >> $half;
                    high += (self >> $half) * (b >> $half);

                    (high, low)
                }
            }
        )+
    };
}
wmul_impl_large! { u128, 64 }

macro_rules! wmul_impl_usize {
    ($ty:ty) => {
        impl WideningMultiply for usize {
            type Output = (usize, usize);

            #[inline(always)]
            fn wmul(self, x: usize) -> Self::Output {
                let (high, low) = (self as $ty).wmul(x as $ty);
                (high as usize, low as usize)
            }
        }
    };
}
#[cfg(target_pointer_width = "16")]
wmul_impl_usize! { u16 }
#[cfg(target_pointer_width = "32")]
wmul_impl_usize! { u32 }
#[cfg(target_pointer_width = "64")]
wmul_impl_usize! { u64 }

/// Helper trait when dealing with scalar and SIMD floating point types.
pub(crate) trait FloatSIMDUtils {
    // `PartialOrd` for vectors compares lexicographically. We want to compare all
    // the individual SIMD lanes instead, and get the combined result over all
    // lanes. This is possible using something like `a.lt(b).all()`, but we
    // implement it as a trait so we can write the same code for `f32` and `f64`.
    // Only the comparison functions we need are implemented.
    fn all_lt(self, other: Self) -> bool;
    fn all_le(self, other: Self) -> bool;
    fn all_finite(self) -> bool;

    type Mask;
    fn finite_mask(self) -> Self::Mask;
    fn gt_mask(self, other: Self) -> Self::Mask;
    fn ge_mask(self, other: Self) -> Self::Mask;

    // Decrease all lanes where the mask is `true` to the next lower value
    // representable by the floating-point type. At least one of the lanes
    // must be set.
    fn decrease_masked(self, mask: Self::Mask) -> Self;

    // Convert from int value. Conversion is done while retaining the numerical
    // value, not by retaining the binary representation.
    type UInt;
    fn cast_from_int(i: Self::UInt) -> Self;
}

/// Implement functions available in std builds but missing from core primitives
#[cfg(not(feature = "std"))]
#[allow(unused)]
// False positive: We are following `std` here.
#[allow(clippy::wrong_self_convention)]
pub(crate) trait Float: Sized {
    fn is_nan(self) -> bool;
    fn is_infinite(self) -> bool;
    fn is_finite(self) -> bool;
}

/// Implement functions on f32/f64 to give them APIs similar to SIMD types
#[allow(unused)]
pub(crate) trait FloatAsSIMD: Sized {
    #[inline(always)]
    fn lanes() -> usize {
        1
    }
    #[inline(always)]
    fn splat(scalar: Self) -> Self {
        scalar
    }
    #[inline(always)]
    fn extract(self, index: usize) -> Self {
        debug_assert_eq!(index, 0);
        self
    }
    #[inline(always)]
    fn replace(self, index: usize, new_value: Self) -> Self {
        debug_assert_eq!(index, 0);
        new_value
    }
}

#[allow(unused)]
pub(crate) trait BoolAsSIMD: Sized {
    fn any(self) -> bool;
    fn all(self) -> bool;
    fn none(self) -> bool;
}

impl BoolAsSIMD for bool {
    #[inline(always)]
    fn any(self) -> bool {
        self
    }

    #[inline(always)]
    fn all(self) -> bool {
        self
    }

    #[inline(always)]
    fn none(self) -> bool {
        !self
    }
}

macro_rules! scalar_float_impl {
    ($ty:ident, $uty:ident) => {
        #[cfg(not(feature = "std"))]
        impl Float for $ty {
            #[inline]
            fn is_nan(self) -> bool {
                self != self
            }

            #[inline]
            fn is_infinite(self) -> bool {
                self == ::core::$ty::INFINITY || self == ::core::$ty::NEG_INFINITY
            }

            #[inline]
            fn is_finite(self) -> bool {
                !(self.is_nan() || self.is_infinite())
            }
        }

        impl FloatSIMDUtils for $ty {
            type Mask = bool;
            type UInt = $uty;

            #[inline(always)]
            fn all_lt(self, other: Self) -> bool {
                self < other
            }

            #[inline(always)]
            fn all_le(self, other: Self) -> bool {
                self <= other
            }

            #[inline(always)]
            fn all_finite(self) -> bool {
                self.is_finite()
            }

            #[inline(always)]
            fn finite_mask(self) -> Self::Mask {
                self.is_finite()
            }

            #[inline(always)]
            fn gt_mask(self, other: Self) -> Self::Mask {
                self > other
            }

            #[inline(always)]
            fn ge_mask(self, other: Self) -> Self::Mask {
                self >= other
            }

            #[inline(always)]
            fn decrease_masked(self, mask: Self::Mask) -> Self {
                debug_assert!(mask, "At least one lane must be set");
                <$ty>::from_bits(self.to_bits() - 1)
            }

            #[inline]
            fn cast_from_int(i: Self::UInt) -> Self {
                i as $ty
            }
        }

        impl FloatAsSIMD for $ty {}
    };
}

scalar_float_impl!(f32, u32);
scalar_float_impl!(f64, u64);
