// Copyright 2018 Developers of the Rand project.
// Copyright 2013-2017 The Rust Project Developers.
//
// Licensed under the Apache License, Version 2.0 <LICENSE-APACHE or
// https://www.apache.org/licenses/LICENSE-2.0> or the MIT license
// <LICENSE-MIT or https://opensource.org/licenses/MIT>, at your
// option. This file may not be copied, modified, or distributed
// except according to those terms.

//! Generating random samples from probability distributions
//!
//! This module is the home of the [`Distribution`] trait and several of its
//! implementations. It is the workhorse behind some of the convenient
//! functionality of the [`Rng`] trait, e.g. [`Rng::gen`] and of course
//! [`Rng::sample`].
//!
//! Abstractly, a [probability distribution] describes the probability of
//! occurrence of each value in its sample space.
//!
//! More concretely, an implementation of `Distribution<T>` for type `X` is an
//! algorithm for choosing values from the sample space (a subset of `T`)
//! according to the distribution `X` represents, using an external source of
//! randomness (an RNG supplied to the `sample` function).
//!
//! A type `X` may implement `Distribution<T>` for multiple types `T`.
//! Any type implementing [`Distribution`] is stateless (i.e. immutable),
//! but it may have internal parameters set at construction time (for example,
//! [`Uniform`] allows specification of its sample space as a range within `T`).
//!
//!
//! # The `Standard` distribution
//!
//! The [`Standard`] distribution is important to mention. This is the
//! distribution used by [`Rng::gen`] and represents the "default" way to
//! produce a random value for many different types, including most primitive
//! types, tuples, arrays, and a few derived types. See the documentation of
//! [`Standard`] for more details.
//!
//! Implementing `Distribution<T>` for [`Standard`] for user types `T` makes it
//! possible to generate type `T` with [`Rng::gen`], and by extension also
//! with the [`random`] function.
//!
//! ## Random characters
//!
//! [`Alphanumeric`] is a simple distribution to sample random letters and
//! numbers of the `char` type; in contrast [`Standard`] may sample any valid
//! `char`.
//!
//!
//! # Uniform numeric ranges
//!
//! The [`Uniform`] distribution is more flexible than [`Standard`], but also
//! more specialised: it supports fewer target types, but allows the sample
//! space to be specified as an arbitrary range within its target type `T`.
//! Both [`Standard`] and [`Uniform`] are in some sense uniform distributions.
//!
//! Values may be sampled from this distribution using `Rng::sample(Range)` or
//! by creating a distribution object with [`Uniform::new`],
//! [`Uniform::new_inclusive`] or `From<Range>`. When the range limits are not
//! known at compile time it is typically faster to reuse an existing
//! `Uniform` object than to call `Rng::sample(Range)`.
//!
//! User types `T` may also implement `Distribution<T>` for [`Uniform`],
//! although this is less straightforward than for [`Standard`] (see the
//! documentation in the [`uniform`] module). Doing so enables generation of
//! values of type `T` with  `Rng::sample(Range)`.
//!
//! ## Open and half-open ranges
//!
//! There are surprisingly many ways to uniformly generate random floats. A
//! range between 0 and 1 is standard, but the exact bounds (open vs closed)
//! and accuracy differ. In addition to the [`Standard`] distribution Rand offers
//! [`Open01`] and [`OpenClosed01`]. See "Floating point implementation" section of
//! [`Standard`] documentation for more details.
//!
//! # Non-uniform sampling
//!
//! Sampling a simple true/false outcome with a given probability has a name:
//! the [`Bernoulli`] distribution (this is used by [`Rng::gen_bool`]).
//!
//! For weighted sampling from a sequence of discrete values, use the
//! [`WeightedIndex`] distribution.
//!
//! This crate no longer includes other non-uniform distributions; instead
//! it is recommended that you use either [`rand_distr`] or [`statrs`].
//!
//!
//! [probability distribution]: https://en.wikipedia.org/wiki/Probability_distribution
//! [`rand_distr`]: https://crates.io/crates/rand_distr
//! [`statrs`]: https://crates.io/crates/statrs

//! [`random`]: crate::random
//! [`rand_distr`]: https://crates.io/crates/rand_distr
//! [`statrs`]: https://crates.io/crates/statrs

mod bernoulli;
mod distribution;
mod float;
mod integer;
mod other;
mod slice;
mod utils;
#[cfg(feature = "alloc")]
mod weighted_index;

#[doc(hidden)]
pub mod hidden_export {
    pub use super::float::IntoFloat; // used by rand_distr
}
pub mod uniform;
#[deprecated(
    since = "0.8.0",
    note = "use rand::distributions::{WeightedIndex, WeightedError} instead"
)]
#[cfg(feature = "alloc")]
#[cfg_attr(docsrs, doc(cfg(feature = "alloc")))]
pub mod weighted;

pub use self::bernoulli::{Bernoulli, BernoulliError};
pub use self::distribution::{Distribution, DistIter, DistMap};
#[cfg(feature = "alloc")]
pub use self::distribution::DistString;
pub use self::float::{Open01, OpenClosed01};
pub use self::other::Alphanumeric;
pub use self::slice::Slice;
#[doc(inline)]
pub use self::uniform::Uniform;
#[cfg(feature = "alloc")]
pub use self::weighted_index::{WeightedError, WeightedIndex};

#[allow(unused)]
use crate::Rng;

/// A generic random value distribution, implemented for many primitive types.
/// Usually generates values with a numerically uniform distribution, and with a
/// range appropriate to the type.
///
/// ## Provided implementations
///
/// Assuming the provided `Rng` is well-behaved, these implementations
/// generate values with the following ranges and distributions:
///
/// * Integers (`i32`, `u32`, `isize`, `usize`, etc.): Uniformly distributed
///   over all values of the type.
/// * `char`: Uniformly distributed over all Unicode scalar values, i.e. all
///   code points in the range `0...0x10_FFFF`, except for the range
///   `0xD800...0xDFFF` (the surrogate code points). This includes
///   unassigned/reserved code points.
/// * `bool`: Generates `false` or `true`, each with probability 0.5.
/// * Floating point types (`f32` and `f64`): Uniformly distributed in the
///   half-open range `[0, 1)`. See notes below.
/// * Wrapping integers (`Wrapping<T>`), besides the type identical to their
///   normal integer variants.
///
/// The `Standard` distribution also supports generation of the following
/// compound types where all component types are supported:
///
/// *   Tuples (up to 12 elements): each element is generated sequentially.
/// *   Arrays (up to 32 elements): each element is generated sequentially;
///     see also [`Rng::fill`] which supports arbitrary array length for integer
///     and float types and tends to be faster for `u32` and smaller types.
///     When using `rustc` ≥ 1.51, enable the `min_const_gen` feature to support
///     arrays larger than 32 elements.
///     Note that [`Rng::fill`] and `Standard`'s array support are *not* equivalent:
///     the former is optimised for integer types (using fewer RNG calls for
///     element types smaller than the RNG word size), while the latter supports
///     any element type supported by `Standard`.
/// *   `Option<T>` first generates a `bool`, and if true generates and returns
///     `Some(value)` where `value: T`, otherwise returning `None`.
///
/// ## Custom implementations
///
/// The [`Standard`] distribution may be implemented for user types as follows:
///
/// ```
/// # #![allow(dead_code)]
/// use rand::Rng;
/// use rand::distributions::{Distribution, Standard};
///
/// struct MyF32 {
///     x: f32,
/// }
///
/// impl Distribution<MyF32> for Standard {
///     fn sample<R: Rng + ?Sized>(&self, rng: &mut R) -> MyF32 {
///         MyF32 { x: rng.gen() }
///     }
/// }
/// ```
///
/// ## Example usage
/// ```
/// use rand::prelude::*;
/// use rand::distributions::Standard;
///
/// let val: f32 = StdRng::from_entropy().sample(Standard);
/// println!("f32 from [0, 1): {}", val);
/// ```
///
/// # Floating point implementation
/// The floating point implementations for `Standard` generate a random value in
/// the half-open interval `[0, 1)`, i.e. including 0 but not 1.
///
/// All values that can be generated are of the form `n * ε/2`. For `f32`
/// the 24 most significant random bits of a `u32` are used and for `f64` the
/// 53 most significant bits of a `u64` are used. The conversion uses the
/// multiplicative method: `(rng.gen::<$uty>() >> N) as $ty * (ε/2)`.
///
/// See also: [`Open01`] which samples from `(0, 1)`, [`OpenClosed01`] which
/// samples from `(0, 1]` and `Rng::gen_range(0..1)` which also samples from
/// `[0, 1)`. Note that `Open01` uses transmute-based methods which yield 1 bit
/// less precision but may perform faster on some architectures (on modern Intel
/// CPUs all methods have approximately equal performance).
///
/// [`Uniform`]: uniform::Uniform
#[derive(Clone, Copy, Debug)]
#[cfg_attr(feature = "serde1", derive(serde::Serialize, serde::Deserialize))]
pub struct Standard;
