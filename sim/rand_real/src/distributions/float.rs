// Copyright 2018 Developers of the Rand project.
//
// Licensed under the Apache License, Version 2.0 <LICENSE-APACHE or
// https://www.apache.org/licenses/LICENSE-2.0> or the MIT license
// <LICENSE-MIT or https://opensource.org/licenses/MIT>, at your
// option. This file may not be copied, modified, or distributed
// except according to those terms.

//! Basic floating-point number distributions

use crate::distributions::utils::FloatSIMDUtils;
use crate::distributions::{Distribution, Standard};
use crate::Rng;
use core::mem;

#[cfg(feature = "serde1")]
use serde::{Serialize, Deserialize};

/// A distribution to sample floating point numbers uniformly in the half-open
/// interval `(0, 1]`, i.e. including 1 but not 0.
///
/// All values that can be generated are of the form `n * ε/2`. For `f32`
/// the 24 most significant random bits of a `u32` are used and for `f64` the
/// 53 most significant bits of a `u64` are used. The conversion uses the
/// multiplicative method.
///
/// See also: [`Standard`] which samples from `[0, 1)`, [`Open01`]
/// which samples from `(0, 1)` and [`Uniform`] which samples from arbitrary
/// ranges.
///
/// # Example
/// ```
/// use rand::{thread_rng, Rng};
/// use rand::distributions::OpenClosed01;
///
/// let val: f32 = thread_rng().sample(OpenClosed01);
/// println!("f32 from (0, 1): {}", val);
/// ```
///
/// [`Standard`]: crate::distributions::Standard
/// [`Open01`]: crate::distributions::Open01
/// [`Uniform`]: crate::distributions::uniform::Uniform
#[derive(Clone, Copy, Debug)]
#[cfg_attr(feature = "serde1", derive(Serialize, Deserialize))]
pub struct OpenClosed01;

/// A distribution to sample floating point numbers uniformly in the open
/// interval `(0, 1)`, i.e. not including either endpoint.
///
/// All values that can be generated are of the form `n * ε + ε/2`. For `f32`
/// the 23 most significant random bits of an `u32` are used, for `f64` 52 from
/// an `u64`. The conversion uses a transmute-based method.
///
/// See also: [`Standard`] which samples from `[0, 1)`, [`OpenClosed01`]
/// which samples from `(0, 1]` and [`Uniform`] which samples from arbitrary
/// ranges.
///
/// # Example
/// ```
/// use rand::{thread_rng, Rng};
/// use rand::distributions::Open01;
///
/// let val: f32 = thread_rng().sample(Open01);
/// println!("f32 from (0, 1): {}", val);
/// ```
///
/// [`Standard`]: crate::distributions::Standard
/// [`OpenClosed01`]: crate::distributions::OpenClosed01
/// [`Uniform`]: crate::distributions::uniform::Uniform
#[derive(Clone, Copy, Debug)]
#[cfg_attr(feature = "serde1", derive(Serialize, Deserialize))]
pub struct Open01;


// This trait is needed by both this lib and rand_distr hence is a hidden export
#[doc(hidden)]
pub trait IntoFloat {
    type F;

    /// Helper method to combine the fraction and a constant exponent into a
    /// float.
    ///
    /// Only the least significant bits of `self` may be set, 23 for `f32` and
    /// 52 for `f64`.
    /// The resulting value will fall in a range that depends on the exponent.
    /// As an example the range with exponent 0 will be
    /// [2<sup>0</sup>..2<sup>1</sup>), which is [1..2).
    fn into_float_with_exponent(self, exponent: i32) -> Self::F;
}

macro_rules! float_impls {
    ($ty:ident, $uty:ident, $f_scalar:ident, $u_scalar:ty,
     $fraction_bits:expr, $exponent_bias:expr) => {
        impl IntoFloat for $uty {
            type F = $ty;
            #[inline(always)]
            fn into_float_with_exponent(self, exponent: i32) -> $ty {
                // The exponent is encoded using an offset-binary representation
                let exponent_bits: $u_scalar =
                    (($exponent_bias + exponent) as $u_scalar) << $fraction_bits;
                $ty::from_bits(self | exponent_bits)
            }
        }

        impl Distribution<$ty> for Standard {
            fn sample<R: Rng + ?Sized>(&self, rng: &mut R) -> $ty {
                // Multiply-based method; 24/53 random bits; [0, 1) interval.
                // We use the most significant bits because for simple RNGs
                // those are usually more random.
                let float_size = mem::size_of::<$f_scalar>() as u32 * 8;
                let precision = $fraction_bits + 1;
                let scale = 1.0 / ((1 as $u_scalar << precision) as $f_scalar);

                let value: $uty = rng.gen();
                let value = value >> (float_size - precision);
                scale * $ty::cast_from_int(value)
            }
        }

        impl Distribution<$ty> for OpenClosed01 {
            fn sample<R: Rng + ?Sized>(&self, rng: &mut R) -> $ty {
                // Multiply-based method; 24/53 random bits; (0, 1] interval.
                // We use the most significant bits because for simple RNGs
                // those are usually more random.
                let float_size = mem::size_of::<$f_scalar>() as u32 * 8;
                let precision = $fraction_bits + 1;
                let scale = 1.0 / ((1 as $u_scalar << precision) as $f_scalar);

                let value: $uty = rng.gen();
                let value = value >> (float_size - precision);
                // Add 1 to shift up; will not overflow because of right-shift:
                scale * $ty::cast_from_int(value + 1)
            }
        }

        impl Distribution<$ty> for Open01 {
            fn sample<R: Rng + ?Sized>(&self, rng: &mut R) -> $ty {
                // Transmute-based method; 23/52 random bits; (0, 1) interval.
                // We use the most significant bits because for simple RNGs
                // those are usually more random.
                use core::$f_scalar::EPSILON;
                let float_size = mem::size_of::<$f_scalar>() as u32 * 8;

                let value: $uty = rng.gen();
                let fraction = value >> (float_size - $fraction_bits);
                fraction.into_float_with_exponent(0) - (1.0 - EPSILON / 2.0)
            }
        }
    }
}

float_impls! { f32, u32, f32, u32, 23, 127 }
float_impls! { f64, u64, f64, u64, 52, 1023 }


#[cfg(test)]
mod tests {
    use super::*;
    use crate::rngs::mock::StepRng;

    const EPSILON32: f32 = ::core::f32::EPSILON;
    const EPSILON64: f64 = ::core::f64::EPSILON;

    macro_rules! test_f32 {
        ($fnn:ident, $ty:ident, $ZERO:expr, $EPSILON:expr) => {
            #[test]
            fn $fnn() {
                // Standard
                let mut zeros = StepRng::new(0, 0);
                assert_eq!(zeros.gen::<$ty>(), $ZERO);
                let mut one = StepRng::new(1 << 8 | 1 << (8 + 32), 0);
                assert_eq!(one.gen::<$ty>(), $EPSILON / 2.0);
                let mut max = StepRng::new(!0, 0);
                assert_eq!(max.gen::<$ty>(), 1.0 - $EPSILON / 2.0);

                // OpenClosed01
                let mut zeros = StepRng::new(0, 0);
                assert_eq!(zeros.sample::<$ty, _>(OpenClosed01), 0.0 + $EPSILON / 2.0);
                let mut one = StepRng::new(1 << 8 | 1 << (8 + 32), 0);
                assert_eq!(one.sample::<$ty, _>(OpenClosed01), $EPSILON);
                let mut max = StepRng::new(!0, 0);
                assert_eq!(max.sample::<$ty, _>(OpenClosed01), $ZERO + 1.0);

                // Open01
                let mut zeros = StepRng::new(0, 0);
                assert_eq!(zeros.sample::<$ty, _>(Open01), 0.0 + $EPSILON / 2.0);
                let mut one = StepRng::new(1 << 9 | 1 << (9 + 32), 0);
                assert_eq!(one.sample::<$ty, _>(Open01), $EPSILON / 2.0 * 3.0);
                let mut max = StepRng::new(!0, 0);
                assert_eq!(max.sample::<$ty, _>(Open01), 1.0 - $EPSILON / 2.0);
            }
        };
    }
    test_f32! { f32_edge_cases, f32, 0.0, EPSILON32 }

    macro_rules! test_f64 {
        ($fnn:ident, $ty:ident, $ZERO:expr, $EPSILON:expr) => {
            #[test]
            fn $fnn() {
                // Standard
                let mut zeros = StepRng::new(0, 0);
                assert_eq!(zeros.gen::<$ty>(), $ZERO);
                let mut one = StepRng::new(1 << 11, 0);
                assert_eq!(one.gen::<$ty>(), $EPSILON / 2.0);
                let mut max = StepRng::new(!0, 0);
                assert_eq!(max.gen::<$ty>(), 1.0 - $EPSILON / 2.0);

                // OpenClosed01
                let mut zeros = StepRng::new(0, 0);
                assert_eq!(zeros.sample::<$ty, _>(OpenClosed01), 0.0 + $EPSILON / 2.0);
                let mut one = StepRng::new(1 << 11, 0);
                assert_eq!(one.sample::<$ty, _>(OpenClosed01), $EPSILON);
                let mut max = StepRng::new(!0, 0);
                assert_eq!(max.sample::<$ty, _>(OpenClosed01), $ZERO + 1.0);

                // Open01
                let mut zeros = StepRng::new(0, 0);
                assert_eq!(zeros.sample::<$ty, _>(Open01), 0.0 + $EPSILON / 2.0);
                let mut one = StepRng::new(1 << 12, 0);
                assert_eq!(one.sample::<$ty, _>(Open01), $EPSILON / 2.0 * 3.0);
                let mut max = StepRng::new(!0, 0);
                assert_eq!(max.sample::<$ty, _>(Open01), 1.0 - $EPSILON / 2.0);
            }
        };
    }
    test_f64! { f64_edge_cases, f64, 0.0, EPSILON64 }

    #[test]
    fn value_stability() {
        fn test_samples<T: Copy + core::fmt::Debug + PartialEq, D: Distribution<T>>(
            distr: &D, zero: T, expected: &[T],
        ) {
            let mut rng = crate::test::rng(0x6f44f5646c2a7334);
            let mut buf = [zero; 3];
            for x in &mut buf {
                *x = rng.sample(&distr);
            }
            assert_eq!(&buf, expected);
        }

        test_samples(&Standard, 0f32, &[0.0035963655, 0.7346052, 0.09778172]);
        test_samples(&Standard, 0f64, &[
            0.7346051961657583,
            0.20298547462974248,
            0.8166436635290655,
        ]);

        test_samples(&OpenClosed01, 0f32, &[0.003596425, 0.73460525, 0.09778178]);
        test_samples(&OpenClosed01, 0f64, &[
            0.7346051961657584,
            0.2029854746297426,
            0.8166436635290656,
        ]);

        test_samples(&Open01, 0f32, &[0.0035963655, 0.73460525, 0.09778172]);
        test_samples(&Open01, 0f64, &[
            0.7346051961657584,
            0.20298547462974248,
            0.8166436635290656,
        ]);
    }
}
