// Copyright 2018 Developers of the Rand project.
//
// Licensed under the Apache License, Version 2.0 <LICENSE-APACHE or
// https://www.apache.org/licenses/LICENSE-2.0> or the MIT license
// <LICENSE-MIT or https://opensource.org/licenses/MIT>, at your
// option. This file may not be copied, modified, or distributed
// except according to those terms.

//! The Bernoulli distribution.

use crate::distributions::Distribution;
use crate::Rng;
use core::{fmt, u64};

#[cfg(feature = "serde1")]
use serde::{Serialize, Deserialize};
/// The Bernoulli distribution.
///
/// This is a special case of the Binomial distribution where `n = 1`.
///
/// # Example
///
/// ```rust
/// use rand::distributions::{Bernoulli, Distribution};
///
/// let d = Bernoulli::new(0.3).unwrap();
/// let v = d.sample(&mut rand::thread_rng());
/// println!("{} is from a Bernoulli distribution", v);
/// ```
///
/// # Precision
///
/// This `Bernoulli` distribution uses 64 bits from the RNG (a `u64`),
/// so only probabilities that are multiples of 2<sup>-64</sup> can be
/// represented.
#[derive(Clone, Copy, Debug, PartialEq)]
#[cfg_attr(feature = "serde1", derive(Serialize, Deserialize))]
pub struct Bernoulli {
    /// Probability of success, relative to the maximal integer.
    p_int: u64,
}

// To sample from the Bernoulli distribution we use a method that compares a
// random `u64` value `v < (p * 2^64)`.
//
// If `p == 1.0`, the integer `v` to compare against can not represented as a
// `u64`. We manually set it to `u64::MAX` instead (2^64 - 1 instead of 2^64).
// Note that  value of `p < 1.0` can never result in `u64::MAX`, because an
// `f64` only has 53 bits of precision, and the next largest value of `p` will
// result in `2^64 - 2048`.
//
// Also there is a 100% theoretical concern: if someone consistently wants to
// generate `true` using the Bernoulli distribution (i.e. by using a probability
// of `1.0`), just using `u64::MAX` is not enough. On average it would return
// false once every 2^64 iterations. Some people apparently care about this
// case.
//
// That is why we special-case `u64::MAX` to always return `true`, without using
// the RNG, and pay the performance price for all uses that *are* reasonable.
// Luckily, if `new()` and `sample` are close, the compiler can optimize out the
// extra check.
const ALWAYS_TRUE: u64 = u64::MAX;

// This is just `2.0.powi(64)`, but written this way because it is not available
// in `no_std` mode.
const SCALE: f64 = 2.0 * (1u64 << 63) as f64;

/// Error type returned from `Bernoulli::new`.
#[derive(Clone, Copy, Debug, PartialEq, Eq)]
pub enum BernoulliError {
    /// `p < 0` or `p > 1`.
    InvalidProbability,
}

impl fmt::Display for BernoulliError {
    fn fmt(&self, f: &mut fmt::Formatter<'_>) -> fmt::Result {
        f.write_str(match self {
            BernoulliError::InvalidProbability => "p is outside [0, 1] in Bernoulli distribution",
        })
    }
}

#[cfg(feature = "std")]
impl ::std::error::Error for BernoulliError {}

impl Bernoulli {
    /// Construct a new `Bernoulli` with the given probability of success `p`.
    ///
    /// # Precision
    ///
    /// For `p = 1.0`, the resulting distribution will always generate true.
    /// For `p = 0.0`, the resulting distribution will always generate false.
    ///
    /// This method is accurate for any input `p` in the range `[0, 1]` which is
    /// a multiple of 2<sup>-64</sup>. (Note that not all multiples of
    /// 2<sup>-64</sup> in `[0, 1]` can be represented as a `f64`.)
    #[inline]
    pub fn new(p: f64) -> Result<Bernoulli, BernoulliError> {
        if !(0.0..1.0).contains(&p) {
            if p == 1.0 {
                return Ok(Bernoulli { p_int: ALWAYS_TRUE });
            }
            return Err(BernoulliError::InvalidProbability);
        }
        Ok(Bernoulli {
            p_int: (p * SCALE) as u64,
        })
    }

    /// Construct a new `Bernoulli` with the probability of success of
    /// `numerator`-in-`denominator`. I.e. `new_ratio(2, 3)` will return
    /// a `Bernoulli` with a 2-in-3 chance, or about 67%, of returning `true`.
    ///
    /// return `true`. If `numerator == 0` it will always return `false`.
    /// For `numerator > denominator` and `denominator == 0`, this returns an
    /// error. Otherwise, for `numerator == denominator`, samples are always
    /// true; for `numerator == 0` samples are always false.
    #[inline]
    pub fn from_ratio(numerator: u32, denominator: u32) -> Result<Bernoulli, BernoulliError> {
        if numerator > denominator || denominator == 0 {
            return Err(BernoulliError::InvalidProbability);
        }
        if numerator == denominator {
            return Ok(Bernoulli { p_int: ALWAYS_TRUE });
        }
        let p_int = ((f64::from(numerator) / f64::from(denominator)) * SCALE) as u64;
        Ok(Bernoulli { p_int })
    }
}

impl Distribution<bool> for Bernoulli {
    #[inline]
    fn sample<R: Rng + ?Sized>(&self, rng: &mut R) -> bool {
        // Make sure to always return true for p = 1.0.
        if self.p_int == ALWAYS_TRUE {
            return true;
        }
        let v: u64 = rng.gen();
        v < self.p_int
    }
}

#[cfg(test)]
mod test {
    use super::Bernoulli;
    use crate::distributions::Distribution;
    use crate::Rng;

    #[test]
    #[cfg(feature="serde1")]
    fn test_serializing_deserializing_bernoulli() {
        let coin_flip = Bernoulli::new(0.5).unwrap();
        let de_coin_flip : Bernoulli = bincode::deserialize(&bincode::serialize(&coin_flip).unwrap()).unwrap();

        assert_eq!(coin_flip.p_int, de_coin_flip.p_int);
    }

    #[test]
    fn test_trivial() {
        // We prefer to be explicit here.
        #![allow(clippy::bool_assert_comparison)]

        let mut r = crate::test::rng(1);
        let always_false = Bernoulli::new(0.0).unwrap();
        let always_true = Bernoulli::new(1.0).unwrap();
        for _ in 0..5 {
            assert_eq!(r.sample::<bool, _>(&always_false), false);
            assert_eq!(r.sample::<bool, _>(&always_true), true);
            assert_eq!(Distribution::<bool>::sample(&always_false, &mut r), false);
            assert_eq!(Distribution::<bool>::sample(&always_true, &mut r), true);
        }
    }

    #[test]
    #[cfg_attr(miri, ignore)] // Miri is too slow
    fn test_average() {
        const P: f64 = 0.3;
        const NUM: u32 = 3;
        const DENOM: u32 = 10;
        let d1 = Bernoulli::new(P).unwrap();
        let d2 = Bernoulli::from_ratio(NUM, DENOM).unwrap();
        const N: u32 = 100_000;

        let mut sum1: u32 = 0;
        let mut sum2: u32 = 0;
        let mut rng = crate::test::rng(2);
        for _ in 0..N {
            if d1.sample(&mut rng) {
                sum1 += 1;
            }
            if d2.sample(&mut rng) {
                sum2 += 1;
            }
        }
        let avg1 = (sum1 as f64) / (N as f64);
        assert!((avg1 - P).abs() < 5e-3);

        let avg2 = (sum2 as f64) / (N as f64);
        assert!((avg2 - (NUM as f64) / (DENOM as f64)).abs() < 5e-3);
    }

    #[test]
    fn value_stability() {
        let mut rng = crate::test::rng(3);
        let distr = Bernoulli::new(0.4532).unwrap();
        let mut buf = [false; 10];
        for x in &mut buf {
            *x = rng.sample(&distr);
        }
        assert_eq!(buf, [
            true, false, false, true, false, false, true, true, true, true
        ]);
    }

    #[test]
    fn bernoulli_distributions_can_be_compared() {
        assert_eq!(Bernoulli::new(1.0), Bernoulli::new(1.0));
    }
}
