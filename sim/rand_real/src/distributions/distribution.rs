// Copyright 2018 Developers of the Rand project.
// Copyright 2013-2017 The Rust Project Developers.
//
// Licensed under the Apache License, Version 2.0 <LICENSE-APACHE or
// https://www.apache.org/licenses/LICENSE-2.0> or the MIT license
// <LICENSE-MIT or https://opensource.org/licenses/MIT>, at your
// option. This file may not be copied, modified, or distributed
// except according to those terms.

//! Distribution trait and associates

use crate::Rng;
use core::iter;
#[cfg(feature = "alloc")]
use alloc::string::String;

/// Types (distributions) that can be used to create a random instance of `T`.
///
/// It is possible to sample from a distribution through both the
/// `Distribution` and [`Rng`] traits, via `distr.sample(&mut rng)` and
/// `rng.sample(distr)`. They also both offer the [`sample_iter`] method, which
/// produces an iterator that samples from the distribution.
///
/// All implementations are expected to be immutable; this has the significant
/// advantage of not needing to consider thread safety, and for most
/// distributions efficient state-less sampling algorithms are available.
///
/// Implementations are typically expected to be portable with reproducible
/// results when used with a PRNG with fixed seed; see the
/// [portability chapter](https://rust-random.github.io/book/portability.html)
/// of The Rust Rand Book. In some cases this does not apply, e.g. the `usize`
/// type requires different sampling on 32-bit and 64-bit machines.
///
/// [`sample_iter`]: Distribution::sample_iter
pub trait Distribution<T> {
    /// Generate a random value of `T`, using `rng` as the source of randomness.
    fn sample<R: Rng + ?Sized>(&self, rng: &mut R) -> T;

    /// Create an iterator that generates random values of `T`, using `rng` as
    /// the source of randomness.
    ///
    /// Note that this function takes `self` by value. This works since
    /// `Distribution<T>` is impl'd for `&D` where `D: Distribution<T>`,
    /// however borrowing is not automatic hence `distr.sample_iter(...)` may
    /// need to be replaced with `(&distr).sample_iter(...)` to borrow or
    /// `(&*distr).sample_iter(...)` to reborrow an existing reference.
    ///
    /// # Example
    ///
    /// ```
    /// use rand::thread_rng;
    /// use rand::distributions::{Distribution, Alphanumeric, Uniform, Standard};
    ///
    /// let mut rng = thread_rng();
    ///
    /// // Vec of 16 x f32:
    /// let v: Vec<f32> = Standard.sample_iter(&mut rng).take(16).collect();
    ///
    /// // String:
    /// let s: String = Alphanumeric
    ///     .sample_iter(&mut rng)
    ///     .take(7)
    ///     .map(char::from)
    ///     .collect();
    ///
    /// // Dice-rolling:
    /// let die_range = Uniform::new_inclusive(1, 6);
    /// let mut roll_die = die_range.sample_iter(&mut rng);
    /// while roll_die.next().unwrap() != 6 {
    ///     println!("Not a 6; rolling again!");
    /// }
    /// ```
    fn sample_iter<R>(self, rng: R) -> DistIter<Self, R, T>
    where
        R: Rng,
        Self: Sized,
    {
        DistIter {
            distr: self,
            rng,
            phantom: ::core::marker::PhantomData,
        }
    }

    /// Create a distribution of values of 'S' by mapping the output of `Self`
    /// through the closure `F`
    ///
    /// # Example
    ///
    /// ```
    /// use rand::thread_rng;
    /// use rand::distributions::{Distribution, Uniform};
    ///
    /// let mut rng = thread_rng();
    ///
    /// let die = Uniform::new_inclusive(1, 6);
    /// let even_number = die.map(|num| num % 2 == 0);
    /// while !even_number.sample(&mut rng) {
    ///     println!("Still odd; rolling again!");
    /// }
    /// ```
    fn map<F, S>(self, func: F) -> DistMap<Self, F, T, S>
    where
        F: Fn(T) -> S,
        Self: Sized,
    {
        DistMap {
            distr: self,
            func,
            phantom: ::core::marker::PhantomData,
        }
    }
}

impl<'a, T, D: Distribution<T>> Distribution<T> for &'a D {
    fn sample<R: Rng + ?Sized>(&self, rng: &mut R) -> T {
        (*self).sample(rng)
    }
}

/// An iterator that generates random values of `T` with distribution `D`,
/// using `R` as the source of randomness.
///
/// This `struct` is created by the [`sample_iter`] method on [`Distribution`].
/// See its documentation for more.
///
/// [`sample_iter`]: Distribution::sample_iter
#[derive(Debug)]
pub struct DistIter<D, R, T> {
    distr: D,
    rng: R,
    phantom: ::core::marker::PhantomData<T>,
}

impl<D, R, T> Iterator for DistIter<D, R, T>
where
    D: Distribution<T>,
    R: Rng,
{
    type Item = T;

    #[inline(always)]
    fn next(&mut self) -> Option<T> {
        // Here, self.rng may be a reference, but we must take &mut anyway.
        // Even if sample could take an R: Rng by value, we would need to do this
        // since Rng is not copyable and we cannot enforce that this is "reborrowable".
        Some(self.distr.sample(&mut self.rng))
    }

    fn size_hint(&self) -> (usize, Option<usize>) {
        (usize::max_value(), None)
    }
}

impl<D, R, T> iter::FusedIterator for DistIter<D, R, T>
where
    D: Distribution<T>,
    R: Rng,
{
}

#[cfg(feature = "nightly")]
unsafe impl<D, R, T> iter::TrustedLen for DistIter<D, R, T>
where
    D: Distribution<T>,
    R: Rng,
{
}

/// A distribution of values of type `S` derived from the distribution `D`
/// by mapping its output of type `T` through the closure `F`.
///
/// This `struct` is created by the [`Distribution::map`] method.
/// See its documentation for more.
#[derive(Debug)]
pub struct DistMap<D, F, T, S> {
    distr: D,
    func: F,
    phantom: ::core::marker::PhantomData<fn(T) -> S>,
}

impl<D, F, T, S> Distribution<S> for DistMap<D, F, T, S>
where
    D: Distribution<T>,
    F: Fn(T) -> S,
{
    fn sample<R: Rng + ?Sized>(&self, rng: &mut R) -> S {
        (self.func)(self.distr.sample(rng))
    }
}

/// `String` sampler
///
/// Sampling a `String` of random characters is not quite the same as collecting
/// a sequence of chars. This trait contains some helpers.
#[cfg(feature = "alloc")]
pub trait DistString {
    /// Append `len` random chars to `string`
    fn append_string<R: Rng + ?Sized>(&self, rng: &mut R, string: &mut String, len: usize);

    /// Generate a `String` of `len` random chars
    #[inline]
    fn sample_string<R: Rng + ?Sized>(&self, rng: &mut R, len: usize) -> String {
        let mut s = String::new();
        self.append_string(rng, &mut s, len);
        s
    }
}

#[cfg(test)]
mod tests {
    use crate::distributions::{Distribution, Uniform};
    use crate::Rng;

    #[test]
    fn test_distributions_iter() {
        use crate::distributions::Open01;
        let mut rng = crate::test::rng(210);
        let distr = Open01;
        let mut iter = Distribution::<f32>::sample_iter(distr, &mut rng);
        let mut sum: f32 = 0.;
        for _ in 0..100 {
            sum += iter.next().unwrap();
        }
        assert!(0. < sum && sum < 100.);
    }

    #[test]
    fn test_distributions_map() {
        let dist = Uniform::new_inclusive(0, 5).map(|val| val + 15);

        let mut rng = crate::test::rng(212);
        let val = dist.sample(&mut rng);
        assert!((15..=20).contains(&val));
    }

    #[test]
    fn test_make_an_iter() {
        fn ten_dice_rolls_other_than_five<R: Rng>(
            rng: &mut R,
        ) -> impl Iterator<Item = i32> + '_ {
            Uniform::new_inclusive(1, 6)
                .sample_iter(rng)
                .filter(|x| *x != 5)
                .take(10)
        }

        let mut rng = crate::test::rng(211);
        let mut count = 0;
        for val in ten_dice_rolls_other_than_five(&mut rng) {
            assert!((1..=6).contains(&val) && val != 5);
            count += 1;
        }
        assert_eq!(count, 10);
    }

    #[test]
    #[cfg(feature = "alloc")]
    fn test_dist_string() {
        use core::str;
        use crate::distributions::{Alphanumeric, DistString, Standard};
        let mut rng = crate::test::rng(213);

        let s1 = Alphanumeric.sample_string(&mut rng, 20);
        assert_eq!(s1.len(), 20);
        assert_eq!(str::from_utf8(s1.as_bytes()), Ok(s1.as_str()));

        let s2 = Standard.sample_string(&mut rng, 20);
        assert_eq!(s2.chars().count(), 20);
        assert_eq!(str::from_utf8(s2.as_bytes()), Ok(s2.as_str()));
    }
}
