// Copyright 2018 Developers of the Rand project.
//
// Licensed under the Apache License, Version 2.0 <LICENSE-APACHE or
// https://www.apache.org/licenses/LICENSE-2.0> or the MIT license
// <LICENSE-MIT or https://opensource.org/licenses/MIT>, at your
// option. This file may not be copied, modified, or distributed
// except according to those terms.

//! Weighted index sampling

use crate::distributions::uniform::{SampleBorrow, SampleUniform, UniformSampler};
use crate::distributions::Distribution;
use crate::Rng;
use core::cmp::PartialOrd;
use core::fmt;

// Note that this whole module is only imported if feature="alloc" is enabled.
use alloc::vec::Vec;

#[cfg(feature = "serde1")]
use serde::{Serialize, Deserialize};

/// A distribution using weighted sampling of discrete items
///
/// Sampling a `WeightedIndex` distribution returns the index of a randomly
/// selected element from the iterator used when the `WeightedIndex` was
/// created. The chance of a given element being picked is proportional to the
/// value of the element. The weights can use any type `X` for which an
/// implementation of [`Uniform<X>`] exists.
///
/// # Performance
///
/// Time complexity of sampling from `WeightedIndex` is `O(log N)` where
/// `N` is the number of weights. As an alternative,
/// [`rand_distr::weighted_alias`](https://docs.rs/rand_distr/*/rand_distr/weighted_alias/index.html)
/// supports `O(1)` sampling, but with much higher initialisation cost.
///
/// A `WeightedIndex<X>` contains a `Vec<X>` and a [`Uniform<X>`] and so its
/// size is the sum of the size of those objects, possibly plus some alignment.
///
/// Creating a `WeightedIndex<X>` will allocate enough space to hold `N - 1`
/// weights of type `X`, where `N` is the number of weights. However, since
/// `Vec` doesn't guarantee a particular growth strategy, additional memory
/// might be allocated but not used. Since the `WeightedIndex` object also
/// contains, this might cause additional allocations, though for primitive
/// types, [`Uniform<X>`] doesn't allocate any memory.
///
/// Sampling from `WeightedIndex` will result in a single call to
/// `Uniform<X>::sample` (method of the [`Distribution`] trait), which typically
/// will request a single value from the underlying [`RngCore`], though the
/// exact number depends on the implementation of `Uniform<X>::sample`.
///
/// # Example
///
/// ```
/// use rand::prelude::*;
/// use rand::distributions::WeightedIndex;
///
/// let choices = ['a', 'b', 'c'];
/// let weights = [2,   1,   1];
/// let dist = WeightedIndex::new(&weights).unwrap();
/// let mut rng = thread_rng();
/// for _ in 0..100 {
///     // 50% chance to print 'a', 25% chance to print 'b', 25% chance to print 'c'
///     println!("{}", choices[dist.sample(&mut rng)]);
/// }
///
/// let items = [('a', 0), ('b', 3), ('c', 7)];
/// let dist2 = WeightedIndex::new(items.iter().map(|item| item.1)).unwrap();
/// for _ in 0..100 {
///     // 0% chance to print 'a', 30% chance to print 'b', 70% chance to print 'c'
///     println!("{}", items[dist2.sample(&mut rng)].0);
/// }
/// ```
///
/// [`Uniform<X>`]: crate::distributions::Uniform
/// [`RngCore`]: crate::RngCore
#[derive(Debug, Clone, PartialEq)]
#[cfg_attr(feature = "serde1", derive(Serialize, Deserialize))]
#[cfg_attr(docsrs, doc(cfg(feature = "alloc")))]
pub struct WeightedIndex<X: SampleUniform + PartialOrd> {
    cumulative_weights: Vec<X>,
    total_weight: X,
    weight_distribution: X::Sampler,
}

impl<X: SampleUniform + PartialOrd> WeightedIndex<X> {
    /// Creates a new a `WeightedIndex` [`Distribution`] using the values
    /// in `weights`. The weights can use any type `X` for which an
    /// implementation of [`Uniform<X>`] exists.
    ///
    /// Returns an error if the iterator is empty, if any weight is `< 0`, or
    /// if its total value is 0.
    ///
    /// [`Uniform<X>`]: crate::distributions::uniform::Uniform
    pub fn new<I>(weights: I) -> Result<WeightedIndex<X>, WeightedError>
    where
        I: IntoIterator,
        I::Item: SampleBorrow<X>,
        X: for<'a> ::core::ops::AddAssign<&'a X> + Clone + Default,
    {
        let mut iter = weights.into_iter();
        let mut total_weight: X = iter.next().ok_or(WeightedError::NoItem)?.borrow().clone();

        let zero = <X as Default>::default();
        if !(total_weight >= zero) {
            return Err(WeightedError::InvalidWeight);
        }

        let mut weights = Vec::<X>::with_capacity(iter.size_hint().0);
        for w in iter {
            // Note that `!(w >= x)` is not equivalent to `w < x` for partially
            // ordered types due to NaNs which are equal to nothing.
            if !(w.borrow() >= &zero) {
                return Err(WeightedError::InvalidWeight);
            }
            weights.push(total_weight.clone());
            total_weight += w.borrow();
        }

        if total_weight == zero {
            return Err(WeightedError::AllWeightsZero);
        }
        let distr = X::Sampler::new(zero, total_weight.clone());

        Ok(WeightedIndex {
            cumulative_weights: weights,
            total_weight,
            weight_distribution: distr,
        })
    }

    /// Update a subset of weights, without changing the number of weights.
    ///
    /// `new_weights` must be sorted by the index.
    ///
    /// Using this method instead of `new` might be more efficient if only a small number of
    /// weights is modified. No allocations are performed, unless the weight type `X` uses
    /// allocation internally.
    ///
    /// In case of error, `self` is not modified.
    pub fn update_weights(&mut self, new_weights: &[(usize, &X)]) -> Result<(), WeightedError>
    where X: for<'a> ::core::ops::AddAssign<&'a X>
            + for<'a> ::core::ops::SubAssign<&'a X>
            + Clone
            + Default {
        if new_weights.is_empty() {
            return Ok(());
        }

        let zero = <X as Default>::default();

        let mut total_weight = self.total_weight.clone();

        // Check for errors first, so we don't modify `self` in case something
        // goes wrong.
        let mut prev_i = None;
        for &(i, w) in new_weights {
            if let Some(old_i) = prev_i {
                if old_i >= i {
                    return Err(WeightedError::InvalidWeight);
                }
            }
            if !(*w >= zero) {
                return Err(WeightedError::InvalidWeight);
            }
            if i > self.cumulative_weights.len() {
                return Err(WeightedError::TooMany);
            }

            let mut old_w = if i < self.cumulative_weights.len() {
                self.cumulative_weights[i].clone()
            } else {
                self.total_weight.clone()
            };
            if i > 0 {
                old_w -= &self.cumulative_weights[i - 1];
            }

            total_weight -= &old_w;
            total_weight += w;
            prev_i = Some(i);
        }
        if total_weight <= zero {
            return Err(WeightedError::AllWeightsZero);
        }

        // Update the weights. Because we checked all the preconditions in the
        // previous loop, this should never panic.
        let mut iter = new_weights.iter();

        let mut prev_weight = zero.clone();
        let mut next_new_weight = iter.next();
        let &(first_new_index, _) = next_new_weight.unwrap();
        let mut cumulative_weight = if first_new_index > 0 {
            self.cumulative_weights[first_new_index - 1].clone()
        } else {
            zero.clone()
        };
        for i in first_new_index..self.cumulative_weights.len() {
            match next_new_weight {
                Some(&(j, w)) if i == j => {
                    cumulative_weight += w;
                    next_new_weight = iter.next();
                }
                _ => {
                    let mut tmp = self.cumulative_weights[i].clone();
                    tmp -= &prev_weight; // We know this is positive.
                    cumulative_weight += &tmp;
                }
            }
            prev_weight = cumulative_weight.clone();
            core::mem::swap(&mut prev_weight, &mut self.cumulative_weights[i]);
        }

        self.total_weight = total_weight;
        self.weight_distribution = X::Sampler::new(zero, self.total_weight.clone());

        Ok(())
    }
}

impl<X> Distribution<usize> for WeightedIndex<X>
where X: SampleUniform + PartialOrd
{
    fn sample<R: Rng + ?Sized>(&self, rng: &mut R) -> usize {
        use ::core::cmp::Ordering;
        let chosen_weight = self.weight_distribution.sample(rng);
        // Find the first item which has a weight *higher* than the chosen weight.
        self.cumulative_weights
            .binary_search_by(|w| {
                if *w <= chosen_weight {
                    Ordering::Less
                } else {
                    Ordering::Greater
                }
            })
            .unwrap_err()
    }
}

#[cfg(test)]
mod test {
    use super::*;

    #[cfg(feature = "serde1")]
    #[test]
    fn test_weightedindex_serde1() {
        let weighted_index = WeightedIndex::new(&[1, 2, 3, 4, 5, 6, 7, 8, 9, 10]).unwrap();

        let ser_weighted_index = bincode::serialize(&weighted_index).unwrap();
        let de_weighted_index: WeightedIndex<i32> =
            bincode::deserialize(&ser_weighted_index).unwrap();

        assert_eq!(
            de_weighted_index.cumulative_weights,
            weighted_index.cumulative_weights
        );
        assert_eq!(de_weighted_index.total_weight, weighted_index.total_weight);
    }

    #[test]
    fn test_accepting_nan(){
        assert_eq!(
            WeightedIndex::new(&[core::f32::NAN, 0.5]).unwrap_err(),
            WeightedError::InvalidWeight,
        );
        assert_eq!(
            WeightedIndex::new(&[core::f32::NAN]).unwrap_err(),
            WeightedError::InvalidWeight,
        );
        assert_eq!(
            WeightedIndex::new(&[0.5, core::f32::NAN]).unwrap_err(),
            WeightedError::InvalidWeight,
        );

        assert_eq!(
            WeightedIndex::new(&[0.5, 7.0])
                .unwrap()
                .update_weights(&[(0, &core::f32::NAN)])
                .unwrap_err(),
            WeightedError::InvalidWeight,
        )
    }


    #[test]
    #[cfg_attr(miri, ignore)] // Miri is too slow
    fn test_weightedindex() {
        let mut r = crate::test::rng(700);
        const N_REPS: u32 = 5000;
        let weights = [1u32, 2, 3, 0, 5, 6, 7, 1, 2, 3, 4, 5, 6, 7];
        let total_weight = weights.iter().sum::<u32>() as f32;

        let verify = |result: [i32; 14]| {
            for (i, count) in result.iter().enumerate() {
                let exp = (weights[i] * N_REPS) as f32 / total_weight;
                let mut err = (*count as f32 - exp).abs();
                if err != 0.0 {
                    err /= exp;
                }
                assert!(err <= 0.25);
            }
        };

        // WeightedIndex from vec
        let mut chosen = [0i32; 14];
        let distr = WeightedIndex::new(weights.to_vec()).unwrap();
        for _ in 0..N_REPS {
            chosen[distr.sample(&mut r)] += 1;
        }
        verify(chosen);

        // WeightedIndex from slice
        chosen = [0i32; 14];
        let distr = WeightedIndex::new(&weights[..]).unwrap();
        for _ in 0..N_REPS {
            chosen[distr.sample(&mut r)] += 1;
        }
        verify(chosen);

        // WeightedIndex from iterator
        chosen = [0i32; 14];
        let distr = WeightedIndex::new(weights.iter()).unwrap();
        for _ in 0..N_REPS {
            chosen[distr.sample(&mut r)] += 1;
        }
        verify(chosen);

        for _ in 0..5 {
            assert_eq!(WeightedIndex::new(&[0, 1]).unwrap().sample(&mut r), 1);
            assert_eq!(WeightedIndex::new(&[1, 0]).unwrap().sample(&mut r), 0);
            assert_eq!(
                WeightedIndex::new(&[0, 0, 0, 0, 10, 0])
                    .unwrap()
                    .sample(&mut r),
                4
            );
        }

        assert_eq!(
            WeightedIndex::new(&[10][0..0]).unwrap_err(),
            WeightedError::NoItem
        );
        assert_eq!(
            WeightedIndex::new(&[0]).unwrap_err(),
            WeightedError::AllWeightsZero
        );
        assert_eq!(
            WeightedIndex::new(&[10, 20, -1, 30]).unwrap_err(),
            WeightedError::InvalidWeight
        );
        assert_eq!(
            WeightedIndex::new(&[-10, 20, 1, 30]).unwrap_err(),
            WeightedError::InvalidWeight
        );
        assert_eq!(
            WeightedIndex::new(&[-10]).unwrap_err(),
            WeightedError::InvalidWeight
        );
    }

    #[test]
    fn test_update_weights() {
        let data = [
            (
                &[10u32, 2, 3, 4][..],
                &[(1, &100), (2, &4)][..], // positive change
                &[10, 100, 4, 4][..],
            ),
            (
                &[1u32, 2, 3, 0, 5, 6, 7, 1, 2, 3, 4, 5, 6, 7][..],
                &[(2, &1), (5, &1), (13, &100)][..], // negative change and last element
                &[1u32, 2, 1, 0, 5, 1, 7, 1, 2, 3, 4, 5, 6, 100][..],
            ),
        ];

        for (weights, update, expected_weights) in data.iter() {
            let total_weight = weights.iter().sum::<u32>();
            let mut distr = WeightedIndex::new(weights.to_vec()).unwrap();
            assert_eq!(distr.total_weight, total_weight);

            distr.update_weights(update).unwrap();
            let expected_total_weight = expected_weights.iter().sum::<u32>();
            let expected_distr = WeightedIndex::new(expected_weights.to_vec()).unwrap();
            assert_eq!(distr.total_weight, expected_total_weight);
            assert_eq!(distr.total_weight, expected_distr.total_weight);
            assert_eq!(distr.cumulative_weights, expected_distr.cumulative_weights);
        }
    }

    #[test]
    fn value_stability() {
        fn test_samples<X: SampleUniform + PartialOrd, I>(
            weights: I, buf: &mut [usize], expected: &[usize],
        ) where
            I: IntoIterator,
            I::Item: SampleBorrow<X>,
            X: for<'a> ::core::ops::AddAssign<&'a X> + Clone + Default,
        {
            assert_eq!(buf.len(), expected.len());
            let distr = WeightedIndex::new(weights).unwrap();
            let mut rng = crate::test::rng(701);
            for r in buf.iter_mut() {
                *r = rng.sample(&distr);
            }
            assert_eq!(buf, expected);
        }

        let mut buf = [0; 10];
        test_samples(&[1i32, 1, 1, 1, 1, 1, 1, 1, 1], &mut buf, &[
            0, 6, 2, 6, 3, 4, 7, 8, 2, 5,
        ]);
        test_samples(&[0.7f32, 0.1, 0.1, 0.1], &mut buf, &[
            0, 0, 0, 1, 0, 0, 2, 3, 0, 0,
        ]);
        test_samples(&[1.0f64, 0.999, 0.998, 0.997], &mut buf, &[
            2, 2, 1, 3, 2, 1, 3, 3, 2, 1,
        ]);
    }

    #[test]
    fn weighted_index_distributions_can_be_compared() {
        assert_eq!(WeightedIndex::new(&[1, 2]), WeightedIndex::new(&[1, 2]));
    }
}

/// Error type returned from `WeightedIndex::new`.
#[cfg_attr(docsrs, doc(cfg(feature = "alloc")))]
#[derive(Debug, Clone, Copy, PartialEq, Eq)]
pub enum WeightedError {
    /// The provided weight collection contains no items.
    NoItem,

    /// A weight is either less than zero, greater than the supported maximum,
    /// NaN, or otherwise invalid.
    InvalidWeight,

    /// All items in the provided weight collection are zero.
    AllWeightsZero,

    /// Too many weights are provided (length greater than `u32::MAX`)
    TooMany,
}

#[cfg(feature = "std")]
impl std::error::Error for WeightedError {}

impl fmt::Display for WeightedError {
    fn fmt(&self, f: &mut fmt::Formatter) -> fmt::Result {
        f.write_str(match *self {
            WeightedError::NoItem => "No weights provided in distribution",
            WeightedError::InvalidWeight => "A weight is invalid in distribution",
            WeightedError::AllWeightsZero => "All weights are zero in distribution",
            WeightedError::TooMany => "Too many weights (hit u32::MAX) in distribution",
        })
    }
}
