// Copyright 2018 Developers of the Rand project.
//
// Licensed under the Apache License, Version 2.0 <LICENSE-APACHE or
// https://www.apache.org/licenses/LICENSE-2.0> or the MIT license
// <LICENSE-MIT or https://opensource.org/licenses/MIT>, at your
// option. This file may not be copied, modified, or distributed
// except according to those terms.

//! Convenience re-export of common members
//!
//! Like the standard library's prelude, this module simplifies importing of
//! common items. Unlike the standard prelude, the contents of this module must
//! be imported manually:
//!
//! ```
//! use rand::prelude::*;
//! # let mut r = StdRng::from_rng(thread_rng()).unwrap();
//! # let _: f32 = r.gen();
//! ```

#[doc(no_inline)] pub use crate::distributions::Distribution;
#[cfg(feature = "small_rng")]
#[doc(no_inline)]
pub use crate::rngs::SmallRng;
#[cfg(feature = "std_rng")]
#[doc(no_inline)] pub use crate::rngs::StdRng;
#[doc(no_inline)]
#[cfg(all(feature = "std", feature = "std_rng"))]
pub use crate::rngs::ThreadRng;
#[doc(no_inline)] pub use crate::seq::{IteratorRandom, SliceRandom};
#[doc(no_inline)]
#[cfg(all(feature = "std", feature = "std_rng"))]
pub use crate::{random, thread_rng};
#[doc(no_inline)] pub use crate::{CryptoRng, Rng, RngCore, SeedableRng};
