// Copyright 2018 Developers of the Rand project.
// Copyright 2013-2017 The Rust Project Developers.
//
// Licensed under the Apache License, Version 2.0 <LICENSE-APACHE or
// https://www.apache.org/licenses/LICENSE-2.0> or the MIT license
// <LICENSE-MIT or https://opensource.org/licenses/MIT>, at your
// option. This file may not be copied, modified, or distributed
// except according to those terms.

//! Utilities for random number generation
//!
//! Rand provides utilities to generate random numbers, to convert them to
//! useful types and distributions, and some randomness-related algorithms.
//!
//! # Quick Start
//!
//! To get you started quickly, the easiest and highest-level way to get
//! a random value is to use [`random()`]; alternatively you can use
//! [`thread_rng()`]. The [`Rng`] trait provides a useful API on all RNGs, while
//! the [`distributions`] and [`seq`] modules provide further
//! functionality on top of RNGs.
//!
//! ```
//! use rand::prelude::*;
//!
//! if rand::random() { // generates a boolean
//!     // Try printing a random unicode code point (probably a bad idea)!
//!     println!("char: {}", rand::random::<char>());
//! }
//!
//! let mut rng = rand::thread_rng();
//! let y: f64 = rng.gen(); // generates a float between 0 and 1
//!
//! let mut nums: Vec<i32> = (1..100).collect();
//! nums.shuffle(&mut rng);
//! ```
//!
//! # The Book
//!
//! For the user guide and further documentation, please read
//! [The Rust Rand Book](https://rust-random.github.io/book).

#![doc(
    html_logo_url = "https://www.rust-lang.org/logos/rust-logo-128x128-blk.png",
    html_favicon_url = "https://www.rust-lang.org/favicon.ico",
    html_root_url = "https://rust-random.github.io/rand/"
)]
#![deny(missing_docs)]
#![deny(missing_debug_implementations)]
#![doc(test(attr(allow(unused_variables), deny(warnings))))]
#![no_std]
#![cfg_attr(feature = "nightly", feature(trusted_len))]
#![cfg_attr(docsrs, feature(doc_cfg))]
#![allow(
    clippy::float_cmp,
    clippy::neg_cmp_op_on_partial_ord,
)]

#[cfg(feature = "std")] extern crate std;
#[cfg(feature = "alloc")] extern crate alloc;

// Re-exports from rand_core
pub use rand_core::{CryptoRng, Error, RngCore, SeedableRng};

// Public modules
pub mod distributions;
pub mod prelude;
mod rng;
pub mod rngs;
pub mod seq;

// Public exports
#[cfg(all(feature = "std", feature = "std_rng"))]
pub use crate::rngs::thread::thread_rng;
pub use rng::{Fill, Rng};

#[cfg(all(feature = "std", feature = "std_rng"))]
use crate::distributions::{Distribution, Standard};

/// Generates a random value using the thread-local random number generator.
///
/// This is simply a shortcut for `thread_rng().gen()`. See [`thread_rng`] for
/// documentation of the entropy source and [`Standard`] for documentation of
/// distributions and type-specific generation.
///
/// # Provided implementations
///
/// The following types have provided implementations that
/// generate values with the following ranges and distributions:
///
/// * Integers (`i32`, `u32`, `isize`, `usize`, etc.): Uniformly distributed
///   over all values of the type.
/// * `char`: Uniformly distributed over all Unicode scalar values, i.e. all
///   code points in the range `0...0x10_FFFF`, except for the range
///   `0xD800...0xDFFF` (the surrogate code points). This includes
///   unassigned/reserved code points.
/// * `bool`: Generates `false` or `true`, each with probability 0.5.
/// * Floating point types (`f32` and `f64`): Uniformly distributed in the
///   half-open range `[0, 1)`. See notes below.
/// * Wrapping integers (`Wrapping<T>`), besides the type identical to their
///   normal integer variants.
///
/// Also supported is the generation of the following
/// compound types where all component types are supported:
///
/// *   Tuples (up to 12 elements): each element is generated sequentially.
/// *   Arrays (up to 32 elements): each element is generated sequentially;
///     see also [`Rng::fill`] which supports arbitrary array length for integer
///     types and tends to be faster for `u32` and smaller types.
/// *   `Option<T>` first generates a `bool`, and if true generates and returns
///     `Some(value)` where `value: T`, otherwise returning `None`.
///
/// # Examples
///
/// ```
/// let x = rand::random::<u8>();
/// println!("{}", x);
///
/// let y = rand::random::<f64>();
/// println!("{}", y);
///
/// if rand::random() { // generates a boolean
///     println!("Better lucky than good!");
/// }
/// ```
///
/// If you're calling `random()` in a loop, caching the generator as in the
/// following example can increase performance.
///
/// ```
/// use rand::Rng;
///
/// let mut v = vec![1, 2, 3];
///
/// for x in v.iter_mut() {
///     *x = rand::random()
/// }
///
/// // can be made faster by caching thread_rng
///
/// let mut rng = rand::thread_rng();
///
/// for x in v.iter_mut() {
///     *x = rng.gen();
/// }
/// ```
///
/// [`Standard`]: distributions::Standard
#[cfg(all(feature = "std", feature = "std_rng"))]
#[cfg_attr(docsrs, doc(cfg(all(feature = "std", feature = "std_rng"))))]
#[inline]
pub fn random<T>() -> T
where Standard: Distribution<T> {
    thread_rng().gen()
}

#[cfg(test)]
mod test {
    use super::*;

    /// Construct a deterministic RNG with the given seed
    pub fn rng(seed: u64) -> impl RngCore {
        // For tests, we want a statistically good, fast, reproducible RNG.
        // PCG32 will do fine, and will be easy to embed if we ever need to.
        const INC: u64 = 11634580027462260723;
        rand_pcg::Pcg32::new(seed, INC)
    }

    #[test]
    #[cfg(all(feature = "std", feature = "std_rng"))]
    fn test_random() {
        let _n: usize = random();
        let _f: f32 = random();
        let _o: Option<Option<i8>> = random();
        #[allow(clippy::type_complexity)]
        let _many: (
            (),
            (usize, isize, Option<(u32, (bool,))>),
            (u8, i8, u16, i16, u32, i32, u64, i64),
            (f32, (f64, (f64,))),
        ) = random();
    }
}
