// Copyright 2018 Developers of the Rand project.
// Copyright 2013-2017 The Rust Project Developers.
//
// Licensed under the Apache License, Version 2.0 <LICENSE-APACHE or
// https://www.apache.org/licenses/LICENSE-2.0> or the MIT license
// <LICENSE-MIT or https://opensource.org/licenses/MIT>, at your
// option. This file may not be copied, modified, or distributed
// except according to those terms.

//! [`Rng`] trait

use rand_core::{Error, RngCore};
use crate::distributions::uniform::{SampleRange, SampleUniform};
use crate::distributions::{self, Distribution, Standard};
use core::num::Wrapping;
use core::{mem, slice};

/// An automatically-implemented extension trait on [`RngCore`] providing high-level
/// generic methods for sampling values and other convenience methods.
///
/// This is the primary trait to use when generating random values.
///
/// # Generic usage
///
/// The basic pattern is `fn foo<R: Rng + ?Sized>(rng: &mut R)`. Some
/// things are worth noting here:
///
/// - Since `Rng: RngCore` and every `RngCore` implements `Rng`, it makes no
///   difference whether we use `R: Rng` or `R: RngCore`.
/// - The `+ ?Sized` un-bounding allows functions to be called directly on
///   type-erased references; i.e. `foo(r)` where `r: &mut dyn RngCore`. Without
///   this it would be necessary to write `foo(&mut r)`.
///
/// An alternative pattern is possible: `fn foo<R: Rng>(rng: R)`. This has some
/// trade-offs. It allows the argument to be consumed directly without a `&mut`
/// (which is how `from_rng(thread_rng())` works); also it still works directly
/// on references (including type-erased references). Unfortunately within the
/// function `foo` it is not known whether `rng` is a reference type or not,
/// hence many uses of `rng` require an extra reference, either explicitly
/// (`distr.sample(&mut rng)`) or implicitly (`rng.gen()`); one may hope the
/// optimiser can remove redundant references later.
///
/// Example:
///
/// ```
/// # use rand::thread_rng;
/// use rand::Rng;
///
/// fn foo<R: Rng + ?Sized>(rng: &mut R) -> f32 {
///     rng.gen()
/// }
///
/// # let v = foo(&mut thread_rng());
/// ```
pub trait Rng: RngCore {
    /// Return a random value supporting the [`Standard`] distribution.
    ///
    /// # Example
    ///
    /// ```
    /// use rand::{thread_rng, Rng};
    ///
    /// let mut rng = thread_rng();
    /// let x: u32 = rng.gen();
    /// println!("{}", x);
    /// println!("{:?}", rng.gen::<(f64, bool)>());
    /// ```
    ///
    /// # Arrays and tuples
    ///
    /// The `rng.gen()` method is able to generate arrays (up to 32 elements)
    /// and tuples (up to 12 elements), so long as all element types can be
    /// generated.
    /// When using `rustc` ≥ 1.51, enable the `min_const_gen` feature to support
    /// arrays larger than 32 elements.
    ///
    /// For arrays of integers, especially for those with small element types
    /// (< 64 bit), it will likely be faster to instead use [`Rng::fill`].
    ///
    /// ```
    /// use rand::{thread_rng, Rng};
    ///
    /// let mut rng = thread_rng();
    /// let tuple: (u8, i32, char) = rng.gen(); // arbitrary tuple support
    ///
    /// let arr1: [f32; 32] = rng.gen();        // array construction
    /// let mut arr2 = [0u8; 128];
    /// rng.fill(&mut arr2);                    // array fill
    /// ```
    ///
    /// [`Standard`]: distributions::Standard
    #[inline]
    fn gen<T>(&mut self) -> T
    where Standard: Distribution<T> {
        Standard.sample(self)
    }

    /// Generate a random value in the given range.
    ///
    /// This function is optimised for the case that only a single sample is
    /// made from the given range. See also the [`Uniform`] distribution
    /// type which may be faster if sampling from the same range repeatedly.
    ///
    /// Only `gen_range(low..high)` and `gen_range(low..=high)` are supported.
    ///
    /// # Panics
    ///
    /// Panics if the range is empty.
    ///
    /// # Example
    ///
    /// ```
    /// use rand::{thread_rng, Rng};
    ///
    /// let mut rng = thread_rng();
    ///
    /// // Exclusive range
    /// let n: u32 = rng.gen_range(0..10);
    /// println!("{}", n);
    /// let m: f64 = rng.gen_range(-40.0..1.3e5);
    /// println!("{}", m);
    ///
    /// // Inclusive range
    /// let n: u32 = rng.gen_range(0..=10);
    /// println!("{}", n);
    /// ```
    ///
    /// [`Uniform`]: distributions::uniform::Uniform
    fn gen_range<T, R>(&mut self, range: R) -> T
    where
        T: SampleUniform,
        R: SampleRange<T>
    {
        assert!(!range.is_empty(), "cannot sample empty range");
        range.sample_single(self)
    }

    /// Sample a new value, using the given distribution.
    ///
    /// ### Example
    ///
    /// ```
    /// use rand::{thread_rng, Rng};
    /// use rand::distributions::Uniform;
    ///
    /// let mut rng = thread_rng();
    /// let x = rng.sample(Uniform::new(10u32, 15));
    /// // Type annotation requires two types, the type and distribution; the
    /// // distribution can be inferred.
    /// let y = rng.sample::<u16, _>(Uniform::new(10, 15));
    /// ```
    fn sample<T, D: Distribution<T>>(&mut self, distr: D) -> T {
        distr.sample(self)
    }

    /// Create an iterator that generates values using the given distribution.
    ///
    /// Note that this function takes its arguments by value. This works since
    /// `(&mut R): Rng where R: Rng` and
    /// `(&D): Distribution where D: Distribution`,
    /// however borrowing is not automatic hence `rng.sample_iter(...)` may
    /// need to be replaced with `(&mut rng).sample_iter(...)`.
    ///
    /// # Example
    ///
    /// ```
    /// use rand::{thread_rng, Rng};
    /// use rand::distributions::{Alphanumeric, Uniform, Standard};
    ///
    /// let mut rng = thread_rng();
    ///
    /// // Vec of 16 x f32:
    /// let v: Vec<f32> = (&mut rng).sample_iter(Standard).take(16).collect();
    ///
    /// // String:
    /// let s: String = (&mut rng).sample_iter(Alphanumeric)
    ///     .take(7)
    ///     .map(char::from)
    ///     .collect();
    ///
    /// // Combined values
    /// println!("{:?}", (&mut rng).sample_iter(Standard).take(5)
    ///                              .collect::<Vec<(f64, bool)>>());
    ///
    /// // Dice-rolling:
    /// let die_range = Uniform::new_inclusive(1, 6);
    /// let mut roll_die = (&mut rng).sample_iter(die_range);
    /// while roll_die.next().unwrap() != 6 {
    ///     println!("Not a 6; rolling again!");
    /// }
    /// ```
    fn sample_iter<T, D>(self, distr: D) -> distributions::DistIter<D, Self, T>
    where
        D: Distribution<T>,
        Self: Sized,
    {
        distr.sample_iter(self)
    }

    /// Fill any type implementing [`Fill`] with random data
    ///
    /// The distribution is expected to be uniform with portable results, but
    /// this cannot be guaranteed for third-party implementations.
    ///
    /// This is identical to [`try_fill`] except that it panics on error.
    ///
    /// # Example
    ///
    /// ```
    /// use rand::{thread_rng, Rng};
    ///
    /// let mut arr = [0i8; 20];
    /// thread_rng().fill(&mut arr[..]);
    /// ```
    ///
    /// [`fill_bytes`]: RngCore::fill_bytes
    /// [`try_fill`]: Rng::try_fill
    fn fill<T: Fill + ?Sized>(&mut self, dest: &mut T) {
        dest.try_fill(self).unwrap_or_else(|_| panic!("Rng::fill failed"))
    }

    /// Fill any type implementing [`Fill`] with random data
    ///
    /// The distribution is expected to be uniform with portable results, but
    /// this cannot be guaranteed for third-party implementations.
    ///
    /// This is identical to [`fill`] except that it forwards errors.
    ///
    /// # Example
    ///
    /// ```
    /// # use rand::Error;
    /// use rand::{thread_rng, Rng};
    ///
    /// # fn try_inner() -> Result<(), Error> {
    /// let mut arr = [0u64; 4];
    /// thread_rng().try_fill(&mut arr[..])?;
    /// # Ok(())
    /// # }
    ///
    /// # try_inner().unwrap()
    /// ```
    ///
    /// [`try_fill_bytes`]: RngCore::try_fill_bytes
    /// [`fill`]: Rng::fill
    fn try_fill<T: Fill + ?Sized>(&mut self, dest: &mut T) -> Result<(), Error> {
        dest.try_fill(self)
    }

    /// Return a bool with a probability `p` of being true.
    ///
    /// See also the [`Bernoulli`] distribution, which may be faster if
    /// sampling from the same probability repeatedly.
    ///
    /// # Example
    ///
    /// ```
    /// use rand::{thread_rng, Rng};
    ///
    /// let mut rng = thread_rng();
    /// println!("{}", rng.gen_bool(1.0 / 3.0));
    /// ```
    ///
    /// # Panics
    ///
    /// If `p < 0` or `p > 1`.
    ///
    /// [`Bernoulli`]: distributions::Bernoulli
    #[inline]
    fn gen_bool(&mut self, p: f64) -> bool {
        let d = distributions::Bernoulli::new(p).unwrap();
        self.sample(d)
    }

    /// Return a bool with a probability of `numerator/denominator` of being
    /// true. I.e. `gen_ratio(2, 3)` has chance of 2 in 3, or about 67%, of
    /// returning true. If `numerator == denominator`, then the returned value
    /// is guaranteed to be `true`. If `numerator == 0`, then the returned
    /// value is guaranteed to be `false`.
    ///
    /// See also the [`Bernoulli`] distribution, which may be faster if
    /// sampling from the same `numerator` and `denominator` repeatedly.
    ///
    /// # Panics
    ///
    /// If `denominator == 0` or `numerator > denominator`.
    ///
    /// # Example
    ///
    /// ```
    /// use rand::{thread_rng, Rng};
    ///
    /// let mut rng = thread_rng();
    /// println!("{}", rng.gen_ratio(2, 3));
    /// ```
    ///
    /// [`Bernoulli`]: distributions::Bernoulli
    #[inline]
    fn gen_ratio(&mut self, numerator: u32, denominator: u32) -> bool {
        let d = distributions::Bernoulli::from_ratio(numerator, denominator).unwrap();
        self.sample(d)
    }
}

impl<R: RngCore + ?Sized> Rng for R {}

/// Types which may be filled with random data
///
/// This trait allows arrays to be efficiently filled with random data.
///
/// Implementations are expected to be portable across machines unless
/// clearly documented otherwise (see the
/// [Chapter on Portability](https://rust-random.github.io/book/portability.html)).
pub trait Fill {
    /// Fill self with random data
    fn try_fill<R: Rng + ?Sized>(&mut self, rng: &mut R) -> Result<(), Error>;
}

macro_rules! impl_fill_each {
    () => {};
    ($t:ty) => {
        impl Fill for [$t] {
            fn try_fill<R: Rng + ?Sized>(&mut self, rng: &mut R) -> Result<(), Error> {
                for elt in self.iter_mut() {
                    *elt = rng.gen();
                }
                Ok(())
            }
        }
    };
    ($t:ty, $($tt:ty,)*) => {
        impl_fill_each!($t);
        impl_fill_each!($($tt,)*);
    };
}

impl_fill_each!(bool, char, f32, f64,);

impl Fill for [u8] {
    fn try_fill<R: Rng + ?Sized>(&mut self, rng: &mut R) -> Result<(), Error> {
        rng.try_fill_bytes(self)
    }
}

macro_rules! impl_fill {
    () => {};
    ($t:ty) => {
        impl Fill for [$t] {
            #[inline(never)] // in micro benchmarks, this improves performance
            fn try_fill<R: Rng + ?Sized>(&mut self, rng: &mut R) -> Result<(), Error> {
                if self.len() > 0 {
                    rng.try_fill_bytes(unsafe {
                        slice::from_raw_parts_mut(self.as_mut_ptr()
                            as *mut u8,
                            self.len() * mem::size_of::<$t>()
                        )
                    })?;
                    for x in self {
                        *x = x.to_le();
                    }
                }
                Ok(())
            }
        }

        impl Fill for [Wrapping<$t>] {
            #[inline(never)]
            fn try_fill<R: Rng + ?Sized>(&mut self, rng: &mut R) -> Result<(), Error> {
                if self.len() > 0 {
                    rng.try_fill_bytes(unsafe {
                        slice::from_raw_parts_mut(self.as_mut_ptr()
                            as *mut u8,
                            self.len() * mem::size_of::<$t>()
                        )
                    })?;
                    for x in self {
                    *x = Wrapping(x.0.to_le());
                    }
                }
                Ok(())
            }
        }
    };
    ($t:ty, $($tt:ty,)*) => {
        impl_fill!($t);
        // TODO: this could replace above impl once Rust #32463 is fixed
        // impl_fill!(Wrapping<$t>);
        impl_fill!($($tt,)*);
    }
}

impl_fill!(u16, u32, u64, usize, u128,);
impl_fill!(i8, i16, i32, i64, isize, i128,);

#[cfg_attr(docsrs, doc(cfg(feature = "min_const_gen")))]
#[cfg(feature = "min_const_gen")]
impl<T, const N: usize> Fill for [T; N]
where [T]: Fill
{
    fn try_fill<R: Rng + ?Sized>(&mut self, rng: &mut R) -> Result<(), Error> {
        self[..].try_fill(rng)
    }
}

#[cfg(not(feature = "min_const_gen"))]
macro_rules! impl_fill_arrays {
    ($n:expr,) => {};
    ($n:expr, $N:ident) => {
        impl<T> Fill for [T; $n] where [T]: Fill {
            fn try_fill<R: Rng + ?Sized>(&mut self, rng: &mut R) -> Result<(), Error> {
                self[..].try_fill(rng)
            }
        }
    };
    ($n:expr, $N:ident, $($NN:ident,)*) => {
        impl_fill_arrays!($n, $N);
        impl_fill_arrays!($n - 1, $($NN,)*);
    };
    (!div $n:expr,) => {};
    (!div $n:expr, $N:ident, $($NN:ident,)*) => {
        impl_fill_arrays!($n, $N);
        impl_fill_arrays!(!div $n / 2, $($NN,)*);
    };
}
#[cfg(not(feature = "min_const_gen"))]
#[rustfmt::skip]
impl_fill_arrays!(32, N,N,N,N,N,N,N,N,N,N,N,N,N,N,N,N,N,N,N,N,N,N,N,N,N,N,N,N,N,N,N,N,N,);
#[cfg(not(feature = "min_const_gen"))]
impl_fill_arrays!(!div 4096, N,N,N,N,N,N,N,);

#[cfg(test)]
mod test {
    use super::*;
    use crate::test::rng;
    use crate::rngs::mock::StepRng;
    #[cfg(feature = "alloc")] use alloc::boxed::Box;

    #[test]
    fn test_fill_bytes_default() {
        let mut r = StepRng::new(0x11_22_33_44_55_66_77_88, 0);

        // check every remainder mod 8, both in small and big vectors.
        let lengths = [0, 1, 2, 3, 4, 5, 6, 7, 80, 81, 82, 83, 84, 85, 86, 87];
        for &n in lengths.iter() {
            let mut buffer = [0u8; 87];
            let v = &mut buffer[0..n];
            r.fill_bytes(v);

            // use this to get nicer error messages.
            for (i, &byte) in v.iter().enumerate() {
                if byte == 0 {
                    panic!("byte {} of {} is zero", i, n)
                }
            }
        }
    }

    #[test]
    fn test_fill() {
        let x = 9041086907909331047; // a random u64
        let mut rng = StepRng::new(x, 0);

        // Convert to byte sequence and back to u64; byte-swap twice if BE.
        let mut array = [0u64; 2];
        rng.fill(&mut array[..]);
        assert_eq!(array, [x, x]);
        assert_eq!(rng.next_u64(), x);

        // Convert to bytes then u32 in LE order
        let mut array = [0u32; 2];
        rng.fill(&mut array[..]);
        assert_eq!(array, [x as u32, (x >> 32) as u32]);
        assert_eq!(rng.next_u32(), x as u32);

        // Check equivalence using wrapped arrays
        let mut warray = [Wrapping(0u32); 2];
        rng.fill(&mut warray[..]);
        assert_eq!(array[0], warray[0].0);
        assert_eq!(array[1], warray[1].0);

        // Check equivalence for generated floats
        let mut array = [0f32; 2];
        rng.fill(&mut array);
        let gen: [f32; 2] = rng.gen();
        assert_eq!(array, gen);
    }

    #[test]
    fn test_fill_empty() {
        let mut array = [0u32; 0];
        let mut rng = StepRng::new(0, 1);
        rng.fill(&mut array);
        rng.fill(&mut array[..]);
    }

    #[test]
    fn test_gen_range_int() {
        let mut r = rng(101);
        for _ in 0..1000 {
            let a = r.gen_range(-4711..17);
            assert!((-4711..17).contains(&a));
            let a: i8 = r.gen_range(-3..42);
            assert!((-3..42).contains(&a));
            let a: u16 = r.gen_range(10..99);
            assert!((10..99).contains(&a));
            let a: i32 = r.gen_range(-100..2000);
            assert!((-100..2000).contains(&a));
            let a: u32 = r.gen_range(12..=24);
            assert!((12..=24).contains(&a));

            assert_eq!(r.gen_range(0u32..1), 0u32);
            assert_eq!(r.gen_range(-12i64..-11), -12i64);
            assert_eq!(r.gen_range(3_000_000..3_000_001), 3_000_000);
        }
    }

    #[test]
    fn test_gen_range_float() {
        let mut r = rng(101);
        for _ in 0..1000 {
            let a = r.gen_range(-4.5..1.7);
            assert!((-4.5..1.7).contains(&a));
            let a = r.gen_range(-1.1..=-0.3);
            assert!((-1.1..=-0.3).contains(&a));

            assert_eq!(r.gen_range(0.0f32..=0.0), 0.);
            assert_eq!(r.gen_range(-11.0..=-11.0), -11.);
            assert_eq!(r.gen_range(3_000_000.0..=3_000_000.0), 3_000_000.);
        }
    }

    #[test]
    #[should_panic]
    fn test_gen_range_panic_int() {
        #![allow(clippy::reversed_empty_ranges)]
        let mut r = rng(102);
        r.gen_range(5..-2);
    }

    #[test]
    #[should_panic]
    fn test_gen_range_panic_usize() {
        #![allow(clippy::reversed_empty_ranges)]
        let mut r = rng(103);
        r.gen_range(5..2);
    }

    #[test]
    fn test_gen_bool() {
        #![allow(clippy::bool_assert_comparison)]

        let mut r = rng(105);
        for _ in 0..5 {
            assert_eq!(r.gen_bool(0.0), false);
            assert_eq!(r.gen_bool(1.0), true);
        }
    }

    #[test]
    fn test_rng_trait_object() {
        use crate::distributions::{Distribution, Standard};
        let mut rng = rng(109);
        let mut r = &mut rng as &mut dyn RngCore;
        r.next_u32();
        r.gen::<i32>();
        assert_eq!(r.gen_range(0..1), 0);
        let _c: u8 = Standard.sample(&mut r);
    }

    #[test]
    #[cfg(feature = "alloc")]
    fn test_rng_boxed_trait() {
        use crate::distributions::{Distribution, Standard};
        let rng = rng(110);
        let mut r = Box::new(rng) as Box<dyn RngCore>;
        r.next_u32();
        r.gen::<i32>();
        assert_eq!(r.gen_range(0..1), 0);
        let _c: u8 = Standard.sample(&mut r);
    }

    #[test]
    #[cfg_attr(miri, ignore)] // Miri is too slow
    fn test_gen_ratio_average() {
        const NUM: u32 = 3;
        const DENOM: u32 = 10;
        const N: u32 = 100_000;

        let mut sum: u32 = 0;
        let mut rng = rng(111);
        for _ in 0..N {
            if rng.gen_ratio(NUM, DENOM) {
                sum += 1;
            }
        }
        // Have Binomial(N, NUM/DENOM) distribution
        let expected = (NUM * N) / DENOM; // exact integer
        assert!(((sum - expected) as i32).abs() < 500);
    }
}
