// Copyright 2018 Developers of the Rand project.
//
// Licensed under the Apache License, Version 2.0 <LICENSE-APACHE or
// https://www.apache.org/licenses/LICENSE-2.0> or the MIT license
// <LICENSE-MIT or https://opensource.org/licenses/MIT>, at your
// option. This file may not be copied, modified, or distributed
// except according to those terms.

//! Sequence-related functionality
//!
//! This module provides:
//!
//! *   [`SliceRandom`] slice sampling and mutation
//! *   [`IteratorRandom`] iterator sampling
//! *   [`index::sample`] low-level API to choose multiple indices from
//!     `0..length`
//!
//! Also see:
//!
//! *   [`crate::distributions::WeightedIndex`] distribution which provides
//!     weighted index sampling.
//!
//! In order to make results reproducible across 32-64 bit architectures, all
//! `usize` indices are sampled as a `u32` where possible (also providing a
//! small performance boost in some cases).


#[cfg(feature = "alloc")]
#[cfg_attr(docsrs, doc(cfg(feature = "alloc")))]
pub mod index;

#[cfg(feature = "alloc")] use core::ops::Index;

#[cfg(feature = "alloc")] use alloc::vec::Vec;

#[cfg(feature = "alloc")]
use crate::distributions::uniform::{SampleBorrow, SampleUniform};
#[cfg(feature = "alloc")] use crate::distributions::WeightedError;
use crate::Rng;

/// Extension trait on slices, providing random mutation and sampling methods.
///
/// This trait is implemented on all `[T]` slice types, providing several
/// methods for choosing and shuffling elements. You must `use` this trait:
///
/// ```
/// use rand::seq::SliceRandom;
///
/// let mut rng = rand::thread_rng();
/// let mut bytes = "Hello, random!".to_string().into_bytes();
/// bytes.shuffle(&mut rng);
/// let str = String::from_utf8(bytes).unwrap();
/// println!("{}", str);
/// ```
/// Example output (non-deterministic):
/// ```none
/// l,nmroHado !le
/// ```
pub trait SliceRandom {
    /// The element type.
    type Item;

    /// Returns a reference to one random element of the slice, or `None` if the
    /// slice is empty.
    ///
    /// For slices, complexity is `O(1)`.
    ///
    /// # Example
    ///
    /// ```
    /// use rand::thread_rng;
    /// use rand::seq::SliceRandom;
    ///
    /// let choices = [1, 2, 4, 8, 16, 32];
    /// let mut rng = thread_rng();
    /// println!("{:?}", choices.choose(&mut rng));
    /// assert_eq!(choices[..0].choose(&mut rng), None);
    /// ```
    fn choose<R>(&self, rng: &mut R) -> Option<&Self::Item>
    where R: Rng + ?Sized;

    /// Returns a mutable reference to one random element of the slice, or
    /// `None` if the slice is empty.
    ///
    /// For slices, complexity is `O(1)`.
    fn choose_mut<R>(&mut self, rng: &mut R) -> Option<&mut Self::Item>
    where R: Rng + ?Sized;

    /// Chooses `amount` elements from the slice at random, without repetition,
    /// and in random order. The returned iterator is appropriate both for
    /// collection into a `Vec` and filling an existing buffer (see example).
    ///
    /// In case this API is not sufficiently flexible, use [`index::sample`].
    ///
    /// For slices, complexity is the same as [`index::sample`].
    ///
    /// # Example
    /// ```
    /// use rand::seq::SliceRandom;
    ///
    /// let mut rng = &mut rand::thread_rng();
    /// let sample = "Hello, audience!".as_bytes();
    ///
    /// // collect the results into a vector:
    /// let v: Vec<u8> = sample.choose_multiple(&mut rng, 3).cloned().collect();
    ///
    /// // store in a buffer:
    /// let mut buf = [0u8; 5];
    /// for (b, slot) in sample.choose_multiple(&mut rng, buf.len()).zip(buf.iter_mut()) {
    ///     *slot = *b;
    /// }
    /// ```
    #[cfg(feature = "alloc")]
    #[cfg_attr(docsrs, doc(cfg(feature = "alloc")))]
    fn choose_multiple<R>(&self, rng: &mut R, amount: usize) -> SliceChooseIter<'_, Self, Self::Item>
    where R: Rng + ?Sized;

    /// Similar to [`choose`], but where the likelihood of each outcome may be
    /// specified.
    ///
    /// The specified function `weight` maps each item `x` to a relative
    /// likelihood `weight(x)`. The probability of each item being selected is
    /// therefore `weight(x) / s`, where `s` is the sum of all `weight(x)`.
    ///
    /// For slices of length `n`, complexity is `O(n)`.
    /// See also [`choose_weighted_mut`], [`distributions::weighted`].
    ///
    /// # Example
    ///
    /// ```
    /// use rand::prelude::*;
    ///
    /// let choices = [('a', 2), ('b', 1), ('c', 1)];
    /// let mut rng = thread_rng();
    /// // 50% chance to print 'a', 25% chance to print 'b', 25% chance to print 'c'
    /// println!("{:?}", choices.choose_weighted(&mut rng, |item| item.1).unwrap().0);
    /// ```
    /// [`choose`]: SliceRandom::choose
    /// [`choose_weighted_mut`]: SliceRandom::choose_weighted_mut
    /// [`distributions::weighted`]: crate::distributions::weighted
    #[cfg(feature = "alloc")]
    #[cfg_attr(docsrs, doc(cfg(feature = "alloc")))]
    fn choose_weighted<R, F, B, X>(
        &self, rng: &mut R, weight: F,
    ) -> Result<&Self::Item, WeightedError>
    where
        R: Rng + ?Sized,
        F: Fn(&Self::Item) -> B,
        B: SampleBorrow<X>,
        X: SampleUniform
            + for<'a> ::core::ops::AddAssign<&'a X>
            + ::core::cmp::PartialOrd<X>
            + Clone
            + Default;

    /// Similar to [`choose_mut`], but where the likelihood of each outcome may
    /// be specified.
    ///
    /// The specified function `weight` maps each item `x` to a relative
    /// likelihood `weight(x)`. The probability of each item being selected is
    /// therefore `weight(x) / s`, where `s` is the sum of all `weight(x)`.
    ///
    /// For slices of length `n`, complexity is `O(n)`.
    /// See also [`choose_weighted`], [`distributions::weighted`].
    ///
    /// [`choose_mut`]: SliceRandom::choose_mut
    /// [`choose_weighted`]: SliceRandom::choose_weighted
    /// [`distributions::weighted`]: crate::distributions::weighted
    #[cfg(feature = "alloc")]
    #[cfg_attr(docsrs, doc(cfg(feature = "alloc")))]
    fn choose_weighted_mut<R, F, B, X>(
        &mut self, rng: &mut R, weight: F,
    ) -> Result<&mut Self::Item, WeightedError>
    where
        R: Rng + ?Sized,
        F: Fn(&Self::Item) -> B,
        B: SampleBorrow<X>,
        X: SampleUniform
            + for<'a> ::core::ops::AddAssign<&'a X>
            + ::core::cmp::PartialOrd<X>
            + Clone
            + Default;

    /// Similar to [`choose_multiple`], but where the likelihood of each element's
    /// inclusion in the output may be specified. The elements are returned in an
    /// arbitrary, unspecified order.
    ///
    /// The specified function `weight` maps each item `x` to a relative
    /// likelihood `weight(x)`. The probability of each item being selected is
    /// therefore `weight(x) / s`, where `s` is the sum of all `weight(x)`.
    ///
    /// If all of the weights are equal, even if they are all zero, each element has
    /// an equal likelihood of being selected.
    ///
    /// The complexity of this method depends on the feature `partition_at_index`.
    /// If the feature is enabled, then for slices of length `n`, the complexity
    /// is `O(n)` space and `O(n)` time. Otherwise, the complexity is `O(n)` space and
    /// `O(n * log amount)` time.
    ///
    /// # Example
    ///
    /// ```
    /// use rand::prelude::*;
    ///
    /// let choices = [('a', 2), ('b', 1), ('c', 1)];
    /// let mut rng = thread_rng();
    /// // First Draw * Second Draw = total odds
    /// // -----------------------
    /// // (50% * 50%) + (25% * 67%) = 41.7% chance that the output is `['a', 'b']` in some order.
    /// // (50% * 50%) + (25% * 67%) = 41.7% chance that the output is `['a', 'c']` in some order.
    /// // (25% * 33%) + (25% * 33%) = 16.6% chance that the output is `['b', 'c']` in some order.
    /// println!("{:?}", choices.choose_multiple_weighted(&mut rng, 2, |item| item.1).unwrap().collect::<Vec<_>>());
    /// ```
    /// [`choose_multiple`]: SliceRandom::choose_multiple
    //
    // Note: this is feature-gated on std due to usage of f64::powf.
    // If necessary, we may use alloc+libm as an alternative (see PR #1089).
    #[cfg(feature = "std")]
    #[cfg_attr(docsrs, doc(cfg(feature = "std")))]
    fn choose_multiple_weighted<R, F, X>(
        &self, rng: &mut R, amount: usize, weight: F,
    ) -> Result<SliceChooseIter<'_, Self, Self::Item>, WeightedError>
    where
        R: Rng + ?Sized,
        F: Fn(&Self::Item) -> X,
        X: Into<f64>;

    /// Shuffle a mutable slice in place.
    ///
    /// For slices of length `n`, complexity is `O(n)`.
    ///
    /// # Example
    ///
    /// ```
    /// use rand::seq::SliceRandom;
    /// use rand::thread_rng;
    ///
    /// let mut rng = thread_rng();
    /// let mut y = [1, 2, 3, 4, 5];
    /// println!("Unshuffled: {:?}", y);
    /// y.shuffle(&mut rng);
    /// println!("Shuffled:   {:?}", y);
    /// ```
    fn shuffle<R>(&mut self, rng: &mut R)
    where R: Rng + ?Sized;

    /// Shuffle a slice in place, but exit early.
    ///
    /// Returns two mutable slices from the source slice. The first contains
    /// `amount` elements randomly permuted. The second has the remaining
    /// elements that are not fully shuffled.
    ///
    /// This is an efficient method to select `amount` elements at random from
    /// the slice, provided the slice may be mutated.
    ///
    /// If you only need to choose elements randomly and `amount > self.len()/2`
    /// then you may improve performance by taking
    /// `amount = values.len() - amount` and using only the second slice.
    ///
    /// If `amount` is greater than the number of elements in the slice, this
    /// will perform a full shuffle.
    ///
    /// For slices, complexity is `O(m)` where `m = amount`.
    fn partial_shuffle<R>(
        &mut self, rng: &mut R, amount: usize,
    ) -> (&mut [Self::Item], &mut [Self::Item])
    where R: Rng + ?Sized;
}

/// Extension trait on iterators, providing random sampling methods.
///
/// This trait is implemented on all iterators `I` where `I: Iterator + Sized`
/// and provides methods for
/// choosing one or more elements. You must `use` this trait:
///
/// ```
/// use rand::seq::IteratorRandom;
///
/// let mut rng = rand::thread_rng();
///
/// let faces = "😀😎😐😕😠😢";
/// println!("I am {}!", faces.chars().choose(&mut rng).unwrap());
/// ```
/// Example output (non-deterministic):
/// ```none
/// I am 😀!
/// ```
pub trait IteratorRandom: Iterator + Sized {
    /// Choose one element at random from the iterator.
    ///
    /// Returns `None` if and only if the iterator is empty.
    ///
    /// This method uses [`Iterator::size_hint`] for optimisation. With an
    /// accurate hint and where [`Iterator::nth`] is a constant-time operation
    /// this method can offer `O(1)` performance. Where no size hint is
    /// available, complexity is `O(n)` where `n` is the iterator length.
    /// Partial hints (where `lower > 0`) also improve performance.
    ///
    /// Note that the output values and the number of RNG samples used
    /// depends on size hints. In particular, `Iterator` combinators that don't
    /// change the values yielded but change the size hints may result in
    /// `choose` returning different elements. If you want consistent results
    /// and RNG usage consider using [`IteratorRandom::choose_stable`].
    fn choose<R>(mut self, rng: &mut R) -> Option<Self::Item>
    where R: Rng + ?Sized {
        let (mut lower, mut upper) = self.size_hint();
        let mut consumed = 0;
        let mut result = None;

        // Handling for this condition outside the loop allows the optimizer to eliminate the loop
        // when the Iterator is an ExactSizeIterator. This has a large performance impact on e.g.
        // seq_iter_choose_from_1000.
        if upper == Some(lower) {
            return if lower == 0 {
                None
            } else {
                self.nth(gen_index(rng, lower))
            };
        }

        // Continue until the iterator is exhausted
        loop {
            if lower > 1 {
                let ix = gen_index(rng, lower + consumed);
                let skip = if ix < lower {
                    result = self.nth(ix);
                    lower - (ix + 1)
                } else {
                    lower
                };
                if upper == Some(lower) {
                    return result;
                }
                consumed += lower;
                if skip > 0 {
                    self.nth(skip - 1);
                }
            } else {
                let elem = self.next();
                if elem.is_none() {
                    return result;
                }
                consumed += 1;
                if gen_index(rng, consumed) == 0 {
                    result = elem;
                }
            }

            let hint = self.size_hint();
            lower = hint.0;
            upper = hint.1;
        }
    }

    /// Choose one element at random from the iterator.
    ///
    /// Returns `None` if and only if the iterator is empty.
    ///
    /// This method is very similar to [`choose`] except that the result
    /// only depends on the length of the iterator and the values produced by
    /// `rng`. Notably for any iterator of a given length this will make the
    /// same requests to `rng` and if the same sequence of values are produced
    /// the same index will be selected from `self`. This may be useful if you
    /// need consistent results no matter what type of iterator you are working
    /// with. If you do not need this stability prefer [`choose`].
    ///
    /// Note that this method still uses [`Iterator::size_hint`] to skip
    /// constructing elements where possible, however the selection and `rng`
    /// calls are the same in the face of this optimization. If you want to
    /// force every element to be created regardless call `.inspect(|e| ())`.
    ///
    /// [`choose`]: IteratorRandom::choose
    fn choose_stable<R>(mut self, rng: &mut R) -> Option<Self::Item>
    where R: Rng + ?Sized {
        let mut consumed = 0;
        let mut result = None;

        loop {
            // Currently the only way to skip elements is `nth()`. So we need to
            // store what index to access next here.
            // This should be replaced by `advance_by()` once it is stable:
            // https://github.com/rust-lang/rust/issues/77404
            let mut next = 0;

            let (lower, _) = self.size_hint();
            if lower >= 2 {
                let highest_selected = (0..lower)
                    .filter(|ix| gen_index(rng, consumed+ix+1) == 0)
                    .last();

                consumed += lower;
                next = lower;

                if let Some(ix) = highest_selected {
                    result = self.nth(ix);
                    next -= ix + 1;
                    debug_assert!(result.is_some(), "iterator shorter than size_hint().0");
                }
            }

            let elem = self.nth(next);
            if elem.is_none() {
                return result
            }

            if gen_index(rng, consumed+1) == 0 {
                result = elem;
            }
            consumed += 1;
        }
    }

    /// Collects values at random from the iterator into a supplied buffer
    /// until that buffer is filled.
    ///
    /// Although the elements are selected randomly, the order of elements in
    /// the buffer is neither stable nor fully random. If random ordering is
    /// desired, shuffle the result.
    ///
    /// Returns the number of elements added to the buffer. This equals the length
    /// of the buffer unless the iterator contains insufficient elements, in which
    /// case this equals the number of elements available.
    ///
    /// Complexity is `O(n)` where `n` is the length of the iterator.
    /// For slices, prefer [`SliceRandom::choose_multiple`].
    fn choose_multiple_fill<R>(mut self, rng: &mut R, buf: &mut [Self::Item]) -> usize
    where R: Rng + ?Sized {
        let amount = buf.len();
        let mut len = 0;
        while len < amount {
            if let Some(elem) = self.next() {
                buf[len] = elem;
                len += 1;
            } else {
                // Iterator exhausted; stop early
                return len;
            }
        }

        // Continue, since the iterator was not exhausted
        for (i, elem) in self.enumerate() {
            let k = gen_index(rng, i + 1 + amount);
            if let Some(slot) = buf.get_mut(k) {
                *slot = elem;
            }
        }
        len
    }

    /// Collects `amount` values at random from the iterator into a vector.
    ///
    /// This is equivalent to `choose_multiple_fill` except for the result type.
    ///
    /// Although the elements are selected randomly, the order of elements in
    /// the buffer is neither stable nor fully random. If random ordering is
    /// desired, shuffle the result.
    ///
    /// The length of the returned vector equals `amount` unless the iterator
    /// contains insufficient elements, in which case it equals the number of
    /// elements available.
    ///
    /// Complexity is `O(n)` where `n` is the length of the iterator.
    /// For slices, prefer [`SliceRandom::choose_multiple`].
    #[cfg(feature = "alloc")]
    #[cfg_attr(docsrs, doc(cfg(feature = "alloc")))]
    fn choose_multiple<R>(mut self, rng: &mut R, amount: usize) -> Vec<Self::Item>
    where R: Rng + ?Sized {
        let mut reservoir = Vec::with_capacity(amount);
        reservoir.extend(self.by_ref().take(amount));

        // Continue unless the iterator was exhausted
        //
        // note: this prevents iterators that "restart" from causing problems.
        // If the iterator stops once, then so do we.
        if reservoir.len() == amount {
            for (i, elem) in self.enumerate() {
                let k = gen_index(rng, i + 1 + amount);
                if let Some(slot) = reservoir.get_mut(k) {
                    *slot = elem;
                }
            }
        } else {
            // Don't hang onto extra memory. There is a corner case where
            // `amount` was much less than `self.len()`.
            reservoir.shrink_to_fit();
        }
        reservoir
    }
}


impl<T> SliceRandom for [T] {
    type Item = T;

    fn choose<R>(&self, rng: &mut R) -> Option<&Self::Item>
    where R: Rng + ?Sized {
        if self.is_empty() {
            None
        } else {
            Some(&self[gen_index(rng, self.len())])
        }
    }

    fn choose_mut<R>(&mut self, rng: &mut R) -> Option<&mut Self::Item>
    where R: Rng + ?Sized {
        if self.is_empty() {
            None
        } else {
            let len = self.len();
            Some(&mut self[gen_index(rng, len)])
        }
    }

    #[cfg(feature = "alloc")]
    fn choose_multiple<R>(&self, rng: &mut R, amount: usize) -> SliceChooseIter<'_, Self, Self::Item>
    where R: Rng + ?Sized {
        let amount = ::core::cmp::min(amount, self.len());
        SliceChooseIter {
            slice: self,
            _phantom: Default::default(),
            indices: index::sample(rng, self.len(), amount).into_iter(),
        }
    }

    #[cfg(feature = "alloc")]
    fn choose_weighted<R, F, B, X>(
        &self, rng: &mut R, weight: F,
    ) -> Result<&Self::Item, WeightedError>
    where
        R: Rng + ?Sized,
        F: Fn(&Self::Item) -> B,
        B: SampleBorrow<X>,
        X: SampleUniform
            + for<'a> ::core::ops::AddAssign<&'a X>
            + ::core::cmp::PartialOrd<X>
            + Clone
            + Default,
    {
        use crate::distributions::{Distribution, WeightedIndex};
        let distr = WeightedIndex::new(self.iter().map(weight))?;
        Ok(&self[distr.sample(rng)])
    }

    #[cfg(feature = "alloc")]
    fn choose_weighted_mut<R, F, B, X>(
        &mut self, rng: &mut R, weight: F,
    ) -> Result<&mut Self::Item, WeightedError>
    where
        R: Rng + ?Sized,
        F: Fn(&Self::Item) -> B,
        B: SampleBorrow<X>,
        X: SampleUniform
            + for<'a> ::core::ops::AddAssign<&'a X>
            + ::core::cmp::PartialOrd<X>
            + Clone
            + Default,
    {
        use crate::distributions::{Distribution, WeightedIndex};
        let distr = WeightedIndex::new(self.iter().map(weight))?;
        Ok(&mut self[distr.sample(rng)])
    }

    #[cfg(feature = "std")]
    fn choose_multiple_weighted<R, F, X>(
        &self, rng: &mut R, amount: usize, weight: F,
    ) -> Result<SliceChooseIter<'_, Self, Self::Item>, WeightedError>
    where
        R: Rng + ?Sized,
        F: Fn(&Self::Item) -> X,
        X: Into<f64>,
    {
        let amount = ::core::cmp::min(amount, self.len());
        Ok(SliceChooseIter {
            slice: self,
            _phantom: Default::default(),
            indices: index::sample_weighted(
                rng,
                self.len(),
                |idx| weight(&self[idx]).into(),
                amount,
            )?
            .into_iter(),
        })
    }

    fn shuffle<R>(&mut self, rng: &mut R)
    where R: Rng + ?Sized {
        for i in (1..self.len()).rev() {
            // invariant: elements with index > i have been locked in place.
            self.swap(i, gen_index(rng, i + 1));
        }
    }

    fn partial_shuffle<R>(
        &mut self, rng: &mut R, amount: usize,
    ) -> (&mut [Self::Item], &mut [Self::Item])
    where R: Rng + ?Sized {
        // This applies Durstenfeld's algorithm for the
        // [Fisher–Yates shuffle](https://en.wikipedia.org/wiki/Fisher%E2%80%93Yates_shuffle#The_modern_algorithm)
        // for an unbiased permutation, but exits early after choosing `amount`
        // elements.

        let len = self.len();
        let end = if amount >= len { 0 } else { len - amount };

        for i in (end..len).rev() {
            // invariant: elements with index > i have been locked in place.
            self.swap(i, gen_index(rng, i + 1));
        }
        let r = self.split_at_mut(end);
        (r.1, r.0)
    }
}

impl<I> IteratorRandom for I where I: Iterator + Sized {}


/// An iterator over multiple slice elements.
///
/// This struct is created by
/// [`SliceRandom::choose_multiple`](trait.SliceRandom.html#tymethod.choose_multiple).
#[cfg(feature = "alloc")]
#[cfg_attr(docsrs, doc(cfg(feature = "alloc")))]
#[derive(Debug)]
pub struct SliceChooseIter<'a, S: ?Sized + 'a, T: 'a> {
    slice: &'a S,
    _phantom: ::core::marker::PhantomData<T>,
    indices: index::IndexVecIntoIter,
}

#[cfg(feature = "alloc")]
impl<'a, S: Index<usize, Output = T> + ?Sized + 'a, T: 'a> Iterator for SliceChooseIter<'a, S, T> {
    type Item = &'a T;

    fn next(&mut self) -> Option<Self::Item> {
        // TODO: investigate using SliceIndex::get_unchecked when stable
        self.indices.next().map(|i| &self.slice[i as usize])
    }

    fn size_hint(&self) -> (usize, Option<usize>) {
        (self.indices.len(), Some(self.indices.len()))
    }
}

#[cfg(feature = "alloc")]
impl<'a, S: Index<usize, Output = T> + ?Sized + 'a, T: 'a> ExactSizeIterator
    for SliceChooseIter<'a, S, T>
{
    fn len(&self) -> usize {
        self.indices.len()
    }
}


// Sample a number uniformly between 0 and `ubound`. Uses 32-bit sampling where
// possible, primarily in order to produce the same output on 32-bit and 64-bit
// platforms.
#[inline]
fn gen_index<R: Rng + ?Sized>(rng: &mut R, ubound: usize) -> usize {
    if ubound <= (core::u32::MAX as usize) {
        rng.gen_range(0..ubound as u32) as usize
    } else {
        rng.gen_range(0..ubound)
    }
}


#[cfg(test)]
mod test {
    use super::*;
    #[cfg(feature = "alloc")] use crate::Rng;
    #[cfg(all(feature = "alloc", not(feature = "std")))] use alloc::vec::Vec;

    #[test]
    fn test_slice_choose() {
        let mut r = crate::test::rng(107);
        let chars = [
            'a', 'b', 'c', 'd', 'e', 'f', 'g', 'h', 'i', 'j', 'k', 'l', 'm', 'n',
        ];
        let mut chosen = [0i32; 14];
        // The below all use a binomial distribution with n=1000, p=1/14.
        // binocdf(40, 1000, 1/14) ~= 2e-5; 1-binocdf(106, ..) ~= 2e-5
        for _ in 0..1000 {
            let picked = *chars.choose(&mut r).unwrap();
            chosen[(picked as usize) - ('a' as usize)] += 1;
        }
        for count in chosen.iter() {
            assert!(40 < *count && *count < 106);
        }

        chosen.iter_mut().for_each(|x| *x = 0);
        for _ in 0..1000 {
            *chosen.choose_mut(&mut r).unwrap() += 1;
        }
        for count in chosen.iter() {
            assert!(40 < *count && *count < 106);
        }

        let mut v: [isize; 0] = [];
        assert_eq!(v.choose(&mut r), None);
        assert_eq!(v.choose_mut(&mut r), None);
    }

    #[test]
    fn value_stability_slice() {
        let mut r = crate::test::rng(413);
        let chars = [
            'a', 'b', 'c', 'd', 'e', 'f', 'g', 'h', 'i', 'j', 'k', 'l', 'm', 'n',
        ];
        let mut nums = [0, 1, 2, 3, 4, 5, 6, 7, 8, 9, 10, 11, 12];

        assert_eq!(chars.choose(&mut r), Some(&'l'));
        assert_eq!(nums.choose_mut(&mut r), Some(&mut 10));

        #[cfg(feature = "alloc")]
        assert_eq!(
            &chars
                .choose_multiple(&mut r, 8)
                .cloned()
                .collect::<Vec<char>>(),
            &['d', 'm', 'b', 'n', 'c', 'k', 'h', 'e']
        );

        #[cfg(feature = "alloc")]
        assert_eq!(chars.choose_weighted(&mut r, |_| 1), Ok(&'f'));
        #[cfg(feature = "alloc")]
        assert_eq!(nums.choose_weighted_mut(&mut r, |_| 1), Ok(&mut 5));

        let mut r = crate::test::rng(414);
        nums.shuffle(&mut r);
        assert_eq!(nums, [9, 5, 3, 10, 7, 12, 8, 11, 6, 4, 0, 2, 1]);
        nums = [0, 1, 2, 3, 4, 5, 6, 7, 8, 9, 10, 11, 12];
        let res = nums.partial_shuffle(&mut r, 6);
        assert_eq!(res.0, &mut [7, 4, 8, 6, 9, 3]);
        assert_eq!(res.1, &mut [0, 1, 2, 12, 11, 5, 10]);
    }

    #[derive(Clone)]
    struct UnhintedIterator<I: Iterator + Clone> {
        iter: I,
    }
    impl<I: Iterator + Clone> Iterator for UnhintedIterator<I> {
        type Item = I::Item;

        fn next(&mut self) -> Option<Self::Item> {
            self.iter.next()
        }
    }

    #[derive(Clone)]
    struct ChunkHintedIterator<I: ExactSizeIterator + Iterator + Clone> {
        iter: I,
        chunk_remaining: usize,
        chunk_size: usize,
        hint_total_size: bool,
    }
    impl<I: ExactSizeIterator + Iterator + Clone> Iterator for ChunkHintedIterator<I> {
        type Item = I::Item;

        fn next(&mut self) -> Option<Self::Item> {
            if self.chunk_remaining == 0 {
                self.chunk_remaining = ::core::cmp::min(self.chunk_size, self.iter.len());
            }
            self.chunk_remaining = self.chunk_remaining.saturating_sub(1);

            self.iter.next()
        }

        fn size_hint(&self) -> (usize, Option<usize>) {
            (
                self.chunk_remaining,
                if self.hint_total_size {
                    Some(self.iter.len())
                } else {
                    None
                },
            )
        }
    }

    #[derive(Clone)]
    struct WindowHintedIterator<I: ExactSizeIterator + Iterator + Clone> {
        iter: I,
        window_size: usize,
        hint_total_size: bool,
    }
    impl<I: ExactSizeIterator + Iterator + Clone> Iterator for WindowHintedIterator<I> {
        type Item = I::Item;

        fn next(&mut self) -> Option<Self::Item> {
            self.iter.next()
        }

        fn size_hint(&self) -> (usize, Option<usize>) {
            (
                ::core::cmp::min(self.iter.len(), self.window_size),
                if self.hint_total_size {
                    Some(self.iter.len())
                } else {
                    None
                },
            )
        }
    }

    #[test]
    #[cfg_attr(miri, ignore)] // Miri is too slow
    fn test_iterator_choose() {
        let r = &mut crate::test::rng(109);
        fn test_iter<R: Rng + ?Sized, Iter: Iterator<Item = usize> + Clone>(r: &mut R, iter: Iter) {
            let mut chosen = [0i32; 9];
            for _ in 0..1000 {
                let picked = iter.clone().choose(r).unwrap();
                chosen[picked] += 1;
            }
            for count in chosen.iter() {
                // Samples should follow Binomial(1000, 1/9)
                // Octave: binopdf(x, 1000, 1/9) gives the prob of *count == x
                // Note: have seen 153, which is unlikely but not impossible.
                assert!(
                    72 < *count && *count < 154,
                    "count not close to 1000/9: {}",
                    count
                );
            }
        }

        test_iter(r, 0..9);
        test_iter(r, [0, 1, 2, 3, 4, 5, 6, 7, 8].iter().cloned());
        #[cfg(feature = "alloc")]
        test_iter(r, (0..9).collect::<Vec<_>>().into_iter());
        test_iter(r, UnhintedIterator { iter: 0..9 });
        test_iter(r, ChunkHintedIterator {
            iter: 0..9,
            chunk_size: 4,
            chunk_remaining: 4,
            hint_total_size: false,
        });
        test_iter(r, ChunkHintedIterator {
            iter: 0..9,
            chunk_size: 4,
            chunk_remaining: 4,
            hint_total_size: true,
        });
        test_iter(r, WindowHintedIterator {
            iter: 0..9,
            window_size: 2,
            hint_total_size: false,
        });
        test_iter(r, WindowHintedIterator {
            iter: 0..9,
            window_size: 2,
            hint_total_size: true,
        });

        assert_eq!((0..0).choose(r), None);
        assert_eq!(UnhintedIterator { iter: 0..0 }.choose(r), None);
    }

    #[test]
    #[cfg_attr(miri, ignore)] // Miri is too slow
    fn test_iterator_choose_stable() {
        let r = &mut crate::test::rng(109);
        fn test_iter<R: Rng + ?Sized, Iter: Iterator<Item = usize> + Clone>(r: &mut R, iter: Iter) {
            let mut chosen = [0i32; 9];
            for _ in 0..1000 {
                let picked = iter.clone().choose_stable(r).unwrap();
                chosen[picked] += 1;
            }
            for count in chosen.iter() {
                // Samples should follow Binomial(1000, 1/9)
                // Octave: binopdf(x, 1000, 1/9) gives the prob of *count == x
                // Note: have seen 153, which is unlikely but not impossible.
                assert!(
                    72 < *count && *count < 154,
                    "count not close to 1000/9: {}",
                    count
                );
            }
        }

        test_iter(r, 0..9);
        test_iter(r, [0, 1, 2, 3, 4, 5, 6, 7, 8].iter().cloned());
        #[cfg(feature = "alloc")]
        test_iter(r, (0..9).collect::<Vec<_>>().into_iter());
        test_iter(r, UnhintedIterator { iter: 0..9 });
        test_iter(r, ChunkHintedIterator {
            iter: 0..9,
            chunk_size: 4,
            chunk_remaining: 4,
            hint_total_size: false,
        });
        test_iter(r, ChunkHintedIterator {
            iter: 0..9,
            chunk_size: 4,
            chunk_remaining: 4,
            hint_total_size: true,
        });
        test_iter(r, WindowHintedIterator {
            iter: 0..9,
            window_size: 2,
            hint_total_size: false,
        });
        test_iter(r, WindowHintedIterator {
            iter: 0..9,
            window_size: 2,
            hint_total_size: true,
        });

        assert_eq!((0..0).choose(r), None);
        assert_eq!(UnhintedIterator { iter: 0..0 }.choose(r), None);
    }

    #[test]
    #[cfg_attr(miri, ignore)] // Miri is too slow
    fn test_iterator_choose_stable_stability() {
        fn test_iter(iter: impl Iterator<Item = usize> + Clone) -> [i32; 9] {
            let r = &mut crate::test::rng(109);
            let mut chosen = [0i32; 9];
            for _ in 0..1000 {
                let picked = iter.clone().choose_stable(r).unwrap();
                chosen[picked] += 1;
            }
            chosen
        }

        let reference = test_iter(0..9);
        assert_eq!(test_iter([0, 1, 2, 3, 4, 5, 6, 7, 8].iter().cloned()), reference);

        #[cfg(feature = "alloc")]
        assert_eq!(test_iter((0..9).collect::<Vec<_>>().into_iter()), reference);
        assert_eq!(test_iter(UnhintedIterator { iter: 0..9 }), reference);
        assert_eq!(test_iter(ChunkHintedIterator {
            iter: 0..9,
            chunk_size: 4,
            chunk_remaining: 4,
            hint_total_size: false,
        }), reference);
        assert_eq!(test_iter(ChunkHintedIterator {
            iter: 0..9,
            chunk_size: 4,
            chunk_remaining: 4,
            hint_total_size: true,
        }), reference);
        assert_eq!(test_iter(WindowHintedIterator {
            iter: 0..9,
            window_size: 2,
            hint_total_size: false,
        }), reference);
        assert_eq!(test_iter(WindowHintedIterator {
            iter: 0..9,
            window_size: 2,
            hint_total_size: true,
        }), reference);
    }

    #[test]
    #[cfg_attr(miri, ignore)] // Miri is too slow
    fn test_shuffle() {
        let mut r = crate::test::rng(108);
        let empty: &mut [isize] = &mut [];
        empty.shuffle(&mut r);
        let mut one = [1];
        one.shuffle(&mut r);
        let b: &[_] = &[1];
        assert_eq!(one, b);

        let mut two = [1, 2];
        two.shuffle(&mut r);
        assert!(two == [1, 2] || two == [2, 1]);

        fn move_last(slice: &mut [usize], pos: usize) {
            // use slice[pos..].rotate_left(1); once we can use that
            let last_val = slice[pos];
            for i in pos..slice.len() - 1 {
                slice[i] = slice[i + 1];
            }
            *slice.last_mut().unwrap() = last_val;
        }
        let mut counts = [0i32; 24];
        for _ in 0..10000 {
            let mut arr: [usize; 4] = [0, 1, 2, 3];
            arr.shuffle(&mut r);
            let mut permutation = 0usize;
            let mut pos_value = counts.len();
            for i in 0..4 {
                pos_value /= 4 - i;
                let pos = arr.iter().position(|&x| x == i).unwrap();
                assert!(pos < (4 - i));
                permutation += pos * pos_value;
                move_last(&mut arr, pos);
                assert_eq!(arr[3], i);
            }
            for (i, &a) in arr.iter().enumerate() {
                assert_eq!(a, i);
            }
            counts[permutation] += 1;
        }
        for count in counts.iter() {
            // Binomial(10000, 1/24) with average 416.667
            // Octave: binocdf(n, 10000, 1/24)
            // 99.9% chance samples lie within this range:
            assert!(352 <= *count && *count <= 483, "count: {}", count);
        }
    }

    #[test]
    fn test_partial_shuffle() {
        let mut r = crate::test::rng(118);

        let mut empty: [u32; 0] = [];
        let res = empty.partial_shuffle(&mut r, 10);
        assert_eq!((res.0.len(), res.1.len()), (0, 0));

        let mut v = [1, 2, 3, 4, 5];
        let res = v.partial_shuffle(&mut r, 2);
        assert_eq!((res.0.len(), res.1.len()), (2, 3));
        assert!(res.0[0] != res.0[1]);
        // First elements are only modified if selected, so at least one isn't modified:
        assert!(res.1[0] == 1 || res.1[1] == 2 || res.1[2] == 3);
    }

    #[test]
    #[cfg(feature = "alloc")]
    fn test_sample_iter() {
        let min_val = 1;
        let max_val = 100;

        let mut r = crate::test::rng(401);
        let vals = (min_val..max_val).collect::<Vec<i32>>();
        let small_sample = vals.iter().choose_multiple(&mut r, 5);
        let large_sample = vals.iter().choose_multiple(&mut r, vals.len() + 5);

        assert_eq!(small_sample.len(), 5);
        assert_eq!(large_sample.len(), vals.len());
        // no randomization happens when amount >= len
        assert_eq!(large_sample, vals.iter().collect::<Vec<_>>());

        assert!(small_sample
            .iter()
            .all(|e| { **e >= min_val && **e <= max_val }));
    }

    #[test]
    #[cfg(feature = "alloc")]
    #[cfg_attr(miri, ignore)] // Miri is too slow
    fn test_weighted() {
        let mut r = crate::test::rng(406);
        const N_REPS: u32 = 3000;
        let weights = [1u32, 2, 3, 0, 5, 6, 7, 1, 2, 3, 4, 5, 6, 7];
        let total_weight = weights.iter().sum::<u32>() as f32;

        let verify = |result: [i32; 14]| {
            for (i, count) in result.iter().enumerate() {
                let exp = (weights[i] * N_REPS) as f32 / total_weight;
                let mut err = (*count as f32 - exp).abs();
                if err != 0.0 {
                    err /= exp;
                }
                assert!(err <= 0.25);
            }
        };

        // choose_weighted
        fn get_weight<T>(item: &(u32, T)) -> u32 {
            item.0
        }
        let mut chosen = [0i32; 14];
        let mut items = [(0u32, 0usize); 14]; // (weight, index)
        for (i, item) in items.iter_mut().enumerate() {
            *item = (weights[i], i);
        }
        for _ in 0..N_REPS {
            let item = items.choose_weighted(&mut r, get_weight).unwrap();
            chosen[item.1] += 1;
        }
        verify(chosen);

        // choose_weighted_mut
        let mut items = [(0u32, 0i32); 14]; // (weight, count)
        for (i, item) in items.iter_mut().enumerate() {
            *item = (weights[i], 0);
        }
        for _ in 0..N_REPS {
            items.choose_weighted_mut(&mut r, get_weight).unwrap().1 += 1;
        }
        for (ch, item) in chosen.iter_mut().zip(items.iter()) {
            *ch = item.1;
        }
        verify(chosen);

        // Check error cases
        let empty_slice = &mut [10][0..0];
        assert_eq!(
            empty_slice.choose_weighted(&mut r, |_| 1),
            Err(WeightedError::NoItem)
        );
        assert_eq!(
            empty_slice.choose_weighted_mut(&mut r, |_| 1),
            Err(WeightedError::NoItem)
        );
        assert_eq!(
            ['x'].choose_weighted_mut(&mut r, |_| 0),
            Err(WeightedError::AllWeightsZero)
        );
        assert_eq!(
            [0, -1].choose_weighted_mut(&mut r, |x| *x),
            Err(WeightedError::InvalidWeight)
        );
        assert_eq!(
            [-1, 0].choose_weighted_mut(&mut r, |x| *x),
            Err(WeightedError::InvalidWeight)
        );
    }

    #[test]
    fn value_stability_choose() {
        fn choose<I: Iterator<Item = u32>>(iter: I) -> Option<u32> {
            let mut rng = crate::test::rng(411);
            iter.choose(&mut rng)
        }

        assert_eq!(choose([].iter().cloned()), None);
        assert_eq!(choose(0..100), Some(33));
        assert_eq!(choose(UnhintedIterator { iter: 0..100 }), Some(40));
        assert_eq!(
            choose(ChunkHintedIterator {
                iter: 0..100,
                chunk_size: 32,
                chunk_remaining: 32,
                hint_total_size: false,
            }),
            Some(39)
        );
        assert_eq!(
            choose(ChunkHintedIterator {
                iter: 0..100,
                chunk_size: 32,
                chunk_remaining: 32,
                hint_total_size: true,
            }),
            Some(39)
        );
        assert_eq!(
            choose(WindowHintedIterator {
                iter: 0..100,
                window_size: 32,
                hint_total_size: false,
            }),
            Some(90)
        );
        assert_eq!(
            choose(WindowHintedIterator {
                iter: 0..100,
                window_size: 32,
                hint_total_size: true,
            }),
            Some(90)
        );
    }

    #[test]
    fn value_stability_choose_stable() {
        fn choose<I: Iterator<Item = u32>>(iter: I) -> Option<u32> {
            let mut rng = crate::test::rng(411);
            iter.choose_stable(&mut rng)
        }

        assert_eq!(choose([].iter().cloned()), None);
        assert_eq!(choose(0..100), Some(40));
        assert_eq!(choose(UnhintedIterator { iter: 0..100 }), Some(40));
        assert_eq!(
            choose(ChunkHintedIterator {
                iter: 0..100,
                chunk_size: 32,
                chunk_remaining: 32,
                hint_total_size: false,
            }),
            Some(40)
        );
        assert_eq!(
            choose(ChunkHintedIterator {
                iter: 0..100,
                chunk_size: 32,
                chunk_remaining: 32,
                hint_total_size: true,
            }),
            Some(40)
        );
        assert_eq!(
            choose(WindowHintedIterator {
                iter: 0..100,
                window_size: 32,
                hint_total_size: false,
            }),
            Some(40)
        );
        assert_eq!(
            choose(WindowHintedIterator {
                iter: 0..100,
                window_size: 32,
                hint_total_size: true,
            }),
            Some(40)
        );
    }

    #[test]
    fn value_stability_choose_multiple() {
        fn do_test<I: Iterator<Item = u32>>(iter: I, v: &[u32]) {
            let mut rng = crate::test::rng(412);
            let mut buf = [0u32; 8];
            assert_eq!(iter.choose_multiple_fill(&mut rng, &mut buf), v.len());
            assert_eq!(&buf[0..v.len()], v);
        }

        do_test(0..4, &[0, 1, 2, 3]);
        do_test(0..8, &[0, 1, 2, 3, 4, 5, 6, 7]);
        do_test(0..100, &[58, 78, 80, 92, 43, 8, 96, 7]);

        #[cfg(feature = "alloc")]
        {
            fn do_test<I: Iterator<Item = u32>>(iter: I, v: &[u32]) {
                let mut rng = crate::test::rng(412);
                assert_eq!(iter.choose_multiple(&mut rng, v.len()), v);
            }

            do_test(0..4, &[0, 1, 2, 3]);
            do_test(0..8, &[0, 1, 2, 3, 4, 5, 6, 7]);
            do_test(0..100, &[58, 78, 80, 92, 43, 8, 96, 7]);
        }
    }

    #[test]
    #[cfg(feature = "std")]
    fn test_multiple_weighted_edge_cases() {
        use super::*;

        let mut rng = crate::test::rng(413);

        // Case 1: One of the weights is 0
        let choices = [('a', 2), ('b', 1), ('c', 0)];
        for _ in 0..100 {
            let result = choices
                .choose_multiple_weighted(&mut rng, 2, |item| item.1)
                .unwrap()
                .collect::<Vec<_>>();

            assert_eq!(result.len(), 2);
            assert!(!result.iter().any(|val| val.0 == 'c'));
        }

        // Case 2: All of the weights are 0
        let choices = [('a', 0), ('b', 0), ('c', 0)];

        assert_eq!(choices
            .choose_multiple_weighted(&mut rng, 2, |item| item.1)
            .unwrap().count(), 2);

        // Case 3: Negative weights
        let choices = [('a', -1), ('b', 1), ('c', 1)];
        assert_eq!(
            choices
                .choose_multiple_weighted(&mut rng, 2, |item| item.1)
                .unwrap_err(),
            WeightedError::InvalidWeight
        );

        // Case 4: Empty list
        let choices = [];
        assert_eq!(choices
            .choose_multiple_weighted(&mut rng, 0, |_: &()| 0)
            .unwrap().count(), 0);

        // Case 5: NaN weights
        let choices = [('a', core::f64::NAN), ('b', 1.0), ('c', 1.0)];
        assert_eq!(
            choices
                .choose_multiple_weighted(&mut rng, 2, |item| item.1)
                .unwrap_err(),
            WeightedError::InvalidWeight
        );

        // Case 6: +infinity weights
        let choices = [('a', core::f64::INFINITY), ('b', 1.0), ('c', 1.0)];
        for _ in 0..100 {
            let result = choices
                .choose_multiple_weighted(&mut rng, 2, |item| item.1)
                .unwrap()
                .collect::<Vec<_>>();
            assert_eq!(result.len(), 2);
            assert!(result.iter().any(|val| val.0 == 'a'));
        }

        // Case 7: -infinity weights
        let choices = [('a', core::f64::NEG_INFINITY), ('b', 1.0), ('c', 1.0)];
        assert_eq!(
            choices
                .choose_multiple_weighted(&mut rng, 2, |item| item.1)
                .unwrap_err(),
            WeightedError::InvalidWeight
        );

        // Case 8: -0 weights
        let choices = [('a', -0.0), ('b', 1.0), ('c', 1.0)];
        assert!(choices
            .choose_multiple_weighted(&mut rng, 2, |item| item.1)
            .is_ok());
    }

    #[test]
    #[cfg(feature = "std")]
    #[cfg_attr(miri, ignore)] // Miri is too slow
    fn test_multiple_weighted_distributions() {
        use super::*;

        // The theoretical probabilities of the different outcomes are:
        // AB: 0.5  * 0.5  = 0.250
        // AC: 0.5  * 0.5  = 0.250
        // BA: 0.25 * 0.67 = 0.167
        // BC: 0.25 * 0.33 = 0.082
        // CA: 0.25 * 0.67 = 0.167
        // CB: 0.25 * 0.33 = 0.082
        let choices = [('a', 2), ('b', 1), ('c', 1)];
        let mut rng = crate::test::rng(414);

        let mut results = [0i32; 3];
        let expected_results = [4167, 4167, 1666];
        for _ in 0..10000 {
            let result = choices
                .choose_multiple_weighted(&mut rng, 2, |item| item.1)
                .unwrap()
                .collect::<Vec<_>>();

            assert_eq!(result.len(), 2);

            match (result[0].0, result[1].0) {
                ('a', 'b') | ('b', 'a') => {
                    results[0] += 1;
                }
                ('a', 'c') | ('c', 'a') => {
                    results[1] += 1;
                }
                ('b', 'c') | ('c', 'b') => {
                    results[2] += 1;
                }
                (_, _) => panic!("unexpected result"),
            }
        }

        let mut diffs = results
            .iter()
            .zip(&expected_results)
            .map(|(a, b)| (a - b).abs());
        assert!(!diffs.any(|deviation| deviation > 100));
    }
}
