// Copyright 2018 Developers of the Rand project.
//
// Licensed under the Apache License, Version 2.0 <LICENSE-APACHE or
// https://www.apache.org/licenses/LICENSE-2.0> or the MIT license
// <LICENSE-MIT or https://opensource.org/licenses/MIT>, at your
// option. This file may not be copied, modified, or distributed
// except according to those terms.

//! Low-level API for sampling indices

#[cfg(feature = "alloc")] use core::slice;

#[cfg(feature = "alloc")] use alloc::vec::{self, Vec};
// BTreeMap is not as fast in tests, but better than nothing.
#[cfg(all(feature = "alloc", not(feature = "std")))]
use alloc::collections::BTreeSet;
#[cfg(feature = "std")] use std::collections::HashSet;

#[cfg(feature = "std")]
use crate::distributions::WeightedError;

#[cfg(feature = "alloc")]
use crate::{Rng, distributions::{uniform::SampleUniform, Distribution, Uniform}};

#[cfg(feature = "serde1")]
use serde::{Serialize, Deserialize};

/// A vector of indices.
///
/// Multiple internal representations are possible.
#[derive(Clone, Debug)]
#[cfg_attr(feature = "serde1", derive(Serialize, Deserialize))]
pub enum IndexVec {
    #[doc(hidden)]
    U32(Vec<u32>),
    #[doc(hidden)]
    USize(Vec<usize>),
}

impl IndexVec {
    /// Returns the number of indices
    #[inline]
    pub fn len(&self) -> usize {
        match *self {
            IndexVec::U32(ref v) => v.len(),
            IndexVec::USize(ref v) => v.len(),
        }
    }

    /// Returns `true` if the length is 0.
    #[inline]
    pub fn is_empty(&self) -> bool {
        match *self {
            IndexVec::U32(ref v) => v.is_empty(),
            IndexVec::USize(ref v) => v.is_empty(),
        }
    }

    /// Return the value at the given `index`.
    ///
    /// (Note: we cannot implement [`std::ops::Index`] because of lifetime
    /// restrictions.)
    #[inline]
    pub fn index(&self, index: usize) -> usize {
        match *self {
            IndexVec::U32(ref v) => v[index] as usize,
            IndexVec::USize(ref v) => v[index],
        }
    }

    /// Return result as a `Vec<usize>`. Conversion may or may not be trivial.
    #[inline]
    pub fn into_vec(self) -> Vec<usize> {
        match self {
            IndexVec::U32(v) => v.into_iter().map(|i| i as usize).collect(),
            IndexVec::USize(v) => v,
        }
    }

    /// Iterate over the indices as a sequence of `usize` values
    #[inline]
    pub fn iter(&self) -> IndexVecIter<'_> {
        match *self {
            IndexVec::U32(ref v) => IndexVecIter::U32(v.iter()),
            IndexVec::USize(ref v) => IndexVecIter::USize(v.iter()),
        }
    }
}

impl IntoIterator for IndexVec {
    type Item = usize;
    type IntoIter = IndexVecIntoIter;

    /// Convert into an iterator over the indices as a sequence of `usize` values
    #[inline]
    fn into_iter(self) -> IndexVecIntoIter {
        match self {
            IndexVec::U32(v) => IndexVecIntoIter::U32(v.into_iter()),
            IndexVec::USize(v) => IndexVecIntoIter::USize(v.into_iter()),
        }
    }
}

impl PartialEq for IndexVec {
    fn eq(&self, other: &IndexVec) -> bool {
        use self::IndexVec::*;
        match (self, other) {
            (&U32(ref v1), &U32(ref v2)) => v1 == v2,
            (&USize(ref v1), &USize(ref v2)) => v1 == v2,
            (&U32(ref v1), &USize(ref v2)) => {
                (v1.len() == v2.len()) && (v1.iter().zip(v2.iter()).all(|(x, y)| *x as usize == *y))
            }
            (&USize(ref v1), &U32(ref v2)) => {
                (v1.len() == v2.len()) && (v1.iter().zip(v2.iter()).all(|(x, y)| *x == *y as usize))
            }
        }
    }
}

impl From<Vec<u32>> for IndexVec {
    #[inline]
    fn from(v: Vec<u32>) -> Self {
        IndexVec::U32(v)
    }
}

impl From<Vec<usize>> for IndexVec {
    #[inline]
    fn from(v: Vec<usize>) -> Self {
        IndexVec::USize(v)
    }
}

/// Return type of `IndexVec::iter`.
#[derive(Debug)]
pub enum IndexVecIter<'a> {
    #[doc(hidden)]
    U32(slice::Iter<'a, u32>),
    #[doc(hidden)]
    USize(slice::Iter<'a, usize>),
}

impl<'a> Iterator for IndexVecIter<'a> {
    type Item = usize;

    #[inline]
    fn next(&mut self) -> Option<usize> {
        use self::IndexVecIter::*;
        match *self {
            U32(ref mut iter) => iter.next().map(|i| *i as usize),
            USize(ref mut iter) => iter.next().cloned(),
        }
    }

    #[inline]
    fn size_hint(&self) -> (usize, Option<usize>) {
        match *self {
            IndexVecIter::U32(ref v) => v.size_hint(),
            IndexVecIter::USize(ref v) => v.size_hint(),
        }
    }
}

impl<'a> ExactSizeIterator for IndexVecIter<'a> {}

/// Return type of `IndexVec::into_iter`.
#[derive(Clone, Debug)]
pub enum IndexVecIntoIter {
    #[doc(hidden)]
    U32(vec::IntoIter<u32>),
    #[doc(hidden)]
    USize(vec::IntoIter<usize>),
}

impl Iterator for IndexVecIntoIter {
    type Item = usize;

    #[inline]
    fn next(&mut self) -> Option<Self::Item> {
        use self::IndexVecIntoIter::*;
        match *self {
            U32(ref mut v) => v.next().map(|i| i as usize),
            USize(ref mut v) => v.next(),
        }
    }

    #[inline]
    fn size_hint(&self) -> (usize, Option<usize>) {
        use self::IndexVecIntoIter::*;
        match *self {
            U32(ref v) => v.size_hint(),
            USize(ref v) => v.size_hint(),
        }
    }
}

impl ExactSizeIterator for IndexVecIntoIter {}


/// Randomly sample exactly `amount` distinct indices from `0..length`, and
/// return them in random order (fully shuffled).
///
/// This method is used internally by the slice sampling methods, but it can
/// sometimes be useful to have the indices themselves so this is provided as
/// an alternative.
///
/// The implementation used is not specified; we automatically select the
/// fastest available algorithm for the `length` and `amount` parameters
/// (based on detailed profiling on an Intel Haswell CPU). Roughly speaking,
/// complexity is `O(amount)`, except that when `amount` is small, performance
/// is closer to `O(amount^2)`, and when `length` is close to `amount` then
/// `O(length)`.
///
/// Note that performance is significantly better over `u32` indices than over
/// `u64` indices. Because of this we hide the underlying type behind an
/// abstraction, `IndexVec`.
///
/// If an allocation-free `no_std` function is required, it is suggested
/// to adapt the internal `sample_floyd` implementation.
///
/// Panics if `amount > length`.
pub fn sample<R>(rng: &mut R, length: usize, amount: usize) -> IndexVec
where R: Rng + ?Sized {
    if amount > length {
        panic!("`amount` of samples must be less than or equal to `length`");
    }
    if length > (::core::u32::MAX as usize) {
        // We never want to use inplace here, but could use floyd's alg
        // Lazy version: always use the cache alg.
        return sample_rejection(rng, length, amount);
    }
    let amount = amount as u32;
    let length = length as u32;

    // Choice of algorithm here depends on both length and amount. See:
    // https://github.com/rust-random/rand/pull/479
    // We do some calculations with f32. Accuracy is not very important.

    if amount < 163 {
        const C: [[f32; 2]; 2] = [[1.6, 8.0 / 45.0], [10.0, 70.0 / 9.0]];
        let j = if length < 500_000 { 0 } else { 1 };
        let amount_fp = amount as f32;
        let m4 = C[0][j] * amount_fp;
        // Short-cut: when amount < 12, floyd's is always faster
        if amount > 11 && (length as f32) < (C[1][j] + m4) * amount_fp {
            sample_inplace(rng, length, amount)
        } else {
            sample_floyd(rng, length, amount)
        }
    } else {
        const C: [f32; 2] = [270.0, 330.0 / 9.0];
        let j = if length < 500_000 { 0 } else { 1 };
        if (length as f32) < C[j] * (amount as f32) {
            sample_inplace(rng, length, amount)
        } else {
            sample_rejection(rng, length, amount)
        }
    }
}

/// Randomly sample exactly `amount` distinct indices from `0..length`, and
/// return them in an arbitrary order (there is no guarantee of shuffling or
/// ordering). The weights are to be provided by the input function `weights`,
/// which will be called once for each index.
///
/// This method is used internally by the slice sampling methods, but it can
/// sometimes be useful to have the indices themselves so this is provided as
/// an alternative.
///
/// This implementation uses `O(length + amount)` space and `O(length)` time
/// if the "nightly" feature is enabled, or `O(length)` space and
/// `O(length + amount * log length)` time otherwise.
///
/// Panics if `amount > length`.
#[cfg(feature = "std")]
#[cfg_attr(docsrs, doc(cfg(feature = "std")))]
pub fn sample_weighted<R, F, X>(
    rng: &mut R, length: usize, weight: F, amount: usize,
) -> Result<IndexVec, WeightedError>
where
    R: Rng + ?Sized,
    F: Fn(usize) -> X,
    X: Into<f64>,
{
    if length > (core::u32::MAX as usize) {
        sample_efraimidis_spirakis(rng, length, weight, amount)
    } else {
        assert!(amount <= core::u32::MAX as usize);
        let amount = amount as u32;
        let length = length as u32;
        sample_efraimidis_spirakis(rng, length, weight, amount)
    }
}


/// Randomly sample exactly `amount` distinct indices from `0..length`, and
/// return them in an arbitrary order (there is no guarantee of shuffling or
/// ordering). The weights are to be provided by the input function `weights`,
/// which will be called once for each index.
///
/// This implementation uses the algorithm described by Efraimidis and Spirakis
/// in this paper: https://doi.org/10.1016/j.ipl.2005.11.003
/// It uses `O(length + amount)` space and `O(length)` time if the
/// "nightly" feature is enabled, or `O(length)` space and `O(length
/// + amount * log length)` time otherwise.
///
/// Panics if `amount > length`.
#[cfg(feature = "std")]
fn sample_efraimidis_spirakis<R, F, X, N>(
    rng: &mut R, length: N, weight: F, amount: N,
) -> Result<IndexVec, WeightedError>
where
    R: Rng + ?Sized,
    F: Fn(usize) -> X,
    X: Into<f64>,
    N: UInt,
    IndexVec: From<Vec<N>>,
{
    if amount == N::zero() {
        return Ok(IndexVec::U32(Vec::new()));
    }

    if amount > length {
        panic!("`amount` of samples must be less than or equal to `length`");
    }

    struct Element<N> {
        index: N,
        key: f64,
    }
    impl<N> PartialOrd for Element<N> {
        fn partial_cmp(&self, other: &Self) -> Option<core::cmp::Ordering> {
            self.key.partial_cmp(&other.key)
        }
    }
    impl<N> Ord for Element<N> {
        fn cmp(&self, other: &Self) -> core::cmp::Ordering {
             // partial_cmp will always produce a value,
             // because we check that the weights are not nan
            self.partial_cmp(other).unwrap()
        }
    }
    impl<N> PartialEq for Element<N> {
        fn eq(&self, other: &Self) -> bool {
            self.key == other.key
        }
    }
    impl<N> Eq for Element<N> {}

    #[cfg(feature = "nightly")]
    {
        let mut candidates = Vec::with_capacity(length.as_usize());
        let mut index = N::zero();
        while index < length {
            let weight = weight(index.as_usize()).into();
            if !(weight >= 0.) {
                return Err(WeightedError::InvalidWeight);
            }

            let key = rng.gen::<f64>().powf(1.0 / weight);
            candidates.push(Element { index, key });

            index += N::one();
        }

        // Partially sort the array to find the `amount` elements with the greatest
        // keys. Do this by using `select_nth_unstable` to put the elements with
        // the *smallest* keys at the beginning of the list in `O(n)` time, which
        // provides equivalent information about the elements with the *greatest* keys.
        let (_, mid, greater)
            = candidates.select_nth_unstable(length.as_usize() - amount.as_usize());

        let mut result: Vec<N> = Vec::with_capacity(amount.as_usize());
        result.push(mid.index);
        for element in greater {
            result.push(element.index);
        }
        Ok(IndexVec::from(result))
    }

    #[cfg(not(feature = "nightly"))]
    {
        use alloc::collections::BinaryHeap;

        // Partially sort the array such that the `amount` elements with the largest
        // keys are first using a binary max heap.
        let mut candidates = BinaryHeap::with_capacity(length.as_usize());
        let mut index = N::zero();
        while index < length {
            let weight = weight(index.as_usize()).into();
            if !(weight >= 0.) {
                return Err(WeightedError::InvalidWeight);
            }

            let key = rng.gen::<f64>().powf(1.0 / weight);
            candidates.push(Element { index, key });

            index += N::one();
        }

        let mut result: Vec<N> = Vec::with_capacity(amount.as_usize());
        while result.len() < amount.as_usize() {
            result.push(candidates.pop().unwrap().index);
        }
        Ok(IndexVec::from(result))
    }
}

/// Randomly sample exactly `amount` indices from `0..length`, using Floyd's
/// combination algorithm.
///
/// The output values are fully shuffled. (Overhead is under 50%.)
///
/// This implementation uses `O(amount)` memory and `O(amount^2)` time.
fn sample_floyd<R>(rng: &mut R, length: u32, amount: u32) -> IndexVec
where R: Rng + ?Sized {
    // For small amount we use Floyd's fully-shuffled variant. For larger
    // amounts this is slow due to Vec::insert performance, so we shuffle
    // afterwards. Benchmarks show little overhead from extra logic.
    let floyd_shuffle = amount < 50;

    debug_assert!(amount <= length);
    let mut indices = Vec::with_capacity(amount as usize);
    for j in length - amount..length {
        let t = rng.gen_range(0..=j);
        if floyd_shuffle {
            if let Some(pos) = indices.iter().position(|&x| x == t) {
                indices.insert(pos, j);
                continue;
            }
        } else if indices.contains(&t) {
            indices.push(j);
            continue;
        }
        indices.push(t);
    }
    if !floyd_shuffle {
        // Reimplement SliceRandom::shuffle with smaller indices
        for i in (1..amount).rev() {
            // invariant: elements with index > i have been locked in place.
            indices.swap(i as usize, rng.gen_range(0..=i) as usize);
        }
    }
    IndexVec::from(indices)
}

/// Randomly sample exactly `amount` indices from `0..length`, using an inplace
/// partial Fisher-Yates method.
/// Sample an amount of indices using an inplace partial fisher yates method.
///
/// This allocates the entire `length` of indices and randomizes only the first `amount`.
/// It then truncates to `amount` and returns.
///
/// This method is not appropriate for large `length` and potentially uses a lot
/// of memory; because of this we only implement for `u32` index (which improves
/// performance in all cases).
///
/// Set-up is `O(length)` time and memory and shuffling is `O(amount)` time.
fn sample_inplace<R>(rng: &mut R, length: u32, amount: u32) -> IndexVec
where R: Rng + ?Sized {
    debug_assert!(amount <= length);
    let mut indices: Vec<u32> = Vec::with_capacity(length as usize);
    indices.extend(0..length);
    for i in 0..amount {
        let j: u32 = rng.gen_range(i..length);
        indices.swap(i as usize, j as usize);
    }
    indices.truncate(amount as usize);
    debug_assert_eq!(indices.len(), amount as usize);
    IndexVec::from(indices)
}

trait UInt: Copy + PartialOrd + Ord + PartialEq + Eq + SampleUniform
    + core::hash::Hash + core::ops::AddAssign {
    fn zero() -> Self;
    fn one() -> Self;
    fn as_usize(self) -> usize;
}
impl UInt for u32 {
    #[inline]
    fn zero() -> Self {
        0
    }

    #[inline]
    fn one() -> Self {
        1
    }

    #[inline]
    fn as_usize(self) -> usize {
        self as usize
    }
}
impl UInt for usize {
    #[inline]
    fn zero() -> Self {
        0
    }

    #[inline]
    fn one() -> Self {
        1
    }

    #[inline]
    fn as_usize(self) -> usize {
        self
    }
}

/// Randomly sample exactly `amount` indices from `0..length`, using rejection
/// sampling.
///
/// Since `amount <<< length` there is a low chance of a random sample in
/// `0..length` being a duplicate. We test for duplicates and resample where
/// necessary. The algorithm is `O(amount)` time and memory.
///
/// This function  is generic over X primarily so that results are value-stable
/// over 32-bit and 64-bit platforms.
fn sample_rejection<X: UInt, R>(rng: &mut R, length: X, amount: X) -> IndexVec
where
    R: Rng + ?Sized,
    IndexVec: From<Vec<X>>,
{
    debug_assert!(amount < length);
    #[cfg(feature = "std")]
    let mut cache = HashSet::with_capacity(amount.as_usize());
    #[cfg(not(feature = "std"))]
    let mut cache = BTreeSet::new();
    let distr = Uniform::new(X::zero(), length);
    let mut indices = Vec::with_capacity(amount.as_usize());
    for _ in 0..amount.as_usize() {
        let mut pos = distr.sample(rng);
        while !cache.insert(pos) {
            pos = distr.sample(rng);
        }
        indices.push(pos);
    }

    debug_assert_eq!(indices.len(), amount.as_usize());
    IndexVec::from(indices)
}

#[cfg(test)]
mod test {
    use super::*;

    #[test]
    #[cfg(feature = "serde1")]
    fn test_serialization_index_vec() {
        let some_index_vec = IndexVec::from(vec![254_usize, 234, 2, 1]);
        let de_some_index_vec: IndexVec = bincode::deserialize(&bincode::serialize(&some_index_vec).unwrap()).unwrap();
        match (some_index_vec, de_some_index_vec) {
            (IndexVec::U32(a), IndexVec::U32(b)) => {
                assert_eq!(a, b);
            },
            (IndexVec::USize(a), IndexVec::USize(b)) => {
                assert_eq!(a, b);
            },
            _ => {panic!("failed to seralize/deserialize `IndexVec`")}
        }
    }

    #[cfg(feature = "alloc")] use alloc::vec;

    #[test]
    fn test_sample_boundaries() {
        let mut r = crate::test::rng(404);

        assert_eq!(sample_inplace(&mut r, 0, 0).len(), 0);
        assert_eq!(sample_inplace(&mut r, 1, 0).len(), 0);
        assert_eq!(sample_inplace(&mut r, 1, 1).into_vec(), vec![0]);

        assert_eq!(sample_rejection(&mut r, 1u32, 0).len(), 0);

        assert_eq!(sample_floyd(&mut r, 0, 0).len(), 0);
        assert_eq!(sample_floyd(&mut r, 1, 0).len(), 0);
        assert_eq!(sample_floyd(&mut r, 1, 1).into_vec(), vec![0]);

        // These algorithms should be fast with big numbers. Test average.
        let sum: usize = sample_rejection(&mut r, 1 << 25, 10u32).into_iter().sum();
        assert!(1 << 25 < sum && sum < (1 << 25) * 25);

        let sum: usize = sample_floyd(&mut r, 1 << 25, 10).into_iter().sum();
        assert!(1 << 25 < sum && sum < (1 << 25) * 25);
    }

    #[test]
    #[cfg_attr(miri, ignore)] // Miri is too slow
    fn test_sample_alg() {
        let seed_rng = crate::test::rng;

        // We can't test which algorithm is used directly, but Floyd's alg
        // should produce different results from the others. (Also, `inplace`
        // and `cached` currently use different sizes thus produce different results.)

        // A small length and relatively large amount should use inplace
        let (length, amount): (usize, usize) = (100, 50);
        let v1 = sample(&mut seed_rng(420), length, amount);
        let v2 = sample_inplace(&mut seed_rng(420), length as u32, amount as u32);
        assert!(v1.iter().all(|e| e < length));
        assert_eq!(v1, v2);

        // Test Floyd's alg does produce different results
        let v3 = sample_floyd(&mut seed_rng(420), length as u32, amount as u32);
        assert!(v1 != v3);

        // A large length and small amount should use Floyd
        let (length, amount): (usize, usize) = (1 << 20, 50);
        let v1 = sample(&mut seed_rng(421), length, amount);
        let v2 = sample_floyd(&mut seed_rng(421), length as u32, amount as u32);
        assert!(v1.iter().all(|e| e < length));
        assert_eq!(v1, v2);

        // A large length and larger amount should use cache
        let (length, amount): (usize, usize) = (1 << 20, 600);
        let v1 = sample(&mut seed_rng(422), length, amount);
        let v2 = sample_rejection(&mut seed_rng(422), length as u32, amount as u32);
        assert!(v1.iter().all(|e| e < length));
        assert_eq!(v1, v2);
    }

    #[cfg(feature = "std")]
    #[test]
    fn test_sample_weighted() {
        let seed_rng = crate::test::rng;
        for &(amount, len) in &[(0, 10), (5, 10), (10, 10)] {
            let v = sample_weighted(&mut seed_rng(423), len, |i| i as f64, amount).unwrap();
            match v {
                IndexVec::U32(mut indices) => {
                    assert_eq!(indices.len(), amount);
                    indices.sort_unstable();
                    indices.dedup();
                    assert_eq!(indices.len(), amount);
                    for &i in &indices {
                        assert!((i as usize) < len);
                    }
                },
                IndexVec::USize(_) => panic!("expected `IndexVec::U32`"),
            }
        }
    }

    #[test]
    fn value_stability_sample() {
        let do_test = |length, amount, values: &[u32]| {
            let mut buf = [0u32; 8];
            let mut rng = crate::test::rng(410);

            let res = sample(&mut rng, length, amount);
            let len = res.len().min(buf.len());
            for (x, y) in res.into_iter().zip(buf.iter_mut()) {
                *y = x as u32;
            }
            assert_eq!(
                &buf[0..len],
                values,
                "failed sampling {}, {}",
                length,
                amount
            );
        };

        do_test(10, 6, &[8, 0, 3, 5, 9, 6]); // floyd
        do_test(25, 10, &[18, 15, 14, 9, 0, 13, 5, 24]); // floyd
        do_test(300, 8, &[30, 283, 150, 1, 73, 13, 285, 35]); // floyd
        do_test(300, 80, &[31, 289, 248, 154, 5, 78, 19, 286]); // inplace
        do_test(300, 180, &[31, 289, 248, 154, 5, 78, 19, 286]); // inplace

        do_test(1_000_000, 8, &[
            103717, 963485, 826422, 509101, 736394, 807035, 5327, 632573,
        ]); // floyd
        do_test(1_000_000, 180, &[
            103718, 963490, 826426, 509103, 736396, 807036, 5327, 632573,
        ]); // rejection
    }
}
