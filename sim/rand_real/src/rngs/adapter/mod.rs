// Copyright 2018 Developers of the Rand project.
//
// Licensed under the Apache License, Version 2.0 <LICENSE-APACHE or
// https://www.apache.org/licenses/LICENSE-2.0> or the MIT license
// <LICENSE-MIT or https://opensource.org/licenses/MIT>, at your
// option. This file may not be copied, modified, or distributed
// except according to those terms.

//! Wrappers / adapters forming RNGs

mod read;
mod reseeding;

#[allow(deprecated)]
pub use self::read::{ReadError, ReadRng};
pub use self::reseeding::ReseedingRng;
