// Copyright 2018 Developers of the Rand project.
// Copyright 2013 The Rust Project Developers.
//
// Licensed under the Apache License, Version 2.0 <LICENSE-APACHE or
// https://www.apache.org/licenses/LICENSE-2.0> or the MIT license
// <LICENSE-MIT or https://opensource.org/licenses/MIT>, at your
// option. This file may not be copied, modified, or distributed
// except according to those terms.

//! A wrapper around any Read to treat it as an RNG.

#![allow(deprecated)]

use std::fmt;
use std::io::Read;

use rand_core::{impls, Error, RngCore};


/// An RNG that reads random bytes straight from any type supporting
/// [`std::io::Read`], for example files.
///
/// This will work best with an infinite reader, but that is not required.
///
/// This can be used with `/dev/urandom` on Unix but it is recommended to use
/// [`OsRng`] instead.
///
/// # Panics
///
/// `ReadRng` uses [`std::io::Read::read_exact`], which retries on interrupts.
/// All other errors from the underlying reader, including when it does not
/// have enough data, will only be reported through [`try_fill_bytes`].
/// The other [`RngCore`] methods will panic in case of an error.
///
/// [`OsRng`]: crate::rngs::OsRng
/// [`try_fill_bytes`]: RngCore::try_fill_bytes
#[derive(Debug)]
#[deprecated(since="0.8.4", note="removal due to lack of usage")]
pub struct ReadRng<R> {
    reader: R,
}

impl<R: Read> ReadRng<R> {
    /// Create a new `ReadRng` from a `Read`.
    pub fn new(r: R) -> ReadRng<R> {
        ReadRng { reader: r }
    }
}

impl<R: Read> RngCore for ReadRng<R> {
    fn next_u32(&mut self) -> u32 {
        impls::next_u32_via_fill(self)
    }

    fn next_u64(&mut self) -> u64 {
        impls::next_u64_via_fill(self)
    }

    fn fill_bytes(&mut self, dest: &mut [u8]) {
        self.try_fill_bytes(dest).unwrap_or_else(|err| {
            panic!(
                "reading random bytes from Read implementation failed; error: {}",
                err
            )
        });
    }

    fn try_fill_bytes(&mut self, dest: &mut [u8]) -> Result<(), Error> {
        if dest.is_empty() {
            return Ok(());
        }
        // Use `std::io::read_exact`, which retries on `ErrorKind::Interrupted`.
        self.reader
            .read_exact(dest)
            .map_err(|e| Error::new(ReadError(e)))
    }
}

/// `ReadRng` error type
#[derive(Debug)]
#[deprecated(since="0.8.4")]
pub struct ReadError(std::io::Error);

impl fmt::Display for ReadError {
    fn fmt(&self, f: &mut fmt::Formatter) -> fmt::Result {
        write!(f, "ReadError: {}", self.0)
    }
}

impl std::error::Error for ReadError {
    fn source(&self) -> Option<&(dyn std::error::Error + 'static)> {
        Some(&self.0)
    }
}


#[cfg(test)]
mod test {
    use std::println;

    use super::ReadRng;
    use crate::RngCore;

    #[test]
    fn test_reader_rng_u64() {
        // transmute from the target to avoid endianness concerns.
        #[rustfmt::skip]
        let v = [0u8, 0, 0, 0, 0, 0, 0, 1,
                 0,   4, 0, 0, 3, 0, 0, 2,
                 5,   0, 0, 0, 0, 0, 0, 0];
        let mut rng = ReadRng::new(&v[..]);

        assert_eq!(rng.next_u64(), 1 << 56);
        assert_eq!(rng.next_u64(), (2 << 56) + (3 << 32) + (4 << 8));
        assert_eq!(rng.next_u64(), 5);
    }

    #[test]
    fn test_reader_rng_u32() {
        let v = [0u8, 0, 0, 1, 0, 0, 2, 0, 3, 0, 0, 0];
        let mut rng = ReadRng::new(&v[..]);

        assert_eq!(rng.next_u32(), 1 << 24);
        assert_eq!(rng.next_u32(), 2 << 16);
        assert_eq!(rng.next_u32(), 3);
    }

    #[test]
    fn test_reader_rng_fill_bytes() {
        let v = [1u8, 2, 3, 4, 5, 6, 7, 8];
        let mut w = [0u8; 8];

        let mut rng = ReadRng::new(&v[..]);
        rng.fill_bytes(&mut w);

        assert!(v == w);
    }

    #[test]
    fn test_reader_rng_insufficient_bytes() {
        let v = [1u8, 2, 3, 4, 5, 6, 7, 8];
        let mut w = [0u8; 9];

        let mut rng = ReadRng::new(&v[..]);

        let result = rng.try_fill_bytes(&mut w);
        assert!(result.is_err());
        println!("Error: {}", result.unwrap_err());
    }
}
