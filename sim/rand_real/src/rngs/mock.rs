// Copyright 2018 Developers of the Rand project.
//
// Licensed under the Apache License, Version 2.0 <LICENSE-APACHE or
// https://www.apache.org/licenses/LICENSE-2.0> or the MIT license
// <LICENSE-MIT or https://opensource.org/licenses/MIT>, at your
// option. This file may not be copied, modified, or distributed
// except according to those terms.

//! Mock random number generator

use rand_core::{impls, Error, RngCore};

#[cfg(feature = "serde1")]
use serde::{Serialize, Deserialize};

/// A simple implementation of `RngCore` for testing purposes.
///
/// This generates an arithmetic sequence (i.e. adds a constant each step)
/// over a `u64` number, using wrapping arithmetic. If the increment is 0
/// the generator yields a constant.
///
/// ```
/// use rand::Rng;
/// use rand::rngs::mock::StepRng;
///
/// let mut my_rng = StepRng::new(2, 1);
/// let sample: [u64; 3] = my_rng.gen();
/// assert_eq!(sample, [2, 3, 4]);
/// ```
#[derive(Debug, Clone, PartialEq, Eq)]
#[cfg_attr(feature = "serde1", derive(Serialize, Deserialize))]
pub struct StepRng {
    v: u64,
    a: u64,
}

impl StepRng {
    /// Create a `StepRng`, yielding an arithmetic sequence starting with
    /// `initial` and incremented by `increment` each time.
    pub fn new(initial: u64, increment: u64) -> Self {
        StepRng {
            v: initial,
            a: increment,
        }
    }
}

impl RngCore for StepRng {
    #[inline]
    fn next_u32(&mut self) -> u32 {
        self.next_u64() as u32
    }

    #[inline]
    fn next_u64(&mut self) -> u64 {
        let result = self.v;
        self.v = self.v.wrapping_add(self.a);
        result
    }

    #[inline]
    fn fill_bytes(&mut self, dest: &mut [u8]) {
        impls::fill_bytes_via_next(self, dest);
    }

    #[inline]
    fn try_fill_bytes(&mut self, dest: &mut [u8]) -> Result<(), Error> {
        self.fill_bytes(dest);
        Ok(())
    }
}

#[cfg(test)]
mod tests {
    #[test]
    #[cfg(feature = "serde1")]
    fn test_serialization_step_rng() {
        use super::StepRng;

        let some_rng = StepRng::new(42, 7);
        let de_some_rng: StepRng =
            bincode::deserialize(&bincode::serialize(&some_rng).unwrap()).unwrap();
        assert_eq!(some_rng.v, de_some_rng.v);
        assert_eq!(some_rng.a, de_some_rng.a);

    }
}
