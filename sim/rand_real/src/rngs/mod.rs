// Copyright 2018 Developers of the Rand project.
//
// Licensed under the Apache License, Version 2.0 <LICENSE-APACHE or
// https://www.apache.org/licenses/LICENSE-2.0> or the MIT license
// <LICENSE-MIT or https://opensource.org/licenses/MIT>, at your
// option. This file may not be copied, modified, or distributed
// except according to those terms.

//! Random number generators and adapters
//!
//! ## Background: Random number generators (RNGs)
//!
//! Computers cannot produce random numbers from nowhere. We classify
//! random number generators as follows:
//!
//! -   "True" random number generators (TRNGs) use hard-to-predict data sources
//!     (e.g. the high-resolution parts of event timings and sensor jitter) to
//!     harvest random bit-sequences, apply algorithms to remove bias and
//!     estimate available entropy, then combine these bits into a byte-sequence
//!     or an entropy pool. This job is usually done by the operating system or
//!     a hardware generator (HRNG).
//! -   "Pseudo"-random number generators (PRNGs) use algorithms to transform a
//!     seed into a sequence of pseudo-random numbers. These generators can be
//!     fast and produce well-distributed unpredictable random numbers (or not).
//!     They are usually deterministic: given algorithm and seed, the output
//!     sequence can be reproduced. They have finite period and eventually loop;
//!     with many algorithms this period is fixed and can be proven sufficiently
//!     long, while others are chaotic and the period depends on the seed.
//! -   "Cryptographically secure" pseudo-random number generators (CSPRNGs)
//!     are the sub-set of PRNGs which are secure. Security of the generator
//!     relies both on hiding the internal state and using a strong algorithm.
//!
//! ## Traits and functionality
//!
//! All RNGs implement the [`RngCore`] trait, as a consequence of which the
//! [`Rng`] extension trait is automatically implemented. Secure RNGs may
//! additionally implement the [`CryptoRng`] trait.
//!
//! All PRNGs require a seed to produce their random number sequence. The
//! [`SeedableRng`] trait provides three ways of constructing PRNGs:
//!
//! -   `from_seed` accepts a type specific to the PRNG
//! -   `from_rng` allows a PRNG to be seeded from any other RNG
//! -   `seed_from_u64` allows any PRNG to be seeded from a `u64` insecurely
//! -   `from_entropy` securely seeds a PRNG from fresh entropy
//!
//! Use the [`rand_core`] crate when implementing your own RNGs.
//!
//! ## Our generators
//!
//! This crate provides several random number generators:
//!
//! -   [`OsRng`] is an interface to the operating system's random number
//!     source. Typically the operating system uses a CSPRNG with entropy
//!     provided by a TRNG and some type of on-going re-seeding.
//! -   [`ThreadRng`], provided by the [`thread_rng`] function, is a handle to a
//!     thread-local CSPRNG with periodic seeding from [`OsRng`]. Because this
//!     is local, it is typically much faster than [`OsRng`]. It should be
//!     secure, though the paranoid may prefer [`OsRng`].
//! -   [`StdRng`] is a CSPRNG chosen for good performance and trust of security
//!     (based on reviews, maturity and usage). The current algorithm is ChaCha12,
//!     which is well established and rigorously analysed.
//!     [`StdRng`] provides the algorithm used by [`ThreadRng`] but without
//!     periodic reseeding.
//! -   [`SmallRng`] is an **insecure** PRNG designed to be fast, simple, require
//!     little memory, and have good output quality.
//!
//! The algorithms selected for [`StdRng`] and [`SmallRng`] may change in any
//! release and may be platform-dependent, therefore they should be considered
//! **not reproducible**.
//!
//! ## Additional generators
//!
//! **TRNGs**: The [`rdrand`] crate provides an interface to the RDRAND and
//! RDSEED instructions available in modern Intel and AMD CPUs.
//! The [`rand_jitter`] crate provides a user-space implementation of
//! entropy harvesting from CPU timer jitter, but is very slow and has
//! [security issues](https://github.com/rust-random/rand/issues/699).
//!
//! **PRNGs**: Several companion crates are available, providing individual or
//! families of PRNG algorithms. These provide the implementations behind
//! [`StdRng`] and [`SmallRng`] but can also be used directly, indeed *should*
//! be used directly when **reproducibility** matters.
//! Some suggestions are: [`rand_chacha`], [`rand_pcg`], [`rand_xoshiro`].
//! A full list can be found by searching for crates with the [`rng` tag].
//!
//! [`Rng`]: crate::Rng
//! [`RngCore`]: crate::RngCore
//! [`CryptoRng`]: crate::CryptoRng
//! [`SeedableRng`]: crate::SeedableRng
//! [`thread_rng`]: crate::thread_rng
//! [`rdrand`]: https://crates.io/crates/rdrand
//! [`rand_jitter`]: https://crates.io/crates/rand_jitter
//! [`rand_chacha`]: https://crates.io/crates/rand_chacha
//! [`rand_pcg`]: https://crates.io/crates/rand_pcg
//! [`rand_xoshiro`]: https://crates.io/crates/rand_xoshiro
//! [`rng` tag]: https://crates.io/keywords/rng

#[cfg_attr(docsrs, doc(cfg(feature = "std")))]
#[cfg(feature = "std")] pub mod adapter;

pub mod mock; // Public so we don't export `StepRng` directly, making it a bit
              // more clear it is intended for testing.

#[cfg(all(feature = "small_rng", target_pointer_width = "64"))]
mod xoshiro256plusplus;
#[cfg(all(feature = "small_rng", not(target_pointer_width = "64")))]
mod xoshiro128plusplus;
#[cfg(feature = "small_rng")] mod small;

#[cfg(feature = "std_rng")] mod std;
#[cfg(all(feature = "std", feature = "std_rng"))] pub(crate) mod thread;

#[cfg(feature = "small_rng")] pub use self::small::SmallRng;
#[cfg(feature = "std_rng")] pub use self::std::StdRng;
#[cfg(all(feature = "std", feature = "std_rng"))] pub use self::thread::ThreadRng;

#[cfg_attr(docsrs, doc(cfg(feature = "getrandom")))]
#[cfg(feature = "getrandom")] pub use rand_core::OsRng;
