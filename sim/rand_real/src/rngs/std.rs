// Copyright 2018 Developers of the Rand project.
//
// Licensed under the Apache License, Version 2.0 <LICENSE-APACHE or
// https://www.apache.org/licenses/LICENSE-2.0> or the MIT license
// <LICENSE-MIT or https://opensource.org/licenses/MIT>, at your
// option. This file may not be copied, modified, or distributed
// except according to those terms.

//! The standard RNG

use crate::{CryptoRng, Error, RngCore, SeedableRng};

pub(crate) use rand_chacha::ChaCha12Core as Core;

use rand_chacha::ChaCha12Rng as Rng;

/// The standard RNG. The PRNG algorithm in `StdRng` is chosen to be efficient
/// on the current platform, to be statistically strong and unpredictable
/// (meaning a cryptographically secure PRNG).
///
/// The current algorithm used is the ChaCha block cipher with 12 rounds. Please
/// see this relevant [rand issue] for the discussion. This may change as new 
/// evidence of cipher security and performance becomes available.
///
/// The algorithm is deterministic but should not be considered reproducible
/// due to dependence on configuration and possible replacement in future
/// library versions. For a secure reproducible generator, we recommend use of
/// the [rand_chacha] crate directly.
///
/// [rand_chacha]: https://crates.io/crates/rand_chacha
/// [rand issue]: https://github.com/rust-random/rand/issues/932
#[cfg_attr(docsrs, doc(cfg(feature = "std_rng")))]
#[derive(Clone, Debug, PartialEq, Eq)]
pub struct StdRng(Rng);

impl RngCore for StdRng {
    #[inline(always)]
    fn next_u32(&mut self) -> u32 {
        self.0.next_u32()
    }

    #[inline(always)]
    fn next_u64(&mut self) -> u64 {
        self.0.next_u64()
    }

    #[inline(always)]
    fn fill_bytes(&mut self, dest: &mut [u8]) {
        self.0.fill_bytes(dest);
    }

    #[inline(always)]
    fn try_fill_bytes(&mut self, dest: &mut [u8]) -> Result<(), Error> {
        self.0.try_fill_bytes(dest)
    }
}

impl SeedableRng for StdRng {
    type Seed = <Rng as SeedableRng>::Seed;

    #[inline(always)]
    fn from_seed(seed: Self::Seed) -> Self {
        StdRng(Rng::from_seed(seed))
    }

    #[inline(always)]
    fn from_rng<R: RngCore>(rng: R) -> Result<Self, Error> {
        Rng::from_rng(rng).map(StdRng)
    }
}

impl CryptoRng for StdRng {}


#[cfg(test)]
mod test {
    use crate::rngs::StdRng;
    use crate::{RngCore, SeedableRng};

    #[test]
    fn test_stdrng_construction() {
        // Test value-stability of StdRng. This is expected to break any time
        // the algorithm is changed.
        #[rustfmt::skip]
        let seed = [1,0,0,0, 23,0,0,0, 200,1,0,0, 210,30,0,0,
                    0,0,0,0, 0,0,0,0, 0,0,0,0, 0,0,0,0];

        let target = [10719222850664546238, 14064965282130556830];

        let mut rng0 = StdRng::from_seed(seed);
        let x0 = rng0.next_u64();

        let mut rng1 = StdRng::from_rng(rng0).unwrap();
        let x1 = rng1.next_u64();

        assert_eq!([x0, x1], target);
    }
}
