// Copyright 2018 Developers of the Rand project.
//
// Licensed under the Apache License, Version 2.0 <LICENSE-APACHE or
// https://www.apache.org/licenses/LICENSE-2.0> or the MIT license
// <LICENSE-MIT or https://opensource.org/licenses/MIT>, at your
// option. This file may not be copied, modified, or distributed
// except according to those terms.

#[cfg(feature="serde1")] use serde::{Serialize, Deserialize};
use rand_core::impls::fill_bytes_via_next;
use rand_core::le::read_u64_into;
use rand_core::{SeedableRng, RngCore, Error};

/// A xoshiro256++ random number generator.
///
/// The xoshiro256++ algorithm is not suitable for cryptographic purposes, but
/// is very fast and has excellent statistical properties.
///
/// The algorithm used here is translated from [the `xoshiro256plusplus.c`
/// reference source code](http://xoshiro.di.unimi.it/xoshiro256plusplus.c) by
/// David Blackman and Sebastiano Vigna.
#[derive(Debug, Clone, PartialEq, Eq)]
#[cfg_attr(feature="serde1", derive(Serialize, Deserialize))]
pub struct Xoshiro256PlusPlus {
    s: [u64; 4],
}

impl SeedableRng for Xoshiro256PlusPlus {
    type Seed = [u8; 32];

    /// Create a new `Xoshiro256PlusPlus`.  If `seed` is entirely 0, it will be
    /// mapped to a different seed.
    #[inline]
    fn from_seed(seed: [u8; 32]) -> Xoshiro256PlusPlus {
        if seed.iter().all(|&x| x == 0) {
            return Self::seed_from_u64(0);
        }
        let mut state = [0; 4];
        read_u64_into(&seed, &mut state);
        Xoshiro256PlusPlus { s: state }
    }

    /// Create a new `Xoshiro256PlusPlus` from a `u64` seed.
    ///
    /// This uses the SplitMix64 generator internally.
    fn seed_from_u64(mut state: u64) -> Self {
        const PHI: u64 = 0x9e3779b97f4a7c15;
        let mut seed = Self::Seed::default();
        for chunk in seed.as_mut().chunks_mut(8) {
            state = state.wrapping_add(PHI);
            let mut z = state;
            z = (z ^ (z >> 30)).wrapping_mul(0xbf58476d1ce4e5b9);
            z = (z ^ (z >> 27)).wrapping_mul(0x94d049bb133111eb);
            z = z ^ (z >> 31);
            chunk.copy_from_slice(&z.to_le_bytes());
        }
        Self::from_seed(seed)
    }
}

impl RngCore for Xoshiro256PlusPlus {
    #[inline]
    fn next_u32(&mut self) -> u32 {
        // The lowest bits have some linear dependencies, so we use the
        // upper bits instead.
        (self.next_u64() >> 32) as u32
    }

    #[inline]
    fn next_u64(&mut self) -> u64 {
        let result_plusplus = self.s[0]
            .wrapping_add(self.s[3])
            .rotate_left(23)
            .wrapping_add(self.s[0]);

        let t = self.s[1] << 17;

        self.s[2] ^= self.s[0];
        self.s[3] ^= self.s[1];
        self.s[1] ^= self.s[2];
        self.s[0] ^= self.s[3];

        self.s[2] ^= t;

        self.s[3] = self.s[3].rotate_left(45);

        result_plusplus
    }

    #[inline]
    fn fill_bytes(&mut self, dest: &mut [u8]) {
        fill_bytes_via_next(self, dest);
    }

    #[inline]
    fn try_fill_bytes(&mut self, dest: &mut [u8]) -> Result<(), Error> {
        self.fill_bytes(dest);
        Ok(())
    }
}

#[cfg(test)]
mod tests {
    use super::*;

    #[test]
    fn reference() {
        let mut rng = Xoshiro256PlusPlus::from_seed(
            [1, 0, 0, 0, 0, 0, 0, 0, 2, 0, 0, 0, 0, 0, 0, 0,
             3, 0, 0, 0, 0, 0, 0, 0, 4, 0, 0, 0, 0, 0, 0, 0]);
        // These values were produced with the reference implementation:
        // http://xoshiro.di.unimi.it/xoshiro256plusplus.c
        let expected = [
            41943041, 58720359, 3588806011781223, 3591011842654386,
            9228616714210784205, 9973669472204895162, 14011001112246962877,
            12406186145184390807, 15849039046786891736, 10450023813501588000,
        ];
        for &e in &expected {
            assert_eq!(rng.next_u64(), e);
        }
    }
}
