// Copyright 2018 Developers of the Rand project.
//
// Licensed under the Apache License, Version 2.0 <LICENSE-APACHE or
// https://www.apache.org/licenses/LICENSE-2.0> or the MIT license
// <LICENSE-MIT or https://opensource.org/licenses/MIT>, at your
// option. This file may not be copied, modified, or distributed
// except according to those terms.

//! A small fast RNG

use rand_core::{Error, RngCore, SeedableRng};

#[cfg(target_pointer_width = "64")]
type Rng = super::xoshiro256plusplus::Xoshiro256PlusPlus;
#[cfg(not(target_pointer_width = "64"))]
type Rng = super::xoshiro128plusplus::Xoshiro128PlusPlus;

/// A small-state, fast non-crypto PRNG
///
/// `SmallRng` may be a good choice when a PRNG with small state, cheap
/// initialization, good statistical quality and good performance are required.
/// Note that depending on the application, [`StdRng`] may be faster on many
/// modern platforms while providing higher-quality randomness. Furthermore,
/// `SmallRng` is **not** a good choice when:
/// - Security against prediction is important. Use [`StdRng`] instead.
/// - Seeds with many zeros are provided. In such cases, it takes `SmallRng`
///   about 10 samples to produce 0 and 1 bits with equal probability. Either
///   provide seeds with an approximately equal number of 0 and 1 (for example
///   by using [`SeedableRng::from_entropy`] or [`SeedableRng::seed_from_u64`]),
///   or use [`StdRng`] instead.
///
/// The algorithm is deterministic but should not be considered reproducible
/// due to dependence on platform and possible replacement in future
/// library versions. For a reproducible generator, use a named PRNG from an
/// external crate, e.g. [rand_xoshiro] or [rand_chacha].
/// Refer also to [The Book](https://rust-random.github.io/book/guide-rngs.html).
///
/// The PRNG algorithm in `SmallRng` is chosen to be efficient on the current
/// platform, without consideration for cryptography or security. The size of
/// its state is much smaller than [`StdRng`]. The current algorithm is
/// `Xoshiro256PlusPlus` on 64-bit platforms and `Xoshiro128PlusPlus` on 32-bit
/// platforms. Both are also implemented by the [rand_xoshiro] crate.
///
/// # Examples
///
/// Initializing `SmallRng` with a random seed can be done using [`SeedableRng::from_entropy`]:
///
/// ```
/// use rand::{Rng, SeedableRng};
/// use rand::rngs::SmallRng;
///
/// // Create small, cheap to initialize and fast RNG with a random seed.
/// // The randomness is supplied by the operating system.
/// let mut small_rng = SmallRng::from_entropy();
/// # let v: u32 = small_rng.gen();
/// ```
///
/// When initializing a lot of `SmallRng`'s, using [`thread_rng`] can be more
/// efficient:
///
/// ```
/// use rand::{SeedableRng, thread_rng};
/// use rand::rngs::SmallRng;
///
/// // Create a big, expensive to initialize and slower, but unpredictable RNG.
/// // This is cached and done only once per thread.
/// let mut thread_rng = thread_rng();
/// // Create small, cheap to initialize and fast RNGs with random seeds.
/// // One can generally assume this won't fail.
/// let rngs: Vec<SmallRng> = (0..10)
///     .map(|_| SmallRng::from_rng(&mut thread_rng).unwrap())
///     .collect();
/// ```
///
/// [`StdRng`]: crate::rngs::StdRng
/// [`thread_rng`]: crate::thread_rng
/// [rand_chacha]: https://crates.io/crates/rand_chacha
/// [rand_xoshiro]: https://crates.io/crates/rand_xoshiro
#[cfg_attr(docsrs, doc(cfg(feature = "small_rng")))]
#[derive(Clone, Debug, PartialEq, Eq)]
pub struct SmallRng(Rng);

impl RngCore for SmallRng {
    #[inline(always)]
    fn next_u32(&mut self) -> u32 {
        self.0.next_u32()
    }

    #[inline(always)]
    fn next_u64(&mut self) -> u64 {
        self.0.next_u64()
    }

    #[inline(always)]
    fn fill_bytes(&mut self, dest: &mut [u8]) {
        self.0.fill_bytes(dest);
    }

    #[inline(always)]
    fn try_fill_bytes(&mut self, dest: &mut [u8]) -> Result<(), Error> {
        self.0.try_fill_bytes(dest)
    }
}

impl SeedableRng for SmallRng {
    type Seed = <Rng as SeedableRng>::Seed;

    #[inline(always)]
    fn from_seed(seed: Self::Seed) -> Self {
        SmallRng(Rng::from_seed(seed))
    }

    #[inline(always)]
    fn from_rng<R: RngCore>(rng: R) -> Result<Self, Error> {
        Rng::from_rng(rng).map(SmallRng)
    }
}
