//! Deterministic shim for `rand` 0.8: every `thread_rng()` / `random()` call in
//! the code under simulation draws from a thread-local `StdRng` that the
//! simulator seeds at the start of each run (`verif_seed`). One simulated run is
//! confined to one OS thread, so parallel batch workers do not interfere.
//! Never used outside /verif/sim.

use std::cell::RefCell;

use rand_real::rngs::StdRng;

pub use rand_real::distributions;
pub use rand_real::prelude;
pub use rand_real::rngs;
pub use rand_real::seq;

pub use rand_real::{CryptoRng, Error, Fill, Rng, RngCore, SeedableRng};

thread_local!(
    static THREAD_RNG: RefCell<StdRng> = RefCell::new(StdRng::seed_from_u64(0));
    static DRAWS: std::cell::Cell<u64> = const { std::cell::Cell::new(0) };
);

/// Seed the per-thread generator. Called by the simulator at run start.
pub fn verif_seed(seed: u64) {
    THREAD_RNG.with(|t| *t.borrow_mut() = StdRng::seed_from_u64(seed));
    DRAWS.with(|d| d.set(0));
}

/// Number of `thread_rng()`/`random()` calls since the last `verif_seed`.
pub fn verif_draws() -> u64 {
    DRAWS.with(|d| d.get())
}

/// Replacement for `rand::thread_rng()`: a fresh `StdRng` forked from the
/// per-thread seeded generator.
pub fn thread_rng() -> StdRng {
    DRAWS.with(|d| d.set(d.get() + 1));
    THREAD_RNG
        .with(|t| StdRng::from_rng(&mut *t.borrow_mut()))
        .expect("StdRng::from_rng on StdRng cannot fail")
}

/// Replacement for `rand::random()`.
pub fn random<T>() -> T
where
    distributions::Standard: distributions::Distribution<T>,
{
    thread_rng().gen()
}
