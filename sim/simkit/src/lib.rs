//! simkit — deterministic-simulation kernel used by every world in /verif/sim.
//!
//! One run = one OS thread = one thread-local [`Sim`] context. Everything the
//! simulator decides goes through the recorded choice stream ([`choose`] and
//! friends; value 0 is always the benign choice), everything externally visible
//! goes through [`log`] (hash-chained into the run's trace hash), every fault
//! that actually fired through [`fault`], every oracle evaluation through
//! [`oracle`] and every property violation through [`violation`].
//!
//! Logging never draws from the PRNG and never reads a real clock.

pub mod batch;
pub mod exec;
pub mod net;
pub mod rng;
pub mod stream;

use std::cell::RefCell;
use std::collections::BTreeMap;

pub use rng::Rng;

/// One recorded simulator decision.
#[derive(Clone, Debug, PartialEq, Eq)]
pub struct Choice {
    pub label: &'static str,
    /// exclusive upper bound the value was drawn under (0 = full u64 range)
    pub n: u64,
    pub value: u64,
}

#[derive(Clone, Debug)]
pub struct Violation {
    pub property: &'static str,
    /// stable identifier of the oracle clause that failed
    pub oracle: &'static str,
    pub detail: String,
    pub event_seq: u64,
    pub time_ns: u64,
}

enum Mode {
    Random(Rng),
    Replay { rec: Vec<(String, u64)>, pos: usize },
}

pub struct Sim {
    pub seed: u64,
    pub run_index: u64,
    pub focus: &'static str,
    pub thorough: bool,
    mode: Mode,
    pub record: Vec<Choice>,
    pub nonbenign: u64,
    trace_hash: u64,
    pub events: u64,
    pub event_cap: u64,
    keep_log: bool,
    pub log: Vec<String>,
    pub faults: BTreeMap<&'static str, u64>,
    pub probes: BTreeMap<&'static str, u64>,
    pub oracle_evals: BTreeMap<&'static str, u64>,
    pub violations: Vec<Violation>,
    pub now_ns: u64,
    pub aborted: Option<String>,
    fmt_buf: String,
}

thread_local! {
    static SIM: RefCell<Option<Sim>> = const { RefCell::new(None) };
}

/// What a finished run hands back to the batch driver.
#[derive(Clone, Debug)]
pub struct RunReport {
    pub seed: u64,
    pub run_index: u64,
    pub trace_hash: u64,
    pub events: u64,
    pub sim_ns: u64,
    pub nonbenign: u64,
    pub record: Vec<Choice>,
    pub log: Vec<String>,
    pub faults: BTreeMap<&'static str, u64>,
    pub probes: BTreeMap<&'static str, u64>,
    pub oracle_evals: BTreeMap<&'static str, u64>,
    pub violations: Vec<Violation>,
    pub aborted: Option<String>,
}

#[derive(Clone, Debug)]
pub struct RunSpec {
    pub seed: u64,
    pub run_index: u64,
    pub focus: &'static str,
    pub thorough: bool,
    /// `Some` = replay this choice record instead of drawing from the PRNG
    pub replay: Option<Vec<(String, u64)>>,
    pub keep_log: bool,
    pub event_cap: u64,
}

/// Execute `world` as one simulated run on the current thread.
pub fn run_one(spec: &RunSpec, world: &dyn Fn()) -> RunReport {
    exec::install_panic_hook();
    let mode = match &spec.replay {
        Some(rec) => Mode::Replay {
            rec: rec.clone(),
            pos: 0,
        },
        None => Mode::Random(Rng::new(rng::mix(&[spec.seed, 0x63686f69]))),
    };
    let sim = Sim {
        seed: spec.seed,
        run_index: spec.run_index,
        focus: spec.focus,
        thorough: spec.thorough,
        mode,
        record: Vec::new(),
        nonbenign: 0,
        trace_hash: 0xcbf2_9ce4_8422_2325,
        events: 0,
        event_cap: spec.event_cap,
        keep_log: spec.keep_log,
        log: Vec::new(),
        faults: BTreeMap::new(),
        probes: BTreeMap::new(),
        oracle_evals: BTreeMap::new(),
        violations: Vec::new(),
        now_ns: 0,
        aborted: None,
        fmt_buf: String::new(),
    };
    SIM.with(|s| *s.borrow_mut() = Some(sim));
    rand::verif_seed(rng::mix(&[spec.seed, 0x72616e64]));

    let res = std::panic::catch_unwind(std::panic::AssertUnwindSafe(world));
    if res.is_err() {
        let msg = exec::take_panic_message();
        with(|s| {
            if s.aborted.is_none() {
                s.aborted = Some(format!("world panicked outside any node: {msg}"));
            }
        });
    }
    let sim = SIM.with(|s| s.borrow_mut().take()).expect("sim context");
    RunReport {
        seed: sim.seed,
        run_index: sim.run_index,
        trace_hash: sim.trace_hash,
        events: sim.events,
        sim_ns: sim.now_ns,
        nonbenign: sim.nonbenign,
        record: sim.record,
        log: sim.log,
        faults: sim.faults,
        probes: sim.probes,
        oracle_evals: sim.oracle_evals,
        violations: sim.violations,
        aborted: sim.aborted,
    }
}

/// Access the current run's context.
pub fn with<R>(f: impl FnOnce(&mut Sim) -> R) -> R {
    SIM.with(|s| {
        let mut b = s.borrow_mut();
        f(b.as_mut().expect("simkit call outside a simulated run"))
    })
}

pub fn in_run() -> bool {
    SIM.with(|s| s.borrow().is_some())
}

impl Sim {
    fn draw(&mut self, label: &'static str, n: u64) -> u64 {
        let v = match &mut self.mode {
            Mode::Random(rng) => {
                if n == 0 {
                    rng.next_u64()
                } else {
                    rng.below(n)
                }
            }
            Mode::Replay { rec, pos } => {
                // resynchronise on the label (a minimiser may have removed entries)
                let mut found = None;
                let end = (*pos + 16).min(rec.len());
                for (i, (l, _)) in rec.iter().enumerate().take(end).skip(*pos) {
                    if l == label {
                        found = Some(i);
                        break;
                    }
                }
                match found {
                    Some(i) => {
                        *pos = i + 1;
                        let v = rec[i].1;
                        if n != 0 && v >= n { n - 1 } else { v }
                    }
                    None => 0,
                }
            }
        };
        if v != 0 {
            self.nonbenign += 1;
        }
        self.record.push(Choice { label, n, value: v });
        v
    }
}

/// Draw a value in `0..n` (n ≥ 1). 0 is the benign choice by convention.
pub fn choose(label: &'static str, n: u64) -> u64 {
    if n <= 1 {
        return 0;
    }
    with(|s| s.draw(label, n))
}

/// Draw a full-range u64 (used to seed sub-generators for bulk data).
pub fn choose_u64(label: &'static str) -> u64 {
    with(|s| s.draw(label, 0))
}

/// True with probability `p`; false is the benign choice.
pub fn chance(label: &'static str, p: f64) -> bool {
    if p <= 0.0 {
        return false;
    }
    const R: u64 = 1 << 20;
    let thr = (p.min(1.0) * R as f64) as u64;
    let v = choose(label, R);
    v != 0 && v <= thr
}

/// Inclusive integer range; `lo` is the benign choice.
pub fn range(label: &'static str, lo: i64, hi: i64) -> i64 {
    debug_assert!(hi >= lo);
    lo + choose(label, (hi - lo) as u64 + 1) as i64
}

/// Uniform in [0,1); 0.0 is the benign choice.
pub fn unit(label: &'static str) -> f64 {
    choose(label, 1 << 30) as f64 / (1u64 << 30) as f64
}

/// Uniform float in [lo,hi); `lo` is benign.
pub fn uniform(label: &'static str, lo: f64, hi: f64) -> f64 {
    lo + (hi - lo) * unit(label)
}

/// Index drawn with the given integer weights; index 0 should be the benign one.
pub fn weighted(label: &'static str, weights: &[u32]) -> usize {
    let total: u64 = weights.iter().map(|w| *w as u64).sum();
    if total == 0 {
        return 0;
    }
    let mut v = choose(label, total);
    for (i, w) in weights.iter().enumerate() {
        if v < *w as u64 {
            return i;
        }
        v -= *w as u64;
    }
    weights.len() - 1
}

/// Pick one element of a slice.
pub fn pick<'a, T>(label: &'static str, items: &'a [T]) -> &'a T {
    &items[choose(label, items.len() as u64) as usize]
}

/// A sub-generator for bulk data (payload bytes, noise): one recorded choice.
pub fn sub_rng(label: &'static str) -> Rng {
    Rng::new(choose_u64(label))
}

/// Append an externally visible event to the run's log / trace hash.
pub fn log(args: std::fmt::Arguments<'_>) {
    with(|s| {
        use std::fmt::Write;
        let mut buf = std::mem::take(&mut s.fmt_buf);
        buf.clear();
        let _ = write!(buf, "{:>6} t={:<14} ", s.events, s.now_ns);
        let _ = buf.write_fmt(args);
        let mut h = s.trace_hash;
        for b in buf.as_bytes() {
            h ^= *b as u64;
            h = h.wrapping_mul(0x0000_0100_0000_01b3);
        }
        s.trace_hash = h;
        s.events += 1;
        if s.keep_log {
            s.log.push(buf.clone());
        }
        s.fmt_buf = buf;
    })
}

#[macro_export]
macro_rules! ev {
    ($($arg:tt)*) => { $crate::log(format_args!($($arg)*)) };
}

/// True once the run's event cap is exhausted (worlds must stop then).
pub fn out_of_budget() -> bool {
    with(|s| s.events >= s.event_cap)
}

/// A fault of this kind actually fired (not merely was configured).
pub fn fault(kind: &'static str) {
    with(|s| *s.faults.entry(kind).or_insert(0) += 1);
}

/// A rare/interesting condition was reached.
pub fn probe(name: &'static str) {
    with(|s| *s.probes.entry(name).or_insert(0) += 1);
}

/// The oracle of `property` was evaluated once (on something that could fail).
pub fn oracle(property: &'static str) {
    with(|s| *s.oracle_evals.entry(property).or_insert(0) += 1);
}

pub fn violation(property: &'static str, oracle: &'static str, detail: String) {
    ev!("VIOLATION {property} {oracle}: {detail}");
    with(|s| {
        if s.violations.len() < 64 {
            let v = Violation {
                property,
                oracle,
                detail,
                event_seq: s.events,
                time_ns: s.now_ns,
            };
            s.violations.push(v);
        }
    })
}

/// Check a property clause: counts an oracle evaluation and records a violation when false.
#[macro_export]
macro_rules! check {
    ($prop:expr, $oracle:expr, $cond:expr, $($arg:tt)*) => {{
        $crate::oracle($prop);
        if !($cond) {
            $crate::violation($prop, $oracle, format!($($arg)*));
        }
    }};
}

pub fn has_violation(property: &str) -> bool {
    with(|s| s.violations.iter().any(|v| v.property == property))
}

pub fn focus() -> &'static str {
    with(|s| s.focus)
}

pub fn thorough() -> bool {
    with(|s| s.thorough)
}

pub fn run_index() -> u64 {
    with(|s| s.run_index)
}

pub fn seed() -> u64 {
    with(|s| s.seed)
}

pub fn now_ns() -> u64 {
    with(|s| s.now_ns)
}

/// Set simulated time (worlds with their own event loop; monotone).
pub fn set_now_ns(t: u64) {
    with(|s| {
        if t > s.now_ns {
            s.now_ns = t
        }
    })
}

/// Abort the run for a reason that is not a property violation (counted in evidence).
pub fn abort(reason: String) {
    with(|s| {
        if s.aborted.is_none() {
            s.aborted = Some(reason)
        }
    })
}
