//! Simulated datagram network: a time-ordered in-flight set with seeded loss,
//! duplication, latency (jitter, heavy tail → reordering), partitions and
//! payload damage (bit flip, byte overwrite, truncation, extension). Pure data
//! structure: the world's event loop asks for the next delivery time and pops
//! due datagrams; nothing here touches a real clock or socket.

use std::cmp::Reverse;
use std::collections::{BTreeSet, BinaryHeap, HashMap};

use crate::{chance, choose, fault, range, sub_rng};

#[derive(Clone, Debug, PartialEq)]
pub enum Mutation {
    BitFlip { pos: usize, bit: u8 },
    ByteSet { pos: usize, old: u8, new: u8 },
    Truncate { old_len: usize, new_len: usize },
    Extend { old_len: usize, new_len: usize },
}

#[derive(Clone, Debug)]
pub struct Datagram<M> {
    pub id: u64,
    pub from: u32,
    pub to: u32,
    pub bytes: Vec<u8>,
    /// the bytes as sent, when `mutation` is Some
    pub original: Option<Vec<u8>>,
    pub mutation: Option<Mutation>,
    pub duplicate: bool,
    pub sent_ns: u64,
    pub meta: M,
}

#[derive(Clone, Debug)]
pub struct NetCfg {
    pub drop_p: f64,
    pub dup_p: f64,
    pub min_lat_ns: u64,
    pub jitter_ns: u64,
    pub heavy_tail_p: f64,
    pub heavy_tail_ns: u64,
    pub bitflip_p: f64,
    pub byteset_p: f64,
    pub truncate_p: f64,
    pub extend_p: f64,
    pub max_extend_to: usize,
}

impl NetCfg {
    /// Everything benign: fixed small latency, no faults.
    pub fn clean() -> NetCfg {
        NetCfg {
            drop_p: 0.0,
            dup_p: 0.0,
            min_lat_ns: 1_000_000,
            jitter_ns: 0,
            heavy_tail_p: 0.0,
            heavy_tail_ns: 0,
            bitflip_p: 0.0,
            byteset_p: 0.0,
            truncate_p: 0.0,
            extend_p: 0.0,
            max_extend_to: 4096,
        }
    }

    /// Swarm-style per-run configuration: each fault kind independently enabled
    /// (index 0 of every draw = off), rates drawn per run.
    pub fn swarm() -> NetCfg {
        let mut c = NetCfg::clean();
        let rates = [0.0, 0.01, 0.05, 0.2, 0.5];
        c.drop_p = rates[crate::weighted("net.cfg.drop", &[4, 2, 2, 1, 1])];
        c.dup_p = rates[crate::weighted("net.cfg.dup", &[4, 2, 2, 1, 1])];
        c.min_lat_ns = [1_000_000u64, 10_000, 50_000_000, 400_000_000][choose("net.cfg.lat", 4) as usize];
        c.jitter_ns = [0u64, 100_000, 20_000_000, 2_000_000_000][choose("net.cfg.jit", 4) as usize];
        if chance("net.cfg.tail", 0.3) {
            c.heavy_tail_p = 0.05;
            c.heavy_tail_ns = [3_000_000_000u64, 8_000_000_000, 70_000_000_000][choose("net.cfg.tailns", 3) as usize];
        }
        c.bitflip_p = rates[crate::weighted("net.cfg.flip", &[5, 2, 2, 1, 0])];
        c.byteset_p = rates[crate::weighted("net.cfg.bset", &[6, 2, 1, 1, 0])];
        c.truncate_p = rates[crate::weighted("net.cfg.trunc", &[6, 2, 1, 1, 0])];
        c.extend_p = rates[crate::weighted("net.cfg.ext", &[6, 2, 1, 1, 0])];
        c
    }
}

pub struct SimNet<M> {
    pub cfg: NetCfg,
    heap: BinaryHeap<Reverse<(u64, u64)>>,
    inflight: HashMap<u64, Datagram<M>>,
    seq: u64,
    /// unordered pairs (a,b), a<b, that cannot currently talk
    partitions: BTreeSet<(u32, u32)>,
    pub sent: u64,
    pub delivered: u64,
}

impl<M: Clone> SimNet<M> {
    pub fn new(cfg: NetCfg) -> SimNet<M> {
        SimNet {
            cfg,
            heap: BinaryHeap::new(),
            inflight: HashMap::new(),
            seq: 0,
            partitions: BTreeSet::new(),
            sent: 0,
            delivered: 0,
        }
    }

    pub fn partition(&mut self, a: u32, b: u32) {
        fault("net-partition");
        self.partitions.insert((a.min(b), a.max(b)));
    }

    pub fn heal_all(&mut self) {
        if !self.partitions.is_empty() {
            fault("net-heal");
        }
        self.partitions.clear();
    }

    pub fn is_partitioned(&self, a: u32, b: u32) -> bool {
        self.partitions.contains(&(a.min(b), a.max(b)))
    }

    fn latency(&self) -> u64 {
        let mut l = self.cfg.min_lat_ns;
        if self.cfg.jitter_ns > 0 {
            let j = range("net.jitter", 0, self.cfg.jitter_ns as i64) as u64;
            if j > 0 {
                fault("net-delay");
            }
            l += j;
        }
        if self.cfg.heavy_tail_p > 0.0 && chance("net.tail", self.cfg.heavy_tail_p) {
            fault("net-long-delay");
            l += self.cfg.heavy_tail_ns;
        }
        l
    }

    /// Hand a datagram to the network; its fate is decided here.
    pub fn send(&mut self, now_ns: u64, from: u32, to: u32, bytes: Vec<u8>, meta: M) {
        self.sent += 1;
        if self.is_partitioned(from, to) {
            fault("net-partition-drop");
            return;
        }
        if chance("net.drop", self.cfg.drop_p) {
            fault("net-drop");
            return;
        }
        let lat = self.latency();
        let mut d = Datagram {
            id: 0,
            from,
            to,
            bytes,
            original: None,
            mutation: None,
            duplicate: false,
            sent_ns: now_ns,
            meta,
        };
        self.damage(&mut d);
        let dup = chance("net.dup", self.cfg.dup_p);
        if dup {
            fault("net-dup");
            let mut d2 = d.clone();
            d2.duplicate = true;
            let lat2 = lat + self.latency();
            self.enqueue(now_ns + lat2, d2);
        }
        self.enqueue(now_ns + lat, d);
    }

    /// Inject a datagram at an exact delivery time with no faults (adversary, replays).
    pub fn inject(&mut self, deliver_ns: u64, d: Datagram<M>) {
        self.enqueue(deliver_ns, d);
    }

    fn enqueue(&mut self, at: u64, mut d: Datagram<M>) {
        self.seq += 1;
        d.id = self.seq;
        self.heap.push(Reverse((at, self.seq)));
        self.inflight.insert(self.seq, d);
    }

    fn damage(&self, d: &mut Datagram<M>) {
        let c = &self.cfg;
        if d.bytes.is_empty() {
            return;
        }
        if chance("net.flip", c.bitflip_p) {
            let pos = choose("net.flip.pos", d.bytes.len() as u64) as usize;
            let bit = choose("net.flip.bit", 8) as u8;
            d.original = Some(d.bytes.clone());
            d.bytes[pos] ^= 1 << bit;
            d.mutation = Some(Mutation::BitFlip { pos, bit });
            fault("net-bitflip");
        } else if chance("net.bset", c.byteset_p) {
            let pos = choose("net.bset.pos", d.bytes.len() as u64) as usize;
            let new = choose("net.bset.val", 256) as u8;
            let old = d.bytes[pos];
            if new != old {
                d.original = Some(d.bytes.clone());
                d.bytes[pos] = new;
                d.mutation = Some(Mutation::ByteSet { pos, old, new });
                fault("net-byteset");
            }
        } else if chance("net.trunc", c.truncate_p) {
            let old_len = d.bytes.len();
            let new_len = choose("net.trunc.len", old_len as u64) as usize;
            d.original = Some(d.bytes.clone());
            d.bytes.truncate(new_len);
            d.mutation = Some(Mutation::Truncate { old_len, new_len });
            fault("net-truncate");
        } else if chance("net.ext", c.extend_p) && d.bytes.len() < c.max_extend_to {
            let old_len = d.bytes.len();
            let new_len = old_len + 1 + choose("net.ext.by", (c.max_extend_to - old_len) as u64) as usize;
            let mut r = sub_rng("net.ext.bytes");
            d.original = Some(d.bytes.clone());
            let zero = chance("net.ext.zero", 0.3);
            while d.bytes.len() < new_len {
                d.bytes.push(if zero { 0 } else { r.next_u64() as u8 });
            }
            d.mutation = Some(Mutation::Extend { old_len, new_len });
            fault("net-extend");
        }
    }

    pub fn next_time(&self) -> Option<u64> {
        self.heap.peek().map(|Reverse((t, _))| *t)
    }

    pub fn pop_due(&mut self, now_ns: u64) -> Option<(u64, Datagram<M>)> {
        match self.heap.peek() {
            Some(Reverse((t, _))) if *t <= now_ns => {
                let Reverse((t, id)) = self.heap.pop().unwrap();
                self.delivered += 1;
                Some((t, self.inflight.remove(&id).expect("inflight")))
            }
            _ => None,
        }
    }

    pub fn in_flight(&self) -> usize {
        self.inflight.len()
    }
}
