//! In-memory duplex byte stream implementing tokio's AsyncRead + AsyncWrite with
//! seeded chunking (short reads / short writes), injected EOF / reset at a
//! chosen offset, write errors and byte counters.

use std::sync::{Arc, Mutex};
use std::collections::VecDeque;
use std::io;
use std::pin::Pin;
use std::task::{Context, Poll, Waker};

use tokio::io::{AsyncRead, AsyncWrite, ReadBuf};

use crate::{chance, choose, fault};

#[derive(Clone, Debug, Default)]
pub struct StreamCfg {
    /// probability that a read returns fewer bytes than available/asked
    pub short_read_p: f64,
    /// probability that a write accepts fewer bytes than offered
    pub short_write_p: f64,
    /// always deliver at most this many bytes per read (0 = unlimited)
    pub max_read_chunk: usize,
    /// the reader sees EOF after this many bytes in total (None = only when writer closes)
    pub eof_after: Option<usize>,
    /// the reader gets ConnectionReset after this many bytes
    pub reset_after: Option<usize>,
    /// the writer gets an error once this many bytes were written
    pub write_error_after: Option<usize>,
    /// probability a read spuriously returns Pending first (wakes itself)
    pub pending_p: f64,
}

#[derive(Default)]
struct Pipe {
    buf: VecDeque<u8>,
    closed: bool,
    read_waker: Option<Waker>,
    /// total bytes handed to the reader
    pub read_total: usize,
    /// total bytes accepted from the writer
    pub written_total: usize,
    cfg: StreamCfg,
}

/// One direction's counters, readable while the stream is in use.
#[derive(Clone)]
pub struct PipeProbe(Arc<Mutex<Pipe>>);

impl PipeProbe {
    pub fn read_total(&self) -> usize {
        self.0.lock().unwrap().read_total
    }
    pub fn written_total(&self) -> usize {
        self.0.lock().unwrap().written_total
    }
    pub fn buffered(&self) -> usize {
        self.0.lock().unwrap().buf.len()
    }
    pub fn closed(&self) -> bool {
        self.0.lock().unwrap().closed
    }
    /// Close the writer side from outside (peer vanished).
    pub fn close(&self) {
        let mut p = self.0.lock().unwrap();
        p.closed = true;
        if let Some(w) = p.read_waker.take() {
            w.wake();
        }
    }
    /// Push raw bytes into this direction from outside (a scripted peer).
    pub fn push(&self, bytes: &[u8]) {
        let mut p = self.0.lock().unwrap();
        p.buf.extend(bytes.iter().copied());
        p.written_total += bytes.len();
        if let Some(w) = p.read_waker.take() {
            w.wake();
        }
    }
}

/// One end of a duplex stream. Not Send: a run lives on one thread.
pub struct SimStream {
    rx: Arc<Mutex<Pipe>>,
    tx: Arc<Mutex<Pipe>>,
}


/// Create a connected pair (a, b): what `a` writes `b` reads, under `a_to_b`'s config.
pub fn duplex(a_to_b: StreamCfg, b_to_a: StreamCfg) -> (SimStream, SimStream, PipeProbe, PipeProbe) {
    let ab = Arc::new(Mutex::new(Pipe {
        cfg: a_to_b,
        ..Pipe::default()
    }));
    let ba = Arc::new(Mutex::new(Pipe {
        cfg: b_to_a,
        ..Pipe::default()
    }));
    (
        SimStream {
            rx: ba.clone(),
            tx: ab.clone(),
        },
        SimStream {
            rx: ab.clone(),
            tx: ba.clone(),
        },
        PipeProbe(ab),
        PipeProbe(ba),
    )
}

impl AsyncRead for SimStream {
    fn poll_read(self: Pin<&mut Self>, cx: &mut Context<'_>, buf: &mut ReadBuf<'_>) -> Poll<io::Result<()>> {
        let mut p = self.rx.lock().unwrap();
        if buf.remaining() == 0 {
            return Poll::Ready(Ok(()));
        }
        if let Some(k) = p.cfg.reset_after {
            if p.read_total >= k {
                fault("stream-reset");
                return Poll::Ready(Err(io::Error::new(io::ErrorKind::ConnectionReset, "simulated reset")));
            }
        }
        if let Some(k) = p.cfg.eof_after {
            if p.read_total >= k {
                fault("stream-eof-at-k");
                return Poll::Ready(Ok(()));
            }
        }
        if p.buf.is_empty() {
            if p.closed {
                return Poll::Ready(Ok(()));
            }
            p.read_waker = Some(cx.waker().clone());
            return Poll::Pending;
        }
        if p.cfg.pending_p > 0.0 && chance("stream.pending", p.cfg.pending_p) {
            fault("stream-spurious-pending");
            cx.waker().wake_by_ref();
            return Poll::Pending;
        }
        let mut n = p.buf.len().min(buf.remaining());
        if p.cfg.max_read_chunk > 0 {
            n = n.min(p.cfg.max_read_chunk);
        }
        if let Some(k) = p.cfg.eof_after {
            n = n.min(k - p.read_total);
        }
        if let Some(k) = p.cfg.reset_after {
            n = n.min(k - p.read_total);
        }
        if n > 1 && p.cfg.short_read_p > 0.0 && chance("stream.short-read", p.cfg.short_read_p) {
            n = 1 + choose("stream.short-read.n", (n - 1) as u64) as usize;
            fault("stream-short-read");
        }
        for _ in 0..n {
            let b = p.buf.pop_front().unwrap();
            buf.put_slice(&[b]);
        }
        p.read_total += n;
        Poll::Ready(Ok(()))
    }
}

impl AsyncWrite for SimStream {
    fn poll_write(self: Pin<&mut Self>, _cx: &mut Context<'_>, data: &[u8]) -> Poll<io::Result<usize>> {
        let mut p = self.tx.lock().unwrap();
        if p.closed {
            return Poll::Ready(Err(io::Error::new(io::ErrorKind::BrokenPipe, "simulated closed pipe")));
        }
        if let Some(k) = p.cfg.write_error_after {
            if p.written_total >= k {
                fault("stream-write-error");
                return Poll::Ready(Err(io::Error::new(io::ErrorKind::BrokenPipe, "simulated write error")));
            }
        }
        let mut n = data.len();
        if let Some(k) = p.cfg.write_error_after {
            n = n.min(k - p.written_total);
        }
        if n > 1 && p.cfg.short_write_p > 0.0 && chance("stream.short-write", p.cfg.short_write_p) {
            n = 1 + choose("stream.short-write.n", (n - 1) as u64) as usize;
            fault("stream-short-write");
        }
        p.buf.extend(data[..n].iter().copied());
        p.written_total += n;
        if let Some(w) = p.read_waker.take() {
            w.wake();
        }
        Poll::Ready(Ok(n))
    }

    fn poll_flush(self: Pin<&mut Self>, _cx: &mut Context<'_>) -> Poll<io::Result<()>> {
        Poll::Ready(Ok(()))
    }

    fn poll_shutdown(self: Pin<&mut Self>, _cx: &mut Context<'_>) -> Poll<io::Result<()>> {
        let mut p = self.tx.lock().unwrap();
        p.closed = true;
        if let Some(w) = p.read_waker.take() {
            w.wake();
        }
        Poll::Ready(Ok(()))
    }
}

impl Drop for SimStream {
    fn drop(&mut self) {
        let mut p = self.tx.lock().unwrap();
        p.closed = true;
        if let Some(w) = p.read_waker.take() {
            w.wake();
        }
    }
}
