//! Seeded task multiplexer on top of a paused-clock, current-thread tokio runtime.
//!
//! The components of a world are *not* `tokio::spawn`ed: one root future owns
//! every simulated task as a boxed child with its own wake flag, and on each
//! turn picks the next runnable child through the recorded choice stream.
//! Each child poll runs under `catch_unwind`, so a panicking node is recorded
//! as a crash instead of killing the run. When no child is runnable the root
//! returns `Pending`; tokio then auto-advances its paused clock to the next
//! timer — a discrete-event engine for free.

use std::cell::RefCell;
use std::future::Future;
use std::pin::Pin;
use std::sync::atomic::{AtomicBool, Ordering};
use std::sync::{Arc, Mutex, Once};
use std::task::{Context, Poll, Wake, Waker};

use crate::{choose, ev, with};

pub type TaskId = usize;

struct WakeFlag {
    ready: AtomicBool,
    root: Mutex<Option<Waker>>,
}

impl Wake for WakeFlag {
    fn wake(self: Arc<Self>) {
        self.wake_by_ref();
    }
    fn wake_by_ref(self: &Arc<Self>) {
        self.ready.store(true, Ordering::SeqCst);
        if let Some(w) = self.root.lock().unwrap().as_ref() {
            w.wake_by_ref();
        }
    }
}

struct Task {
    name: String,
    fut: Option<Pin<Box<dyn Future<Output = ()>>>>,
    flag: Arc<WakeFlag>,
    /// set when the task ended by panicking
    crashed: Option<String>,
    /// a crash of this task ends the run (default) or is just recorded
    critical: bool,
}

#[derive(Default)]
struct ExecState {
    tasks: Vec<Task>,
    spawn_queue: Vec<(String, Pin<Box<dyn Future<Output = ()>>>, bool)>,
    kill_queue: Vec<TaskId>,
    next_id: usize,
    stop: bool,
    start: Option<tokio::time::Instant>,
    crashes: Vec<(String, String)>,
}

thread_local! {
    static EXEC: RefCell<ExecState> = RefCell::new(ExecState::default());
    static PANIC_MSG: RefCell<Option<String>> = const { RefCell::new(None) };
    static QUIET: std::cell::Cell<bool> = const { std::cell::Cell::new(true) };
}

static HOOK: Once = Once::new();

/// Install a process-wide panic hook that stores the message in a thread-local
/// (for crash reports) instead of printing it.
pub fn install_panic_hook() {
    HOOK.call_once(|| {
        let default = std::panic::take_hook();
        std::panic::set_hook(Box::new(move |info| {
            let msg = if let Some(s) = info.payload().downcast_ref::<&str>() {
                (*s).to_string()
            } else if let Some(s) = info.payload().downcast_ref::<String>() {
                s.clone()
            } else {
                "<non-string panic>".to_string()
            };
            let loc = info
                .location()
                .map(|l| format!("{}:{}", l.file(), l.line()))
                .unwrap_or_default();
            PANIC_MSG.with(|p| *p.borrow_mut() = Some(format!("{msg} @ {loc}")));
            if std::env::var("VERIF_BACKTRACE").is_ok() {
                eprintln!("panic: {msg} @ {loc}\n{}", std::backtrace::Backtrace::force_capture());
            }
            if !QUIET.with(|q| q.get()) || !crate::in_run() {
                default(info);
            }
        }));
    });
}

pub fn set_quiet_panics(q: bool) {
    QUIET.with(|c| c.set(q));
}

pub fn take_panic_message() -> String {
    PANIC_MSG
        .with(|p| p.borrow_mut().take())
        .unwrap_or_else(|| "<unknown panic>".into())
}

/// Run `f` catching a panic; returns Err(message) on panic. For synchronous
/// worlds that call node code directly.
pub fn catch<R>(f: impl FnOnce() -> R) -> Result<R, String> {
    match std::panic::catch_unwind(std::panic::AssertUnwindSafe(f)) {
        Ok(r) => Ok(r),
        Err(_) => Err(take_panic_message()),
    }
}

/// Spawn a simulated task (from the world setup or from inside another task).
pub fn spawn(name: impl Into<String>, fut: impl Future<Output = ()> + 'static) -> TaskId {
    spawn_opt(name, fut, true)
}

/// Spawn a task whose crash does not end the run (it is logged and recorded).
pub fn spawn_noncritical(name: impl Into<String>, fut: impl Future<Output = ()> + 'static) -> TaskId {
    spawn_opt(name, fut, false)
}

fn spawn_opt(name: impl Into<String>, fut: impl Future<Output = ()> + 'static, critical: bool) -> TaskId {
    EXEC.with(|e| {
        let mut e = e.borrow_mut();
        let id = e.next_id;
        e.next_id += 1;
        e.spawn_queue.push((name.into(), Box::pin(fut), critical));
        id
    })
}

/// Kill a task (a "crash" of that node): its future is dropped at the next turn.
pub fn kill(id: TaskId) {
    EXEC.with(|e| e.borrow_mut().kill_queue.push(id));
}

/// Ask the multiplexer to finish the run.
pub fn stop() {
    EXEC.with(|e| e.borrow_mut().stop = true);
}

/// Crashes (task name, panic message) recorded so far in this run.
pub fn crashes() -> Vec<(String, String)> {
    EXEC.with(|e| e.borrow().crashes.clone())
}

/// True once any task of this run has panicked.
pub fn has_crashed() -> bool {
    EXEC.with(|e| !e.borrow().crashes.is_empty())
}

pub fn task_alive(id: TaskId) -> bool {
    EXEC.with(|e| {
        let e = e.borrow();
        match e.tasks.get(id) {
            Some(t) => t.fut.is_some(),
            // still waiting in the spawn queue
            None => id < e.next_id,
        }
    })
}

/// Simulated nanoseconds since the run's runtime started.
pub fn elapsed_ns() -> u64 {
    EXEC.with(|e| {
        e.borrow()
            .start
            .map(|s| (tokio::time::Instant::now() - s).as_nanos() as u64)
            .unwrap_or(0)
    })
}

pub fn start_instant() -> tokio::time::Instant {
    EXEC.with(|e| e.borrow().start.expect("runtime not started"))
}

struct Root {
    /// run ends when this (the world's driver task, id 0) completes, or on stop()
    main: TaskId,
}

impl Future for Root {
    type Output = ();

    fn poll(self: Pin<&mut Self>, cx: &mut Context<'_>) -> Poll<()> {
        loop {
            // admit newly spawned tasks, apply kills
            let mut doomed: Vec<Pin<Box<dyn Future<Output = ()>>>> = Vec::new();
            let (stop, main_done) = EXEC.with(|e| {
                let mut e = e.borrow_mut();
                let q: Vec<_> = e.spawn_queue.drain(..).collect();
                for (name, fut, critical) in q {
                    e.tasks.push(Task {
                        name,
                        fut: Some(fut),
                        flag: Arc::new(WakeFlag {
                            ready: AtomicBool::new(true),
                            root: Mutex::new(None),
                        }),
                        crashed: None,
                        critical,
                    });
                }
                let kills: Vec<_> = e.kill_queue.drain(..).collect();
                for k in kills {
                    if let Some(t) = e.tasks.get_mut(k) {
                        if let Some(f) = t.fut.take() {
                            doomed.push(f);
                        }
                    }
                }
                let main_done = e.tasks.get(self.main).map(|t| t.fut.is_none()).unwrap_or(false);
                (e.stop, main_done)
            });
            // destructors may call spawn()/kill(): run them outside the borrow
            let had_doomed = !doomed.is_empty();
            drop(doomed);
            if had_doomed {
                continue;
            }
            if stop || main_done {
                // drop all remaining tasks outside the borrow
                let rest: Vec<_> = EXEC.with(|e| {
                    e.borrow_mut()
                        .tasks
                        .iter_mut()
                        .filter_map(|t| t.fut.take())
                        .collect()
                });
                drop(rest);
                return Poll::Ready(());
            }
            if crate::out_of_budget() {
                crate::probe("event-cap-hit");
                let rest: Vec<_> = EXEC.with(|e| {
                    e.borrow_mut()
                        .tasks
                        .iter_mut()
                        .filter_map(|t| t.fut.take())
                        .collect()
                });
                drop(rest);
                return Poll::Ready(());
            }

            let runnable: Vec<TaskId> = EXEC.with(|e| {
                let e = e.borrow();
                e.tasks
                    .iter()
                    .enumerate()
                    .filter(|(_, t)| t.fut.is_some() && t.flag.ready.load(Ordering::SeqCst))
                    .map(|(i, _)| i)
                    .collect()
            });
            if runnable.is_empty() {
                // register the root waker with every live child flag, then park
                EXEC.with(|e| {
                    for t in e.borrow().tasks.iter().filter(|t| t.fut.is_some()) {
                        *t.flag.root.lock().unwrap() = Some(cx.waker().clone());
                    }
                });
                // re-check: a wake may have raced (single-threaded, so only via nested polls)
                let any = EXEC.with(|e| {
                    e.borrow()
                        .tasks
                        .iter()
                        .any(|t| t.fut.is_some() && t.flag.ready.load(Ordering::SeqCst))
                });
                if any {
                    continue;
                }
                return Poll::Pending;
            }
            let idx = if runnable.len() == 1 {
                0
            } else {
                choose("sched", runnable.len() as u64) as usize
            };
            let id = runnable[idx];
            let (mut fut, flag, name) = EXEC.with(|e| {
                let mut e = e.borrow_mut();
                let t = &mut e.tasks[id];
                t.flag.ready.store(false, Ordering::SeqCst);
                (t.fut.take().unwrap(), t.flag.clone(), t.name.clone())
            });
            let now = elapsed_ns();
            with(|s| s.now_ns = s.now_ns.max(now));
            if runnable.len() > 1 && idx != 0 {
                with(|s| *s.faults.entry("sched-nonfifo").or_insert(0) += 1);
            }
            let waker = Waker::from(flag.clone());
            let mut child_cx = Context::from_waker(&waker);
            let res = std::panic::catch_unwind(std::panic::AssertUnwindSafe(|| {
                fut.as_mut().poll(&mut child_cx)
            }));
            match res {
                Ok(Poll::Pending) => {
                    EXEC.with(|e| {
                        let mut e = e.borrow_mut();
                        // the task may have been killed while running (self-kill)
                        e.tasks[id].fut = Some(fut);
                    });
                }
                Ok(Poll::Ready(())) => {
                    drop(fut);
                    ev!("task-exit {name}");
                }
                Err(_) => {
                    let msg = take_panic_message();
                    // the future is poisoned; drop it (catching secondary panics in Drop)
                    let _ = std::panic::catch_unwind(std::panic::AssertUnwindSafe(move || drop(fut)));
                    ev!("crash task={name} msg={msg}");
                    let critical = EXEC.with(|e| {
                        let mut e = e.borrow_mut();
                        e.tasks[id].crashed = Some(msg.clone());
                        e.crashes.push((name.clone(), msg.clone()));
                        e.tasks[id].critical
                    });
                    if critical {
                        EXEC.with(|e| e.borrow_mut().stop = true);
                    }
                }
            }
        }
    }
}

/// Build the paused-clock runtime, run `main` as task 0 under the multiplexer
/// until it completes (or `stop()` / event cap), then tear everything down.
pub fn block_on(main: impl Future<Output = ()> + 'static) {
    let seed = crate::seed();
    EXEC.with(|e| *e.borrow_mut() = ExecState::default());
    let rt = tokio::runtime::Builder::new_current_thread()
        .enable_time()
        .start_paused(true)
        .rng_seed(tokio::runtime::RngSeed::from_bytes(&seed.to_le_bytes()))
        .build()
        .expect("tokio runtime");
    rt.block_on(async move {
        EXEC.with(|e| e.borrow_mut().start = Some(tokio::time::Instant::now()));
        let main_id = spawn("main", main);
        Root { main: main_id }.await;
        let now = elapsed_ns();
        with(|s| s.now_ns = s.now_ns.max(now));
    });
    drop(rt);
    EXEC.with(|e| {
        let mut e = e.borrow_mut();
        e.tasks.clear();
        e.spawn_queue.clear();
    });
}

/// Yield to the multiplexer once (a scheduling point).
pub async fn yield_now() {
    struct Y(bool);
    impl Future for Y {
        type Output = ();
        fn poll(mut self: Pin<&mut Self>, cx: &mut Context<'_>) -> Poll<()> {
            if self.0 {
                Poll::Ready(())
            } else {
                self.0 = true;
                cx.waker().wake_by_ref();
                Poll::Pending
            }
        }
    }
    Y(false).await
}

/// Sleep for simulated time.
pub async fn sleep_ns(ns: u64) {
    tokio::time::sleep(std::time::Duration::from_nanos(ns)).await
}
