//! Batch driver: seeded search over runs on all cores, minimisation, replay
//! files, evidence files, known findings and the command-line interface that
//! every world binary shares.
//!
//! Exit codes: 0 = property held on everything explored, 1 = violation (with a
//! `VIOLATION property=<id> replay=<path>` line), 2 = harness error.

use std::collections::{BTreeMap, HashSet};
use std::sync::atomic::{AtomicBool, AtomicU64, Ordering};
use std::sync::Mutex;
use std::time::Instant;

use serde_json::{json, Value};

use crate::rng::{fnv1a, mix};
use crate::{run_one, RunReport, RunSpec, Violation};

#[derive(Clone, Copy, Debug, PartialEq)]
pub enum Level {
    Exploration,
    FaultEnumeration,
}

impl Level {
    fn as_str(self) -> &'static str {
        match self {
            Level::Exploration => "exploration",
            Level::FaultEnumeration => "fault_enumeration",
        }
    }
}

#[derive(Clone)]
pub struct Property {
    pub id: &'static str,
    pub level: Level,
    pub quick_runs: u64,
    pub thorough_runs: u64,
    /// wall-clock caps (seconds) per tier; the run count is the primary bound
    pub quick_wall_s: f64,
    pub thorough_wall_s: f64,
    pub event_cap: u64,
    /// `Some(f)`: the run index enumerates a finite fault space of size f(thorough)
    /// completely (the world maps run_index → case); evidence says exhaustive.
    pub enumerate: Option<fn(bool) -> u64>,
    pub rule: &'static str,
    pub assumptions: &'static [&'static str],
}

impl Property {
    pub fn exploration(id: &'static str, quick_runs: u64, thorough_runs: u64, rule: &'static str) -> Property {
        Property {
            id,
            level: Level::Exploration,
            quick_runs,
            thorough_runs,
            quick_wall_s: 100.0,
            thorough_wall_s: 900.0,
            event_cap: 50_000,
            enumerate: None,
            rule,
            assumptions: &[],
        }
    }
}

pub struct WorldDef {
    pub name: &'static str,
    /// one simulated run; reads focus/run_index/thorough from the simkit context
    pub run: fn(),
    pub properties: Vec<Property>,
    pub real_components: &'static [&'static str],
    pub stub_components: &'static [&'static str],
}

fn verif_dir() -> String {
    std::env::var("VERIF_DIR").unwrap_or_else(|_| "/verif".to_string())
}

fn batch_seed() -> u64 {
    std::env::var("VERIF_SEED")
        .ok()
        .and_then(|s| s.trim().parse::<i64>().ok())
        .map(|v| v as u64)
        .unwrap_or(1)
}

fn workers() -> usize {
    std::env::var("VERIF_WORKERS")
        .ok()
        .and_then(|s| s.parse().ok())
        .unwrap_or_else(|| std::thread::available_parallelism().map(|n| n.get()).unwrap_or(4))
        .max(1)
}

pub fn run_seed(world: &str, prop: &str, index: u64) -> u64 {
    mix(&[batch_seed(), fnv1a(world), fnv1a(prop), index])
}

#[derive(Clone, Debug)]
struct Known {
    property: String,
    oracle: String,
    detail_contains: Option<String>,
    description: String,
}

fn load_known() -> Result<Vec<Known>, String> {
    let path = format!("{}/known_findings.json", verif_dir());
    let Ok(text) = std::fs::read_to_string(&path) else {
        return Ok(vec![]);
    };
    let v: Value = serde_json::from_str(&text).map_err(|e| format!("{path}: {e}"))?;
    let mut out = vec![];
    if let Some(arr) = v.get("findings").and_then(|f| f.as_array()) {
        for f in arr {
            out.push(Known {
                property: f["property"].as_str().unwrap_or("").to_string(),
                oracle: f["oracle"].as_str().unwrap_or("").to_string(),
                detail_contains: f.get("detail_contains").and_then(|d| d.as_str()).map(|s| s.to_string()),
                description: f["description"].as_str().unwrap_or("").to_string(),
            });
        }
    }
    Ok(out)
}

fn known_match<'a>(known: &'a [Known], v: &Violation) -> Option<&'a Known> {
    known.iter().find(|k| {
        k.property == v.property
            && k.oracle == v.oracle
            && k.detail_contains.as_ref().map(|d| v.detail.contains(d.as_str())).unwrap_or(true)
    })
}

#[derive(Default)]
struct Agg {
    evaluations: u64,
    oracle_runs: u64,
    nontrivial: HashSet<u64>,
    all_hashes: HashSet<u64>,
    faults: BTreeMap<&'static str, u64>,
    probes: BTreeMap<&'static str, u64>,
    oracle_evals: BTreeMap<&'static str, u64>,
    sim_ns: u128,
    events: u64,
    aborted: u64,
    abort_samples: Vec<String>,
    other_violations: BTreeMap<String, u64>,
    known_hits: BTreeMap<String, u64>,
    samples: Vec<Value>,
}

impl Agg {
    fn merge(&mut self, o: Agg) {
        self.evaluations += o.evaluations;
        self.oracle_runs += o.oracle_runs;
        self.nontrivial.extend(o.nontrivial);
        self.all_hashes.extend(o.all_hashes);
        for (k, v) in o.faults {
            *self.faults.entry(k).or_insert(0) += v;
        }
        for (k, v) in o.probes {
            *self.probes.entry(k).or_insert(0) += v;
        }
        for (k, v) in o.oracle_evals {
            *self.oracle_evals.entry(k).or_insert(0) += v;
        }
        self.sim_ns += o.sim_ns;
        self.events += o.events;
        self.aborted += o.aborted;
        for s in o.abort_samples {
            if self.abort_samples.len() < 5 {
                self.abort_samples.push(s);
            }
        }
        for (k, v) in o.other_violations {
            *self.other_violations.entry(k).or_insert(0) += v;
        }
        for (k, v) in o.known_hits {
            *self.known_hits.entry(k).or_insert(0) += v;
        }
        self.samples.extend(o.samples);
    }
}

fn spec_for(world: &WorldDef, prop: &Property, index: u64, thorough: bool, keep_log: bool) -> RunSpec {
    RunSpec {
        seed: run_seed(world.name, prop.id, index),
        run_index: index,
        focus: prop.id,
        thorough,
        replay: None,
        keep_log,
        event_cap: prop.event_cap,
    }
}

fn sample_of(r: &RunReport, prop: &str) -> Value {
    let faults: Vec<String> = r.faults.iter().map(|(k, v)| format!("{k}x{v}")).collect();
    let head: Vec<&String> = r.log.iter().take(14).collect();
    let tail: Vec<&String> = if r.log.len() > 20 { r.log.iter().skip(r.log.len() - 6).collect() } else { vec![] };
    json!({
        "run_index": r.run_index,
        "seed": r.seed,
        "trace_hash": format!("{:016x}", r.trace_hash),
        "events": r.events,
        "simulated_seconds": r.sim_ns as f64 / 1e9,
        "choices": r.record.len(),
        "nonbenign_choices": r.nonbenign,
        "oracle_evaluations": r.oracle_evals.get(prop).copied().unwrap_or(0),
        "faults_fired": faults,
        "first_events": head,
        "last_events": tail,
    })
}

struct Found {
    report: RunReport,
    violation: Violation,
}

/// Run the batch; returns (aggregate, first unlisted violation if any).
fn run_batch(world: &WorldDef, prop: &Property, thorough: bool, known: &[Known]) -> (Agg, Option<Found>, f64, bool) {
    let space = prop.enumerate.map(|f| f(thorough));
    let n = space.unwrap_or(if thorough { prop.thorough_runs } else { prop.quick_runs });
    let wall_cap = if thorough { prop.thorough_wall_s } else { prop.quick_wall_s };
    let wall_cap = std::env::var("VERIF_WALL_S").ok().and_then(|s| s.parse().ok()).unwrap_or(wall_cap);
    let n = std::env::var("VERIF_RUNS").ok().and_then(|s| s.parse().ok()).unwrap_or(n);
    let next = AtomicU64::new(0);
    let stop = AtomicBool::new(false);
    let found: Mutex<Vec<Found>> = Mutex::new(vec![]);
    let total: Mutex<Agg> = Mutex::new(Agg::default());
    let start = Instant::now();
    let timed_out = AtomicBool::new(false);

    std::thread::scope(|sc| {
        for _ in 0..workers() {
            sc.spawn(|| {
                let mut agg = Agg::default();
                loop {
                    if stop.load(Ordering::Relaxed) {
                        break;
                    }
                    let i = next.fetch_add(1, Ordering::Relaxed);
                    if i >= n {
                        break;
                    }
                    if start.elapsed().as_secs_f64() > wall_cap {
                        timed_out.store(true, Ordering::Relaxed);
                        break;
                    }
                    let keep = i < 3;
                    let spec = spec_for(world, prop, i, thorough, keep);
                    let r = run_one(&spec, &world.run);
                    agg.evaluations += 1;
                    agg.events += r.events;
                    agg.sim_ns += r.sim_ns as u128;
                    let evals = r.oracle_evals.get(prop.id).copied().unwrap_or(0);
                    agg.all_hashes.insert(r.trace_hash);
                    if evals > 0 {
                        agg.oracle_runs += 1;
                        let faulty = r.faults.values().any(|v| *v > 0) || r.nonbenign > 0;
                        if faulty || prop.enumerate.is_some() {
                            agg.nontrivial.insert(r.trace_hash);
                        }
                    }
                    for (k, v) in &r.faults {
                        *agg.faults.entry(k).or_insert(0) += v;
                    }
                    for (k, v) in &r.probes {
                        *agg.probes.entry(k).or_insert(0) += v;
                    }
                    for (k, v) in &r.oracle_evals {
                        *agg.oracle_evals.entry(k).or_insert(0) += v;
                    }
                    if let Some(a) = &r.aborted {
                        agg.aborted += 1;
                        if agg.abort_samples.len() < 3 {
                            agg.abort_samples.push(format!("run {i}: {a}"));
                        }
                    }
                    if keep {
                        agg.samples.push(sample_of(&r, prop.id));
                    }
                    let mut hit: Option<Violation> = None;
                    for v in &r.violations {
                        if v.property != prop.id {
                            *agg.other_violations.entry(format!("{}:{}", v.property, v.oracle)).or_insert(0) += 1;
                            continue;
                        }
                        if let Some(k) = known_match(known, v) {
                            *agg.known_hits.entry(format!("{} {}", k.oracle, k.description)).or_insert(0) += 1;
                            continue;
                        }
                        if hit.is_none() {
                            hit = Some(v.clone());
                        }
                    }
                    if let Some(v) = hit {
                        found.lock().unwrap().push(Found { report: r, violation: v });
                        stop.store(true, Ordering::Relaxed);
                    }
                }
                total.lock().unwrap().merge(agg);
            });
        }
    });
    let mut found = found.into_inner().unwrap();
    found.sort_by_key(|f| f.report.run_index);
    let mut agg = total.into_inner().unwrap();
    agg.samples.sort_by_key(|s| s["run_index"].as_u64().unwrap_or(0));
    let complete = !timed_out.load(Ordering::Relaxed) && found.is_empty() && agg.evaluations >= n;
    (agg, found.into_iter().next(), start.elapsed().as_secs_f64(), complete && space.is_some())
}

fn replay_spec(base: &RunSpec, rec: &[(String, u64)], keep_log: bool) -> RunSpec {
    RunSpec {
        replay: Some(rec.to_vec()),
        keep_log,
        ..base.clone()
    }
}

fn same_class(r: &RunReport, property: &str, oracle: &str, known: &[Known]) -> bool {
    r.violations
        .iter()
        .any(|v| v.property == property && v.oracle == oracle && known_match(known, v).is_none())
}

/// Delta-debug the choice record: delete chunks, zero values, lower values;
/// keep a candidate iff the same (property, oracle) class still fires.
fn minimise(world: &WorldDef, base: &RunSpec, start: Vec<(String, u64)>, property: &str, oracle: &str, known: &[Known]) -> (Vec<(String, u64)>, u64) {
    let budget_runs: u64 = 3000;
    let deadline = Instant::now() + std::time::Duration::from_secs(40);
    let mut runs = 0u64;
    let mut cur = start;
    let mut try_candidate = |cand: &Vec<(String, u64)>, runs: &mut u64| -> Option<Vec<(String, u64)>> {
        if *runs >= budget_runs || Instant::now() > deadline {
            return None;
        }
        *runs += 1;
        let r = run_one(&replay_spec(base, cand, false), &world.run);
        if same_class(&r, property, oracle, known) {
            // normalise to the effective stream, cut after what was consumed
            let eff: Vec<(String, u64)> = r.record.iter().map(|c| (c.label.to_string(), c.value)).collect();
            Some(eff)
        } else {
            None
        }
    };
    // 0. trim trailing zeros (implicit anyway)
    // 1. chunk deletion
    let mut chunk = (cur.len() / 2).max(1);
    while chunk >= 1 {
        let mut i = 0;
        let mut progress = false;
        while i < cur.len() {
            let end = (i + chunk).min(cur.len());
            let mut cand = cur.clone();
            cand.drain(i..end);
            if let Some(eff) = try_candidate(&cand, &mut runs) {
                if eff.len() < cur.len() || eff.iter().filter(|c| c.1 != 0).count() < cur.iter().filter(|c| c.1 != 0).count() {
                    cur = eff;
                    progress = true;
                    continue;
                }
            }
            i += chunk;
        }
        if chunk == 1 && !progress {
            break;
        }
        if !progress {
            chunk /= 2;
        }
        if runs >= budget_runs || Instant::now() > deadline {
            break;
        }
    }
    // 2. zero, then halve, individual non-zero values
    let mut i = 0;
    while i < cur.len() {
        if cur[i].1 != 0 {
            let mut cand = cur.clone();
            cand[i].1 = 0;
            if let Some(eff) = try_candidate(&cand, &mut runs) {
                cur = eff;
                continue;
            }
            let mut v = cur[i].1;
            while v > 1 {
                let mut cand = cur.clone();
                cand[i].1 = v / 2;
                match try_candidate(&cand, &mut runs) {
                    Some(eff) if eff.len() == cur.len() || i < eff.len() => {
                        cur = eff;
                        if i >= cur.len() {
                            break;
                        }
                        v = cur[i].1;
                    }
                    _ => break,
                }
            }
        }
        i += 1;
        if runs >= budget_runs || Instant::now() > deadline {
            break;
        }
    }
    // strip trailing zero choices: replay supplies 0 after exhaustion
    while cur.last().map(|c| c.1 == 0).unwrap_or(false) {
        cur.pop();
    }
    (cur, runs)
}

fn write_replay(world: &WorldDef, prop: &Property, thorough: bool, f: &Found, known: &[Known]) -> Result<String, String> {
    let base = RunSpec {
        seed: f.report.seed,
        run_index: f.report.run_index,
        focus: prop.id,
        thorough,
        replay: None,
        keep_log: false,
        event_cap: prop.event_cap,
    };
    let original: Vec<(String, u64)> = f.report.record.iter().map(|c| (c.label.to_string(), c.value)).collect();
    // sanity: the unminimised record must reproduce
    let r0 = run_one(&replay_spec(&base, &original, false), &world.run);
    if !same_class(&r0, f.violation.property, f.violation.oracle, known) || r0.trace_hash != f.report.trace_hash {
        return Err(format!(
            "harness error: run {} (seed {}) did not replay from its own choice record (hash {:016x} vs {:016x})",
            f.report.run_index, f.report.seed, r0.trace_hash, f.report.trace_hash
        ));
    }
    let (min, min_runs) = minimise(world, &base, original.clone(), f.violation.property, f.violation.oracle, known);
    let rf = run_one(&replay_spec(&base, &min, true), &world.run);
    let (rec, rfinal) = if same_class(&rf, f.violation.property, f.violation.oracle, known) {
        (min, rf)
    } else {
        (original.clone(), run_one(&replay_spec(&base, &original, true), &world.run))
    };
    let v = rfinal
        .violations
        .iter()
        .find(|v| v.property == f.violation.property && v.oracle == f.violation.oracle && known_match(known, v).is_none())
        .cloned()
        .unwrap_or_else(|| f.violation.clone());
    let dir = format!("{}/replays", verif_dir());
    std::fs::create_dir_all(&dir).map_err(|e| e.to_string())?;
    let path = format!("{dir}/{}-{}.json", prop.id, f.report.seed);
    let nonzero: Vec<Value> = rec
        .iter()
        .enumerate()
        .filter(|(_, c)| c.1 != 0)
        .map(|(i, c)| json!({"at": i, "label": c.0, "value": c.1}))
        .collect();
    let faults: Vec<String> = rfinal.faults.iter().map(|(k, v)| format!("{k}x{v}")).collect();
    let doc = json!({
        "property": prop.id,
        "world": world.name,
        "seed": f.report.seed,
        "run_index": f.report.run_index,
        "thorough": thorough,
        "event_cap": prop.event_cap,
        "violation": {"oracle": v.oracle, "detail": v.detail, "event_seq": v.event_seq, "time_ns": v.time_ns},
        "trace_hash": format!("{:016x}", rfinal.trace_hash),
        "original_choices": original.len(),
        "minimised_choices": rec.len(),
        "minimiser_runs": min_runs,
        "non_benign_decisions": nonzero,
        "faults_fired": faults,
        "choices": rec.iter().map(|c| json!([c.0, c.1])).collect::<Vec<_>>(),
        "event_log": rfinal.log,
    });
    std::fs::write(&path, serde_json::to_string_pretty(&doc).unwrap()).map_err(|e| e.to_string())?;
    Ok(path)
}

fn write_evidence(world: &WorldDef, prop: &Property, thorough: bool, agg: &Agg, wall: f64, violations: u64, exhaustive: bool) -> Result<(), String> {
    let dir = format!("{}/evidence", verif_dir());
    std::fs::create_dir_all(&dir).map_err(|e| e.to_string())?;
    let hours = (wall / 3600.0).max(1e-9);
    let mut assumptions: Vec<String> = prop.assumptions.iter().map(|s| s.to_string()).collect();
    assumptions.push("seeded search samples schedules/faults; a clean batch is evidence, not proof".into());
    let doc = json!({
        "property_id": prop.id,
        "tier": if thorough { "thorough" } else { "quick" },
        "seed": batch_seed() as i64,
        "level": prop.level.as_str(),
        "coverage": {
            "evaluations": agg.evaluations,
            "distinct_nontrivial": agg.nontrivial.len(),
            "rule": format!("{} | distinct = distinct run trace hash (FNV chain over every logged event); non-trivial = the run evaluated this property's oracle at least once AND (fired at least one fault or took at least one non-benign simulator decision{})", prop.rule, if prop.enumerate.is_some() { ", or is one case of the enumerated fault space" } else { "" }),
            "samples": agg.samples,
            "exhaustive": exhaustive,
            "world": world.name,
            "runs_with_oracle_evaluated": agg.oracle_runs,
            "oracle_evaluations": agg.oracle_evals.get(prop.id).copied().unwrap_or(0),
            "oracle_evaluations_all_properties": agg.oracle_evals,
            "distinct_trace_hashes_all_runs": agg.all_hashes.len(),
            "simulated_seconds_total": agg.sim_ns as f64 / 1e9,
            "events_total": agg.events,
            "runs_per_hour": agg.evaluations as f64 / hours,
            "seeds_per_hour": agg.evaluations as f64 / hours,
            "faults_fired": agg.faults,
            "reach_probes": agg.probes,
            "aborted_runs": agg.aborted,
            "aborted_samples": agg.abort_samples,
            "other_property_violations_seen": agg.other_violations,
            "known_finding_hits": agg.known_hits,
            "workers": workers(),
            "components_real": world.real_components,
            "components_stubbed": world.stub_components,
        },
        "assumptions": assumptions,
        "wall_s": wall,
        "violations": violations,
    });
    let path = format!("{dir}/{}.json", prop.id);
    std::fs::write(&path, serde_json::to_string_pretty(&doc).unwrap()).map_err(|e| e.to_string())
}

fn cmd_check(world: &WorldDef, prop: &Property, thorough: bool) -> i32 {
    let known = match load_known() {
        Ok(k) => k,
        Err(e) => {
            eprintln!("harness error: {e}");
            return 2;
        }
    };
    println!("VERIF_SEED={} world={} property={} tier={}", batch_seed() as i64, world.name, prop.id, if thorough { "thorough" } else { "quick" });
    let (agg, found, wall, exhaustive) = run_batch(world, prop, thorough, &known);
    for (k, n) in &agg.known_hits {
        println!("KNOWN-FINDING: property={} {} (hit in {} runs)", prop.id, k, n);
    }
    let violations = if found.is_some() { 1 } else { 0 };
    if let Err(e) = write_evidence(world, prop, thorough, &agg, wall, violations, exhaustive) {
        eprintln!("harness error: cannot write evidence: {e}");
        return 2;
    }
    println!(
        "runs={} distinct_nontrivial={} oracle_evals={} sim_seconds={:.0} wall={:.1}s aborted={}",
        agg.evaluations,
        agg.nontrivial.len(),
        agg.oracle_evals.get(prop.id).copied().unwrap_or(0),
        agg.sim_ns as f64 / 1e9,
        wall,
        agg.aborted
    );
    if agg.evaluations > 0 && agg.aborted * 2 > agg.evaluations {
        eprintln!("harness error: more than half of the runs aborted: {:?}", agg.abort_samples);
        return 2;
    }
    match found {
        None => {
            if agg.oracle_evals.get(prop.id).copied().unwrap_or(0) == 0 {
                eprintln!("harness error: the oracle of {} was never evaluated", prop.id);
                return 2;
            }
            println!("OK property={} held on everything explored", prop.id);
            0
        }
        Some(f) => match write_replay(world, prop, thorough, &f, &known) {
            Ok(path) => {
                println!("violation: {} {}: {}", f.violation.property, f.violation.oracle, f.violation.detail);
                println!("VIOLATION property={} replay={}", prop.id, path);
                1
            }
            Err(e) => {
                eprintln!("{e}");
                2
            }
        },
    }
}

fn leak(s: &str) -> &'static str {
    Box::leak(s.to_string().into_boxed_str())
}

fn cmd_replay(world: &WorldDef, path: &str) -> i32 {
    let text = match std::fs::read_to_string(path) {
        Ok(t) => t,
        Err(e) => {
            eprintln!("harness error: {path}: {e}");
            return 2;
        }
    };
    let v: Value = match serde_json::from_str(&text) {
        Ok(v) => v,
        Err(e) => {
            eprintln!("harness error: {path}: {e}");
            return 2;
        }
    };
    if v["world"].as_str() != Some(world.name) {
        eprintln!("harness error: replay file is for world {:?}, this binary is {}", v["world"], world.name);
        return 2;
    }
    let prop_id = v["property"].as_str().unwrap_or("");
    let Some(prop) = world.properties.iter().find(|p| p.id == prop_id) else {
        eprintln!("harness error: unknown property {prop_id}");
        return 2;
    };
    let rec: Vec<(String, u64)> = v["choices"]
        .as_array()
        .map(|a| a.iter().map(|c| (c[0].as_str().unwrap_or("").to_string(), c[1].as_u64().unwrap_or(0))).collect())
        .unwrap_or_default();
    let spec = RunSpec {
        seed: v["seed"].as_u64().unwrap_or(0),
        run_index: v["run_index"].as_u64().unwrap_or(0),
        focus: prop.id,
        thorough: v["thorough"].as_bool().unwrap_or(false),
        replay: Some(rec),
        keep_log: true,
        event_cap: v["event_cap"].as_u64().unwrap_or(prop.event_cap),
    };
    let r = run_one(&spec, &world.run);
    let oracle = v["violation"]["oracle"].as_str().unwrap_or("");
    if std::env::var("VERIF_VERBOSE").is_ok() {
        for l in &r.log {
            println!("{l}");
        }
    }
    let want_hash = v["trace_hash"].as_str().unwrap_or("");
    let got_hash = format!("{:016x}", r.trace_hash);
    match r.violations.iter().find(|x| x.property == prop.id && x.oracle == oracle) {
        Some(x) => {
            println!("replayed: {} {}: {}", x.property, x.oracle, x.detail);
            if want_hash == got_hash {
                println!("trace hash {got_hash} identical to the recorded run");
            } else {
                println!("note: trace hash {got_hash} differs from recorded {want_hash} (the code under test changed since the file was written)");
            }
            println!("VIOLATION property={} replay={}", prop.id, path);
            1
        }
        None => {
            println!("replay of {path}: violation {oracle} did NOT reproduce (trace hash {got_hash}, recorded {want_hash})");
            0
        }
    }
}

fn cmd_hashes(world: &WorldDef, prop: &Property, thorough: bool, n: u64) -> i32 {
    let next = AtomicU64::new(0);
    let out: Mutex<Vec<(u64, u64, u64, u64)>> = Mutex::new(vec![]);
    std::thread::scope(|sc| {
        for _ in 0..workers() {
            sc.spawn(|| loop {
                let i = next.fetch_add(1, Ordering::Relaxed);
                if i >= n {
                    break;
                }
                let t0 = Instant::now();
                let r = run_one(&spec_for(world, prop, i, thorough, false), &world.run);
                let ms = t0.elapsed().as_millis();
                if std::env::var("VERIF_SLOW_MS").ok().and_then(|v| v.parse::<u128>().ok()).map(|lim| ms > lim).unwrap_or(false) {
                    eprintln!("slow run {i}: {ms} ms, {} events, {} choices, sim {} s", r.events, r.record.len(), r.sim_ns / 1_000_000_000);
                }
                out.lock().unwrap().push((i, r.seed, r.trace_hash, r.events));
            });
        }
    });
    let mut out = out.into_inner().unwrap();
    out.sort();
    for (i, s, h, e) in out {
        println!("{i} {s} {h:016x} {e}");
    }
    0
}

/// Determinism proof: the same seeds in separate processes at 1 and N workers must
/// give identical trace hashes.
fn cmd_determinism(world: &WorldDef, prop: &Property, n: u64) -> i32 {
    let exe = std::env::current_exe().expect("current_exe");
    let run = |w: &str| -> Result<String, String> {
        let o = std::process::Command::new(&exe)
            .args(["hashes", prop.id, "quick", &n.to_string()])
            .env("VERIF_WORKERS", w)
            .output()
            .map_err(|e| e.to_string())?;
        if !o.status.success() {
            return Err(format!("child failed: {}", String::from_utf8_lossy(&o.stderr)));
        }
        Ok(String::from_utf8_lossy(&o.stdout).to_string())
    };
    let nw = workers().to_string();
    let (a, b, c) = match (run("1"), run(&nw), run("3")) {
        (Ok(a), Ok(b), Ok(c)) => (a, b, c),
        (a, b, c) => {
            eprintln!("harness error: {:?} {:?} {:?}", a.err(), b.err(), c.err());
            return 2;
        }
    };
    let mut bad = 0;
    for ((la, lb), lc) in a.lines().zip(b.lines()).zip(c.lines()) {
        if la != lb || la != lc {
            bad += 1;
            if bad <= 5 {
                eprintln!("DIVERGED: [{la}] vs [{lb}] vs [{lc}]");
            }
        }
    }
    if bad > 0 || a.lines().count() as u64 != n {
        eprintln!("harness error: determinism self-test failed for {} ({bad} of {n} seeds diverged)", prop.id);
        return 2;
    }
    println!("determinism ok: {} {} seeds x 3 processes (1, 3, {nw} workers) identical", prop.id, n);
    0
}

fn cmd_trace(world: &WorldDef, prop: &Property, thorough: bool, index: u64) -> i32 {
    let r = run_one(&spec_for(world, prop, index, thorough, true), &world.run);
    for l in &r.log {
        println!("{l}");
    }
    println!("-- seed {} hash {:016x} events {} faults {:?} probes {:?} aborted {:?}", r.seed, r.trace_hash, r.events, r.faults, r.probes, r.aborted);
    for v in &r.violations {
        println!("-- violation {} {}: {}", v.property, v.oracle, v.detail);
    }
    0
}

pub fn cli_main(world: WorldDef) -> ! {
    crate::exec::install_panic_hook();
    let args: Vec<String> = std::env::args().collect();
    let usage = || -> ! {
        eprintln!("usage: {} check <prop> quick|thorough | replay <file> | hashes <prop> <tier> <n> | determinism <prop> <n> | trace <prop> <tier> <index> | list", world.name);
        std::process::exit(2)
    };
    let find = |id: &str| -> &Property {
        match world.properties.iter().find(|p| p.id == id) {
            Some(p) => p,
            None => {
                eprintln!("harness error: world {} does not decide {id}", world.name);
                std::process::exit(2)
            }
        }
    };
    let tier = |s: &str| match s {
        "quick" => false,
        "thorough" => true,
        _ => usage(),
    };
    let code = match args.get(1).map(|s| s.as_str()) {
        Some("check") if args.len() >= 4 => cmd_check(&world, find(&args[2]), tier(&args[3])),
        Some("replay") if args.len() >= 3 => cmd_replay(&world, &args[2]),
        Some("hashes") if args.len() >= 5 => cmd_hashes(&world, find(&args[2]), tier(&args[3]), args[4].parse().unwrap_or(100)),
        Some("determinism") if args.len() >= 4 => cmd_determinism(&world, find(&args[2]), args[3].parse().unwrap_or(200)),
        Some("trace") if args.len() >= 5 => cmd_trace(&world, find(&args[2]), tier(&args[3]), args[4].parse().unwrap_or(0)),
        Some("list") => {
            for p in &world.properties {
                println!("{} {}", p.id, world.name);
            }
            0
        }
        _ => usage(),
    };
    std::process::exit(code)
}
