//! Exploration runs for C19, C23 and C26 (and the node-level half of C25):
//! NTS client sessions <-> SimNet <-> real servers with rotating key sets.
//!
//! Ground truth: every request the harness (or a real NtpSource) puts on the
//! wire is recorded with what the harness knows about it (which cookie, issued
//! by whom at which rotation epoch, how many cookie/placeholder fields, whether
//! the authenticator is genuine); every in-flight datagram carries provenance,
//! so that at delivery time the oracle knows whether the request can possibly
//! authenticate under the server's key set *as the rotation model says it is now*.

use std::cmp::Reverse;
use std::collections::{BTreeMap, BinaryHeap};
use std::net::{IpAddr, Ipv4Addr, SocketAddr};
use std::sync::atomic::{AtomicU64, Ordering};
use std::sync::Arc;

use ntp_proto::verif::keyset::{self as fk, SessionKeys};
use ntp_proto::verif::packet::{NoCipher, RequestIdentifier};
use ntp_proto::{
    Measurement, NtpAssociationMode, NtpPacket, NtpSource, NtpSourceAction, ObservableSourceTimedata,
    PollInterval, PollIntervalLimits, ServerResponse, SourceConfig, SourceController,
};
use simkit::net::{Datagram, Mutation, NetCfg, SimNet};
use simkit::{chance, check, choose, ev, fault, probe, weighted};

use crate::adv;
use crate::node::{client_ip, mint_keys, CookieState, Handled, Policy, PolicyModel, ServerNode};
use crate::req::{self, Built, Layout, Pick, SimPick};
use crate::wire::{self, Region, RegionMap, RespKind, T_AUTH, T_COOKIE, T_PLACEHOLDER, T_UID};

const SRV_NODE: u32 = 100;
const ADV_NODE: u32 = 99;
const ADV_IP: IpAddr = IpAddr::V4(Ipv4Addr::new(10, 0, 0, 250));

#[derive(Clone, Debug)]
enum Meta {
    Request { sess: usize, req: u64 },
    Response { sess: usize, req: u64, resp: u64 },
    /// adversary-built; `keyed`: built with session keys the peer legitimately holds
    Forged { sess: Option<usize>, keyed: bool },
}

#[derive(Clone, Debug)]
struct CookieRec {
    bytes: Vec<u8>,
    keys: SessionKeys,
    server: usize,
    /// rotation epoch of the issuing server when it was issued
    epoch: u64,
}

#[derive(Clone)]
enum CookieTruth {
    /// genuine cookie made from `keys` (not necessarily the keys of the session that presents it)
    Issued { server: usize, epoch: u64, keys: SessionKeys },
    Tampered,
    Garbage,
}

impl std::fmt::Debug for CookieTruth {
    fn fmt(&self, f: &mut std::fmt::Formatter<'_>) -> std::fmt::Result {
        match self {
            // never print key material
            CookieTruth::Issued { server, epoch, keys } => write!(f, "Issued(server {server}, epoch {epoch}, alg {})", keys.alg),
            CookieTruth::Tampered => write!(f, "Tampered"),
            CookieTruth::Garbage => write!(f, "Garbage"),
        }
    }
}

#[derive(Clone, Debug)]
struct ReqRec {
    sess: usize,
    to: usize,
    built: Built,
    cookie: CookieTruth,
    ident: Option<RequestIdentifier>,
}

#[derive(Clone, Debug)]
struct RespRec {
    /// the server produced it for an authentic request and the harness verified it under s2c
    authentic_time: bool,
    fresh: Vec<CookieRec>,
}

struct RecCtl {
    n: Arc<AtomicU64>,
    poll: PollInterval,
}

impl SourceController for RecCtl {
    fn handle_measurement(&mut self, _m: Measurement) {
        self.n.fetch_add(1, Ordering::SeqCst);
    }
    fn set_usable(&mut self, _usable: bool) {}
    fn desired_poll_interval(&self) -> PollInterval {
        self.poll
    }
    fn observe(&self) -> ObservableSourceTimedata {
        ObservableSourceTimedata::default()
    }
}

enum Kind {
    /// harness-driven NTS client (stock and hand-built layouts, chooses which cookie to present)
    Hand,
    /// real ntp_proto::NtpSource with NTS data
    RealNts(Box<NtpSource<RecCtl>>),
    /// real ntp_proto::NtpSource without NTS (the "no keys" receive path)
    RealPlain(Box<NtpSource<RecCtl>>),
    Stopped,
}

struct Pending {
    req: u64,
    origin: [u8; 8],
    uid: Vec<u8>,
    ident: Option<RequestIdentifier>,
}

struct Sess {
    id: usize,
    keys: SessionKeys,
    v5: bool,
    home: usize,
    kind: Kind,
    bag: Vec<CookieRec>,
    pending: Option<Pending>,
    measured: Arc<AtomicU64>,
    /// last request the real source sent (for provenance of what it accepts)
    last_req: Option<u64>,
    remints: u32,
    force_oldest: bool,
    /// every cookie ever issued to this session: bytes -> (server, epoch)
    issued: BTreeMap<Vec<u8>, (usize, u64)>,
}

#[derive(Clone, Copy, Debug, PartialEq, Eq, PartialOrd, Ord)]
enum Ev {
    Rotate(usize),
    Restart(usize),
    Poll(usize),
    Adversary,
}

struct World {
    servers: Vec<ServerNode>,
    sess: Vec<Sess>,
    net: SimNet<Meta>,
    timers: BinaryHeap<Reverse<(u64, u64, Ev)>>,
    seq: u64,
    reqs: BTreeMap<u64, ReqRec>,
    resps: BTreeMap<u64, RespRec>,
    next_id: u64,
    ledger: Vec<Vec<CookieRec>>,
    polls_left: u64,
    poll_gap_ns: u64,
    rot_period_ns: Vec<u64>,
    faults: bool,
    adversary: bool,
    /// (client, server, heal when server epoch reaches this)
    partition: Option<(usize, usize, u64)>,
    seen_reqs: Vec<(usize, u64, Vec<u8>)>,
    seen_resps: Vec<(usize, u64, u64, Vec<u8>)>,
    tamper_done: bool,
    adv_ticks: u32,
    /// size of the servers' receive buffer (the daemon's is 1024; the protocol code has no limit)
    srv_rx_cap: usize,
}

fn srv_node(i: usize) -> u32 {
    SRV_NODE + i as u32
}

fn rx_limit(bytes: &[u8]) -> &[u8] {
    // the daemon's receive buffers are 1024 bytes
    &bytes[..bytes.len().min(1024)]
}

impl World {
    fn at(&mut self, t: u64, e: Ev) {
        self.seq += 1;
        self.timers.push(Reverse((t, self.seq, e)));
    }

    fn id(&mut self) -> u64 {
        self.next_id += 1;
        self.next_id
    }

    fn remember_cookie(&mut self, rec: CookieRec) {
        let l = &mut self.ledger[rec.server];
        if l.len() >= 48 {
            let i = choose("ledger.evict", l.len() as u64) as usize;
            l.swap_remove(i);
        }
        l.push(rec);
    }

    fn mint(&mut self, keys: &SessionKeys, server: usize) -> Option<CookieRec> {
        let ks = self.servers[server].keyset();
        let bytes = fk::encode_cookie(&ks, keys)?;
        let rec = CookieRec { bytes, keys: keys.clone(), server, epoch: self.servers[server].epoch };
        // C26: what was just encoded decodes to exactly the keys it was made from
        let back = fk::decode_cookie(&ks, &rec.bytes);
        check!("C26", "c26-roundtrip", back.as_ref() == Some(keys), "fresh cookie of server {server} at epoch {} does not decode to its keys", rec.epoch);
        self.check_newest(server, &rec.bytes, "minted");
        self.remember_cookie(rec.clone());
        Some(rec)
    }

    /// C26: a cookie issued now is under the newest key (model: the id of the newest key is the rotation count)
    fn check_newest(&mut self, server: usize, cookie: &[u8], what: &str) {
        let s = &self.servers[server];
        let v = s.view();
        let id = if cookie.len() >= 4 { u32::from_be_bytes(cookie[0..4].try_into().unwrap()) } else { u32::MAX };
        let newest = v.id_offset.wrapping_add(v.n_keys as u32 - 1);
        check!(
            "C26",
            "c26-fresh-cookie-not-under-newest-key",
            id == newest && id == s.epoch as u32 && v.primary as usize == v.n_keys - 1,
            "{what} cookie of server {server} at epoch {} carries key id {id}, newest key id is {newest} (keys {} primary {} offset {})",
            s.epoch,
            v.n_keys,
            v.primary,
            v.id_offset
        );
        check!(
            "C26",
            "c26-keyset-size",
            v.n_keys == s.live.len(),
            "server {server} epoch {} history {} holds {} keys",
            s.epoch,
            s.history,
            v.n_keys
        );
    }

    // ---------------------------------------------------------------- rotation + ledger sweep

    fn rotate(&mut self, si: usize) {
        self.servers[si].rotate();
        let epoch = self.servers[si].epoch;
        fault("key-rotate");
        ev!("rotate server={si} epoch={epoch} history={}", self.servers[si].history);
        self.ledger_sweep(si, "after rotation");
        // drop long-expired records
        self.ledger[si].retain(|r| epoch - r.epoch <= 11);
        if !self.tamper_done || chance("tamper.again", 0.15) {
            self.tamper_sweep(si);
        }
        if let Some((c, s, heal)) = self.partition {
            if s == si && epoch >= heal {
                self.net.heal_all();
                self.partition = None;
                self.sess[c].force_oldest = true;
                ev!("heal client={c} server={si} epoch={epoch}");
            }
        }
    }

    /// C26: every recorded cookie against the real key set, judged by the window model
    fn ledger_sweep(&self, si: usize, when: &str) {
        let ks = self.servers[si].keyset();
        let srv = &self.servers[si];
        for owner in 0..self.ledger.len() {
            for rec in self.ledger[owner].iter() {
                let got = fk::decode_cookie(&ks, &rec.bytes);
                if owner != si {
                    check!("C26", "c26-foreign-cookie-decodes", got.is_none(), "{when}: cookie of server {owner} (epoch {}) decodes under server {si}", rec.epoch);
                    continue;
                }
                match srv.model_state(rec.epoch) {
                    CookieState::Valid => check!(
                        "C26",
                        "c26-valid-cookie-does-not-decode",
                        got.as_ref() == Some(&rec.keys),
                        "{when}: server {si} epoch {} history {} restarts {} keys {:?}: cookie issued at epoch {} decodes to {}",
                        srv.epoch,
                        srv.history,
                        srv.restarts,
                        srv.live,
                        rec.epoch,
                        if got.is_some() { "other keys" } else { "nothing" }
                    ),
                    CookieState::Invalid => {
                        probe("c26-rotation-beyond-history");
                        check!(
                            "C26",
                            "c26-expired-cookie-decodes",
                            got.is_none(),
                            "{when}: server {si} epoch {} history {} restarts {} keys {:?}: cookie issued at epoch {} still decodes",
                            srv.epoch,
                            srv.history,
                            srv.restarts,
                            srv.live,
                            rec.epoch
                        );
                    }
                    CookieState::Either => {
                        probe("c26-stale-key-lingers-after-history-shrink");
                        // whatever it does, it must not yield other keys
                        check!("C26", "c26-cookie-decodes-to-other-keys", got.is_none() || got.as_ref() == Some(&rec.keys), "{when}: lingering cookie of epoch {} decodes to other keys", rec.epoch);
                    }
                }
            }
        }
    }

    /// daemon restart of server `si`: store -> load under a possibly different stale-key-count
    fn restart(&mut self, si: usize) {
        let old = self.servers[si].history;
        let new = [old, 0, 1, 2, 5, 8][choose("restart.history", 6) as usize];
        if !self.servers[si].restart(new) {
            simkit::abort(format!("server {si}: stored key set does not load"));
            return;
        }
        fault("server-restart");
        if new < old {
            fault("history-shrink");
        } else if new > old {
            fault("history-grow");
        }
        ev!("restart server={si} epoch={} history {old} -> {new} keys={:?}", self.servers[si].epoch, self.servers[si].live);
        let v = self.servers[si].view();
        check!(
            "C26",
            "c26-keyset-changed-by-restart",
            v.n_keys == self.servers[si].live.len() && v.primary as usize == v.n_keys - 1 && v.id_offset.wrapping_add(v.primary) == self.servers[si].epoch as u32,
            "server {si} after store/load: {} keys primary {} offset {}, model keys {:?}",
            v.n_keys,
            v.primary,
            v.id_offset,
            self.servers[si].live
        );
        self.ledger_sweep(si, "after restart");
    }

    /// C26: every byte modification within the cookie's length fails to decode
    fn tamper_sweep(&mut self, si: usize) {
        let valid: Vec<usize> = (0..self.ledger[si].len()).filter(|i| self.servers[si].model_valid(self.ledger[si][*i].epoch)).collect();
        if valid.is_empty() {
            return;
        }
        self.tamper_done = true;
        let rec = self.ledger[si][valid[choose("tamper.which", valid.len() as u64) as usize]].clone();
        let ks = self.servers[si].keyset();
        let mut r = simkit::sub_rng("tamper.bits");
        let all_bits = simkit::thorough();
        for pos in 0..rec.bytes.len() {
            let mut vals: Vec<u8> = if all_bits {
                (0..8).map(|b| rec.bytes[pos] ^ (1 << b)).collect()
            } else {
                vec![rec.bytes[pos] ^ (1 << r.below(8))]
            };
            let v = r.next_u64() as u8;
            if v != rec.bytes[pos] {
                vals.push(v);
            }
            for v in vals {
                let mut c = rec.bytes.clone();
                c[pos] = v;
                let got = fk::decode_cookie(&ks, &c);
                check!(
                    "C26",
                    "c26-tampered-cookie-decodes",
                    got.is_none(),
                    "cookie of {} bytes with byte {pos} changed {:#04x} -> {v:#04x} still decodes (server {si} epoch {})",
                    rec.bytes.len(),
                    rec.bytes[pos],
                    self.servers[si].epoch
                );
            }
        }
        // truncated / extended copies are not "the cookie": the declared ciphertext length decides
        let mut longer = rec.bytes.clone();
        longer.extend_from_slice(&[0, 0, 0, 0]);
        let got = fk::decode_cookie(&ks, &longer);
        check!("C26", "c26-padded-cookie-decodes-to-other-keys", got.is_none() || got.as_ref() == Some(&rec.keys), "cookie with trailing padding decodes to different keys");
        // confidentiality: neither the session keys nor a master key show up in the cookie bytes
        let view = self.servers[si].view();
        let leak = wire::find_sub(&rec.bytes, &rec.keys.c2s[..16])
            || wire::find_sub(&rec.bytes, &rec.keys.s2c[..16])
            || view.keys.iter().any(|k| wire::find_sub(&rec.bytes, &k[..16]));
        check!("C26", "c26-key-material-in-cookie", !leak, "cookie bytes contain key material in clear");
        probe("c26-tamper-sweep");
    }

    // ---------------------------------------------------------------- clients

    fn pick_cookie(&mut self, c: usize) -> Option<(Vec<u8>, CookieTruth)> {
        let to = self.sess[c].home;
        if self.sess[c].bag.is_empty() {
            return None;
        }
        let force_oldest = std::mem::take(&mut self.sess[c].force_oldest);
        let strat = if force_oldest { 1 } else if self.faults { weighted("cookie.strategy", &[10, 4, 3, 2, 2, 1, 1]) } else { weighted("cookie.strategy", &[10, 4, 3]) };
        let bag = &self.sess[c].bag;
        let own = |r: &CookieRec| CookieTruth::Issued { server: r.server, epoch: r.epoch, keys: r.keys.clone() };
        match strat {
            0 => {
                let r = bag.last().unwrap();
                Some((r.bytes.clone(), own(r)))
            }
            1 => {
                let r = bag.iter().min_by_key(|r| r.epoch).unwrap();
                if !self.servers[to].model_valid(r.epoch) {
                    probe("c26-expired-cookie-presented");
                }
                Some((r.bytes.clone(), own(r)))
            }
            2 => {
                let r = &bag[choose("cookie.which", bag.len() as u64) as usize];
                Some((r.bytes.clone(), own(r)))
            }
            3 => {
                // modified copy of a good cookie
                let r = &bag[choose("cookie.which", bag.len() as u64) as usize];
                let mut b = r.bytes.clone();
                let pos = choose("cookie.tamper_pos", b.len() as u64) as usize;
                b[pos] ^= 1 << choose("cookie.tamper_bit", 8);
                fault("cookie-tampered");
                Some((b, CookieTruth::Tampered))
            }
            4 => {
                // a cookie of somebody else: other server's key set, or another session of this server
                let pool: Vec<&CookieRec> = self.ledger.iter().flatten().filter(|r| r.keys != self.sess[c].keys || r.server != to).collect();
                if pool.is_empty() {
                    return None;
                }
                let r = pool[choose("cookie.foreign", pool.len() as u64) as usize];
                fault("cookie-foreign");
                Some((r.bytes.clone(), CookieTruth::Issued { server: r.server, epoch: r.epoch, keys: r.keys.clone() }))
            }
            5 => {
                let n = [104usize, 168, 22, 21, 0, 300][choose("cookie.garbage_len", 6) as usize];
                fault("cookie-garbage");
                Some((SimPick.bytes("cookie.garbage", n), CookieTruth::Garbage))
            }
            _ => {
                // genuine header (key id, length) of a good cookie, foreign body
                let r = &bag[choose("cookie.which", bag.len() as u64) as usize];
                let mut b = r.bytes.clone();
                let fill = SimPick.bytes("cookie.body", b.len());
                b[6..].copy_from_slice(&fill[6..]);
                fault("cookie-forged-body");
                Some((b, CookieTruth::Tampered))
            }
        }
    }

    fn poll_hand(&mut self, c: usize, now: u64) {
        let Some((cookie, truth)) = self.pick_cookie(c) else {
            return;
        };
        let keys = self.sess[c].keys.clone();
        let v5 = self.sess[c].v5;
        let mut l = if chance("lay.random", 0.7) { Layout::random(&mut SimPick, v5, self.faults) } else { Layout::plain(v5) };
        let wrong = match self.sess.iter().find(|s| s.id != c && s.keys.alg == keys.alg) {
            Some(o) => o.keys.c2s.clone(),
            None => keys.s2c.clone(),
        };
        let mut built = None;
        for _ in 0..4 {
            match req::build(&mut SimPick, &keys, &cookie, &l, &wrong) {
                Some(b) if b.bytes.len() <= self.srv_rx_cap.min(1800) => {
                    built = Some(b);
                    break;
                }
                _ => {
                    l.placeholders /= 2;
                    l.enc.clear();
                    l.more_auths.clear();
                    l.placeholder_abs = l.placeholder_abs.map(|n| n.min(64));
                    l.extra_auth_after = 0;
                    l.extra_auth_before = 0;
                    l.trailing_untrusted = 0;
                    l.placeholder_delta = l.placeholder_delta.min(0);
                }
            }
        }
        let Some(built) = built else {
            return;
        };
        let to = self.sess[c].home;
        let id = self.id();
        ev!(
            "send-req sess={c} req={id} to={to} v{} len={} builder={} fields={} cookies={} genuine_auth={} cookie={truth:?}",
            if v5 { 5 } else { 4 },
            built.bytes.len(),
            if built.real_builder { "repo" } else { "own" },
            built.cookie_field_lens.len(),
            built.cookies_before_auth,
            built.auth_genuine
        );
        if built.n_auth >= 2 {
            if let CookieTruth::Issued { keys: ck, .. } = &truth {
                let (n, ok) = wire::authenticators(&built.bytes, ck.alg, &ck.c2s);
                if ok < n {
                    // decoder level: one failing authenticator among several => not reported as authentic
                    let ks = self.servers[to].keyset();
                    let bytes = built.bytes.clone();
                    let r = simkit::exec::catch(|| match NtpPacket::deserialize(&bytes, ks.as_ref()) {
                        Ok((p, c)) => {
                            let v = p.verif_ef_view();
                            (true, v.authenticated.len(), v.encrypted.len(), c.is_some())
                        }
                        Err(_) => (false, 0, 0, false),
                    });
                    match r {
                        Ok((parsed_ok, a, e, ck)) => check!(
                            "C25",
                            "c25-failing-authenticator-among-several-reported-authentic",
                            !parsed_ok || (a == 0 && e == 0 && !ck),
                            "request with {n} authenticator fields of which {ok} verify decodes as authentic under the server's keys ({a} authenticated, {e} encrypted fields, cookie keys {ck})"
                        ),
                        Err(m) => simkit::violation("C23", "c23-panic-server-keys", format!("multi-authenticator request of {} bytes: {m}", bytes.len())),
                    }
                }
            }
        }
        self.sess[c].pending = Some(Pending { req: id, origin: built.origin, uid: built.uid.clone(), ident: built.ident });
        self.keep_req(c, id, &built.bytes);
        self.net.send(now, c as u32, srv_node(to), built.bytes.clone(), Meta::Request { sess: c, req: id });
        self.reqs.insert(id, ReqRec { sess: c, to, built, cookie: truth, ident: None });
    }

    fn keep_req(&mut self, c: usize, id: u64, bytes: &[u8]) {
        if self.adversary {
            if self.seen_reqs.len() >= 8 {
                self.seen_reqs.remove(0);
            }
            self.seen_reqs.push((c, id, bytes.to_vec()));
        }
    }

    /// ground truth of a request a real NtpSource put on the wire, read with the harness's own walker
    fn truth_of_real_request(&self, c: usize, bytes: &[u8]) -> (Built, CookieTruth) {
        let w = wire::walk(bytes);
        let ai = w.fields.iter().position(|f| f.type_id == T_AUTH).unwrap_or(w.fields.len());
        let mut lens = vec![];
        let mut cookies = 0;
        let mut cookie = vec![];
        let mut uid = vec![];
        for f in &w.fields[..ai] {
            match f.type_id {
                T_COOKIE => {
                    cookies += 1;
                    lens.push(f.len - 4);
                    cookie = f.body(bytes).to_vec();
                }
                T_PLACEHOLDER => lens.push(f.len - 4),
                T_UID => uid = f.body(bytes).to_vec(),
                _ => {}
            }
        }
        let truth = match self.sess[c].issued.get(&cookie) {
            Some((server, epoch)) => CookieTruth::Issued { server: *server, epoch: *epoch, keys: self.sess[c].keys.clone() },
            None => CookieTruth::Garbage,
        };
        let built = Built {
            bytes: bytes.to_vec(),
            v5: w.version == 5,
            cookie_field_lens: lens,
            cookies_before_auth: cookies,
            auth_genuine: ai < w.fields.len(),
            auth_key: if ai < w.fields.len() { Some(self.sess[c].keys.c2s.clone()) } else { None },
            n_auth: w.fields.iter().filter(|f| f.type_id == T_AUTH).count(),
            nonce_len: 16,
            uid,
            origin: wire::origin_of_request(bytes),
            real_builder: true,
            ident: None,
        };
        (built, truth)
    }

    fn poll_real(&mut self, c: usize, now: u64) {
        let res = match &mut self.sess[c].kind {
            Kind::RealNts(s) | Kind::RealPlain(s) => simkit::exec::catch(|| s.handle_timer().collect::<Vec<NtpSourceAction>>()),
            _ => return,
        };
        match res {
            Ok(a) => self.apply_actions(c, now, a),
            Err(m) => {
                ev!("crash source {c} in handle_timer: {m}");
                self.sess[c].kind = Kind::Stopped;
            }
        }
    }

    fn apply_actions(&mut self, c: usize, now: u64, actions: Vec<NtpSourceAction>) {
        let nts = matches!(self.sess[c].kind, Kind::RealNts(_));
        for a in actions {
            match a {
                NtpSourceAction::Send(bytes) => {
                    let to = self.sess[c].home;
                    let id = self.id();
                    if nts {
                        let (built, truth) = self.truth_of_real_request(c, &bytes);
                        ev!("send-req sess={c} req={id} to={to} real-source len={} fields={} cookie={truth:?}", bytes.len(), built.cookie_field_lens.len());
                        self.reqs.insert(id, ReqRec { sess: c, to, built, cookie: truth, ident: None });
                        self.keep_req(c, id, &bytes);
                    } else {
                        ev!("send-req sess={c} req={id} to={to} plain-source len={}", bytes.len());
                    }
                    self.sess[c].last_req = Some(id);
                    self.net.send(now, c as u32, srv_node(to), bytes, Meta::Request { sess: c, req: id });
                }
                NtpSourceAction::SetTimer(d) => {
                    if self.polls_left > 0 {
                        self.polls_left -= 1;
                        self.at(now + d.as_nanos() as u64, Ev::Poll(c));
                    }
                }
                NtpSourceAction::Reset | NtpSourceAction::Demobilize => {
                    ev!("source {c} asks for reset/demobilize");
                    probe("source-reset");
                    self.sess[c].kind = Kind::Stopped;
                    if nts && self.sess[c].remints < 2 {
                        // a new key exchange: new cookies under the server's current key set, same session keys
                        self.sess[c].remints += 1;
                        self.start_real_nts(c, now);
                    }
                }
            }
        }
    }

    fn start_real_nts(&mut self, c: usize, now: u64) {
        let keys = self.sess[c].keys.clone();
        let home = self.sess[c].home;
        let n = 1 + choose("real.cookies", 8) as usize;
        let mut cookies = vec![];
        for _ in 0..n {
            if let Some(r) = self.mint(&keys, home) {
                self.sess[c].issued.insert(r.bytes.clone(), (r.server, r.epoch));
                cookies.push(r.bytes);
            }
        }
        let poll = PollInterval::from_byte(1 + choose("real.poll", 3) as u8);
        let cfg = SourceConfig { poll_interval_limits: PollIntervalLimits { min: PollInterval::from_byte(0), max: PollInterval::from_byte(6) }, initial_poll_interval: poll };
        let ctl = RecCtl { n: self.sess[c].measured.clone(), poll };
        let addr = SocketAddr::new(IpAddr::V4(Ipv4Addr::new(10, 1, 0, home as u8 + 1)), 123);
        if let Some((src, actions)) = ntp_proto::verif::packet::new_nts_source(addr, cfg, self.sess[c].v5, ctl, cookies, keys.alg, &keys.c2s, &keys.s2c) {
            self.sess[c].kind = Kind::RealNts(Box::new(src));
            let a: Vec<_> = actions.collect();
            self.polls_left += 1;
            self.apply_actions(c, now, a);
        }
    }

    fn start_real_plain(&mut self, c: usize, now: u64) {
        let home = self.sess[c].home;
        let poll = PollInterval::from_byte(1 + choose("real.poll", 3) as u8);
        let cfg = SourceConfig { poll_interval_limits: PollIntervalLimits { min: PollInterval::from_byte(0), max: PollInterval::from_byte(6) }, initial_poll_interval: poll };
        let ctl = RecCtl { n: self.sess[c].measured.clone(), poll };
        let addr = SocketAddr::new(IpAddr::V4(Ipv4Addr::new(10, 1, 0, home as u8 + 1)), 123);
        let (src, actions) = ntp_proto::verif::packet::new_plain_source(addr, cfg, self.sess[c].v5, ctl);
        self.sess[c].kind = Kind::RealPlain(Box::new(src));
        let a: Vec<_> = actions.collect();
        self.polls_left += 1;
        self.apply_actions(c, now, a);
    }

    // ---------------------------------------------------------------- server receive path + C19 oracle

    fn on_server_rx(&mut self, si: usize, d: Datagram<Meta>, now: u64) {
        let (from_ip, sess) = match &d.meta {
            Meta::Request { sess, .. } | Meta::Response { sess, .. } => (client_ip(*sess), Some(*sess)),
            Meta::Forged { sess: Some(s), .. } => (client_ip(*s), Some(*s)),
            Meta::Forged { sess: None, .. } => (ADV_IP, None),
        };
        // the server's receive buffer: 1024 like the daemon's, in some runs a larger one
        let msg = d.bytes[..d.bytes.len().min(self.srv_rx_cap)].to_vec();
        // C23: un-truncated bytes straight into the decoder in the server's key context
        if d.bytes.len() > msg.len() {
            let ks = self.servers[si].keyset();
            let full = d.bytes.clone();
            let r = simkit::exec::catch(|| NtpPacket::deserialize(&full, ks.as_ref()).is_ok());
            simkit::oracle("C23");
            probe("c23-untruncated-to-decoder");
            if let Err(m) = r {
                simkit::violation("C23", "c23-panic-server-keys", format!("{} bytes: {m}", full.len()));
            }
        }
        let buf_len = if choose("srv.buf", 2) == 0 { msg.len().max(48) } else { 4096 };
        let handled = self.servers[si].handle(from_ip, &msg, buf_len);
        let stat = self.servers[si].last_stat();
        simkit::oracle("C23");
        let resp = match handled {
            Handled::Crash(m) => {
                ev!("crash server={si} msg={m}");
                simkit::violation("C23", "c23-panic-server-keys", format!("datagram of {} bytes ({:?}, mutation {:?}): {m}", msg.len(), d.meta, d.mutation));
                return;
            }
            Handled::Ignore => None,
            Handled::Respond(r) => Some(r),
        };
        let kind = resp.as_deref().map(wire::classify_response);
        ev!("srv-rx server={si} epoch={} from={:?} len={} mut={:?} -> {:?} len={} stat={:?}", self.servers[si].epoch, sess, msg.len(), d.mutation.as_ref().map(mut_name), kind, resp.as_ref().map(|r| r.len()).unwrap_or(0), stat.map(|s| (s.1, s.3)));
        let policy = self.servers[si].policy.of(from_ip);

        match &d.meta {
            Meta::Request { sess, req } => {
                let (sess, req) = (*sess, *req);
                let Some(rec) = self.reqs.get(&req).cloned() else {
                    // a plain (non-NTS) source's request: nothing to judge, just route the answer back
                    if let Some(r) = resp {
                        let rid = self.id();
                        self.net.send(now, srv_node(si), sess as u32, r, Meta::Response { sess, req, resp: rid });
                    }
                    return;
                };
                // ---- what can this request be, given what the harness knows and what the network did to it?
                // the keys a genuine answer is bound to are the COOKIE's keys (normally the session's own)
                let keys = match &rec.cookie {
                    CookieTruth::Issued { keys, .. } => keys.clone(),
                    _ => self.sess[sess].keys.clone(),
                };
                let cookie_state = match &rec.cookie {
                    CookieTruth::Issued { server, epoch, .. } if *server == si => self.servers[si].model_state(*epoch),
                    _ => CookieState::Invalid,
                };
                let rest_ok = match &rec.cookie {
                    CookieTruth::Issued { keys, .. } => rec.built.auth_key.as_deref() == Some(&keys.c2s[..]) && rec.built.cookies_before_auth == 1,
                    _ => false,
                };
                // RFC 8915 / the statement: with several authenticator fields the request is authentic only if
                // EVERY one verifies (under the cookie's c2s key, over all bytes that precede it)
                let (n_auth, n_auth_ok) = wire::authenticators(&rec.built.bytes, keys.alg, &keys.c2s);
                let multi = n_auth >= 2;
                if multi {
                    probe(if n_auth_ok == n_auth { "c19-multi-auth-all-verify" } else if n_auth_ok == 0 { "c19-multi-auth-none-verify" } else { "c19-multi-auth-some-fail" });
                }
                let rest_ok = if multi { rec.built.cookies_before_auth == 1 && n_auth_ok == n_auth } else { rest_ok };
                // several verifying authenticators: the server may still refuse (it wants a cookie in front of
                // each), so only "never wrong" is required, not "answered"
                let base_authentic = cookie_state == CookieState::Valid && rest_ok && !multi;
                // a lingering key (see CookieState::Either) leaves the outcome open
                let base_open = (cookie_state == CookieState::Either || (multi && cookie_state == CookieState::Valid)) && rest_ok;
                let map = RegionMap::of(&rec.built.bytes);
                let has_auth = map.auth.is_some();
                // (must_fail, crisp): crisp = the authenticator is certainly still visible to the server
                let (authentic, must_fail, crisp) = match &d.mutation {
                    None => (base_authentic, !base_authentic && !base_open, has_auth),
                    Some(Mutation::BitFlip { pos, .. }) | Some(Mutation::ByteSet { pos, .. }) => {
                        let region = map.region(*pos);
                        if region.protected() {
                            (false, true, has_auth && region.framing_intact())
                        } else {
                            (false, !base_authentic && !base_open && !multi, has_auth && region == Region::After)
                        }
                    }
                    // (with several authenticators damage behind the first one can remove a failing one: no claim then)
                    Some(Mutation::Truncate { .. }) | Some(Mutation::Extend { .. }) => (false, !base_authentic && !base_open && !multi, false),
                };
                // damage in flight can also UNDO a fault the harness built in (the same bit flipped back) or cut a
                // failing authenticator off: if every authenticator of the DELIVERED bytes verifies, nothing is claimed
                let must_fail = must_fail && !(d.mutation.is_some() && {
                    let (dn, dok) = wire::authenticators(&msg, keys.alg, &keys.c2s);
                    dn >= 1 && dok == dn
                });
                if let CookieTruth::Issued { server, epoch, .. } = &rec.cookie {
                    if *server == si && self.servers[si].model_state(*epoch) == CookieState::Invalid {
                        probe("c19-expired-cookie-delivered");
                    }
                }
                let own = resp.as_deref().map(|r| wire::own_authenticate(r, keys.alg, &keys.s2c));
                let verified = own.as_ref().map(|o| o.verified).unwrap_or(false);
                let nts_time = matches!(stat, Some((_, true, _, ServerResponse::ProvideTime)));

                if must_fail {
                    check!(
                        "C19",
                        "c19-unauthentic-request-answered-as-authentic",
                        !verified && !nts_time,
                        "request {req} (cookie {:?}, cookies before authenticator {}, genuine authenticator {}, mutation {:?}) got answer {kind:?} verified-under-s2c={verified} stat={stat:?}",
                        rec.cookie,
                        rec.built.cookies_before_auth,
                        rec.built.auth_genuine,
                        d.mutation
                    );
                    if crisp {
                        let ok = match kind {
                            None => true,
                            Some(RespKind::NtsNak) => true,
                            Some(RespKind::Deny) => policy == Policy::Deny,
                            _ => false,
                        };
                        check!(
                            "C19",
                            "c19-failed-authentication-answered-with-other-than-nak",
                            ok,
                            "request {req} whose authentication must fail (cookie {:?}, cookies before authenticator {}, genuine authenticator {}, mutation {:?}) got {kind:?} (policy {policy:?}, stat {stat:?})",
                            rec.cookie,
                            rec.built.cookies_before_auth,
                            rec.built.auth_genuine,
                            d.mutation
                        );
                        match kind {
                            Some(RespKind::NtsNak) => probe("c19-nak"),
                            Some(RespKind::Deny) => probe("c19-deny-instead-of-nak"),
                            _ => {}
                        }
                    }
                }
                if authentic && kind == Some(RespKind::NtsNak) {
                    check!(
                        "C26",
                        "c26-valid-cookie-rejected",
                        false,
                        "request {req} with a cookie issued at epoch {:?} got NTS-NAK at server epoch {} (history {})",
                        rec.cookie,
                        self.servers[si].epoch,
                        self.servers[si].history
                    );
                }
                let mut resp_rec = RespRec { authentic_time: false, fresh: vec![] };
                if let (Some(r), Some(RespKind::Time), Some(o)) = (resp.as_deref(), kind, own.as_ref()) {
                    if authentic {
                        probe("c19-time-answer");
                        check!("C19", "c19-time-answer-not-authenticated", verified, "time answer to authentic request {req} does not verify under the cookie's s2c key");
                        // ... and the real client-side decoder agrees
                        let cipher = fk::cipher_from(keys.alg, &keys.s2c).expect("cipher");
                        let dec = simkit::exec::catch(|| match NtpPacket::deserialize(r, cipher.as_ref()) {
                            Ok((p, _)) => p.verif_ef_view().authenticated.len() + p.verif_ef_view().encrypted.len(),
                            Err(_) => usize::MAX,
                        });
                        check!("C19", "c19-client-cannot-authenticate-answer", matches!(dec, Ok(n) if n != usize::MAX && n > 0), "client-side decode of the answer to request {req}: {dec:?}");
                    }
                    if verified {
                        // cookie budget and sizes (for whatever request produced an authenticated answer)
                        let fresh: Vec<&Vec<u8>> = o.encrypted.iter().filter(|(t, _)| *t == T_COOKIE).map(|(_, b)| b).collect();
                        let fields = &rec.built.cookie_field_lens;
                        check!(
                            "C19",
                            "c19-too-many-fresh-cookies",
                            fresh.len() <= 8 && fresh.len() <= fields.len(),
                            "answer to request {req} carries {} fresh cookies for {} cookie/placeholder fields",
                            fresh.len(),
                            fields.len()
                        );
                        let mut fl: Vec<usize> = fresh.iter().map(|c| c.len()).collect();
                        let mut rl: Vec<usize> = fields.clone();
                        fl.sort_unstable_by(|a, b| b.cmp(a));
                        rl.sort_unstable_by(|a, b| b.cmp(a));
                        let fits = fl.iter().zip(rl.iter()).all(|(f, r)| f <= r);
                        check!("C19", "c19-fresh-cookie-larger-than-field", fits, "answer to request {req}: fresh cookie sizes {fl:?} do not fit request fields {rl:?}");
                        let ks = self.servers[si].keyset();
                        for c in &fresh {
                            let got = fk::decode_cookie(&ks, c);
                            check!(
                                "C19",
                                "c19-fresh-cookie-wrong-session",
                                got.as_ref() == Some(&keys),
                                "fresh cookie in answer to request {req} decodes under the current key set to {}",
                                if got.is_some() { "other keys / algorithm" } else { "nothing" }
                            );
                        }
                        // confidentiality on the wire
                        let view = self.servers[si].view();
                        let leak = wire::find_sub(r, &keys.c2s[..16]) || wire::find_sub(r, &keys.s2c[..16]) || view.keys.iter().any(|k| wire::find_sub(r, &k[..16]));
                        check!("C26", "c26-key-material-on-wire", !leak, "answer to request {req} contains key material in clear");
                        if !fresh.is_empty() {
                            probe("c19-fresh-cookies");
                        }
                        if fresh.len() < fields.len().min(8) {
                            probe("c19-fewer-cookies-than-fields");
                        }
                        let fresh_owned: Vec<Vec<u8>> = fresh.into_iter().cloned().collect();
                        for c in fresh_owned {
                            self.check_newest(si, &c, "fresh");
                            let rec = CookieRec { bytes: c, keys: keys.clone(), server: si, epoch: self.servers[si].epoch };
                            self.remember_cookie(rec.clone());
                            if keys == self.sess[sess].keys {
                                self.sess[sess].issued.insert(rec.bytes.clone(), (si, rec.epoch));
                                resp_rec.fresh.push(rec);
                            }
                        }
                        resp_rec.authentic_time = true;
                    }
                }
                if let (true, Some(r)) = (authentic, resp.as_ref()) {
                    if r.len() > msg.len() {
                        // amplification is C16 (world w1s); only recorded here
                        probe("c19-answer-longer-than-request");
                    }
                }
                if authentic && resp.is_none() && policy == Policy::Allow {
                    probe("c19-authentic-no-answer");
                }
                if let Some(r) = resp {
                    let rid = self.id();
                    self.resps.insert(rid, resp_rec);
                    if self.adversary {
                        if self.seen_resps.len() >= 8 {
                            self.seen_resps.remove(0);
                        }
                        self.seen_resps.push((sess, req, rid, r.clone()));
                    }
                    self.net.send(now, srv_node(si), sess as u32, r, Meta::Response { sess, req, resp: rid });
                }
            }
            Meta::Forged { sess, keyed } => {
                if !keyed {
                    // nobody without the session keys gets an authenticated answer
                    let verified = match (sess, resp.as_deref()) {
                        (Some(s), Some(r)) => {
                            let k = &self.sess[*s].keys;
                            wire::own_authenticate(r, k.alg, &k.s2c).verified
                        }
                        _ => false,
                    };
                    let nts_time = matches!(stat, Some((_, true, _, ServerResponse::ProvideTime)));
                    check!("C19", "c19-forged-request-answered-as-authentic", !verified && !nts_time, "forged datagram of {} bytes got {kind:?} stat={stat:?}", msg.len());
                }
                if let (Some(s), Some(r)) = (sess, resp) {
                    // the answer goes to the spoofed client
                    self.net.send(now, srv_node(si), *s as u32, r, Meta::Forged { sess: Some(*s), keyed: *keyed });
                }
            }
            Meta::Response { .. } => {}
        }
    }

    // ---------------------------------------------------------------- client receive paths

    fn on_client_rx(&mut self, c: usize, d: Datagram<Meta>, now: u64) {
        let msg = rx_limit(&d.bytes).to_vec();
        let keys = self.sess[c].keys.clone();
        let is_plain = matches!(self.sess[c].kind, Kind::RealPlain(_));
        if d.bytes.len() > msg.len() {
            let full = d.bytes.clone();
            let r = if is_plain {
                simkit::exec::catch(|| NtpPacket::deserialize(&full, &NoCipher).is_ok())
            } else {
                let cipher = fk::cipher_from(keys.alg, &keys.s2c).expect("cipher");
                simkit::exec::catch(|| NtpPacket::deserialize(&full, cipher.as_ref()).is_ok())
            };
            simkit::oracle("C23");
            probe("c23-untruncated-to-decoder");
            if let Err(m) = r {
                simkit::violation("C23", if is_plain { "c23-panic-no-keys" } else { "c23-panic-session-keys" }, format!("{} bytes: {m}", full.len()));
            }
        }
        // what is this datagram really?
        let (genuine_for, resp_rec) = match &d.meta {
            Meta::Response { sess, req, resp } if *sess == c => (Some(*req), self.resps.get(resp).cloned()),
            _ => (None, None),
        };
        let unprotected_only = match (&d.mutation, d.original.as_ref()) {
            (None, _) => true,
            (Some(Mutation::BitFlip { pos, .. }), Some(o)) | (Some(Mutation::ByteSet { pos, .. }), Some(o)) => !RegionMap::of(o).region(*pos).protected(),
            (Some(Mutation::Truncate { new_len, .. }), Some(o)) => {
                let m = RegionMap::of(o);
                m.auth.as_ref().map(|a| *new_len >= a.ef_off + a.ef_wire_len).unwrap_or(false)
            }
            (Some(Mutation::Extend { .. }), _) => true,
            _ => false,
        };
        let authentic_datagram = resp_rec.as_ref().map(|r| r.authentic_time).unwrap_or(false) && unprotected_only;
        // built by a peer that holds the session keys - or, after damage in flight, whatever is left
        // still has all of its authenticators verifying under the session key (truth on the delivered bytes)
        let forged_keyed = match &d.meta {
            Meta::Forged { keyed, .. } => {
                *keyed || (d.mutation.is_some() && {
                    let (n, ok) = wire::authenticators(&msg, keys.alg, &keys.s2c);
                    n >= 1 && ok == n
                })
            }
            _ => false,
        };
        simkit::oracle("C23");
        match &self.sess[c].kind {
            Kind::Hand => {
                let cipher = fk::cipher_from(keys.alg, &keys.s2c).expect("cipher");
                let pend = self.sess[c].pending.as_ref().map(|p| (p.req, p.origin, p.uid.clone(), p.ident));
                let r = simkit::exec::catch(|| match NtpPacket::deserialize(&msg, cipher.as_ref()) {
                    Ok((p, _)) => {
                        let v = p.verif_ef_view();
                        let uid_ok = |uid: &Vec<u8>| v.authenticated.iter().chain(v.encrypted.iter()).any(|e| e.type_id == T_UID && e.data.len() >= uid.len() && e.data[..uid.len()] == uid[..]);
                        let time = !p.is_kiss() && p.mode() == NtpAssociationMode::Server && p.stratum() <= 16;
                        match &pend {
                            Some((_, origin, uid, ident)) => {
                                let matches = match ident {
                                    Some(id) => p.valid_server_response(*id, true),
                                    None => wire::origin_of_response(&msg) == *origin && uid_ok(uid),
                                };
                                (matches && time, !v.authenticated.is_empty() || !v.encrypted.is_empty())
                            }
                            None => (false, !v.authenticated.is_empty() || !v.encrypted.is_empty()),
                        }
                    }
                    Err(_) => (false, false),
                });
                match r {
                    Err(m) => {
                        ev!("crash client={c} msg={m}");
                        simkit::violation("C23", "c23-panic-session-keys", format!("datagram of {} bytes ({:?}, mutation {:?}): {m}", msg.len(), d.meta, d.mutation));
                    }
                    Ok((accepted, authenticated)) => {
                        ev!("cli-rx sess={c} len={} mut={:?} accepted={accepted} authenticated={authenticated} genuine={authentic_datagram}", msg.len(), d.mutation.as_ref().map(mut_name));
                        if d.mutation.is_some() || !matches!(d.meta, Meta::Response { .. }) {
                            check!(
                                "C25",
                                "c25-client-authenticates-unauthentic-datagram",
                                !authenticated || authentic_datagram || forged_keyed || self.authentic_nontime(&d, unprotected_only),
                                "hand client {c} reports authenticated fields for datagram {:?} mutation {:?}",
                                d.meta,
                                d.mutation
                            );
                        }
                        if accepted {
                            let pending_req = pend.as_ref().map(|p| p.0);
                            check!(
                                "C25",
                                "c25-client-takes-unauthentic-datagram-as-time",
                                (authentic_datagram && genuine_for == pending_req) || forged_keyed,
                                "hand client {c} accepts datagram {:?} (mutation {:?}) as the time answer to request {pending_req:?}",
                                d.meta,
                                d.mutation
                            );
                            self.sess[c].pending = None;
                            if let Some(rr) = resp_rec {
                                probe("client-accepted-time");
                                for f in rr.fresh {
                                    let bag = &mut self.sess[c].bag;
                                    if bag.len() >= 16 {
                                        let i = choose("bag.evict", bag.len() as u64) as usize;
                                        bag.remove(i);
                                    }
                                    bag.push(f);
                                }
                            }
                        }
                    }
                }
            }
            Kind::RealNts(_) | Kind::RealPlain(_) => {
                let before = self.sess[c].measured.load(Ordering::SeqCst);
                let ts = ntp_proto::verif::ts_from_fixed(0xE000_0000_0000_0000u64.wrapping_add(now.wrapping_mul(4)));
                let r = match &mut self.sess[c].kind {
                    Kind::RealNts(src) | Kind::RealPlain(src) => simkit::exec::catch(|| src.handle_incoming(&msg, ts, ts).collect::<Vec<_>>()),
                    _ => unreachable!(),
                };
                let after = self.sess[c].measured.load(Ordering::SeqCst);
                match r {
                    Err(m) => {
                        ev!("crash source={c} msg={m}");
                        simkit::violation(
                            "C23",
                            if is_plain { "c23-panic-no-keys" } else { "c23-panic-session-keys" },
                            format!("datagram of {} bytes ({:?}, mutation {:?}): {m}", msg.len(), d.meta, d.mutation),
                        );
                        self.sess[c].kind = Kind::Stopped;
                    }
                    Ok(actions) => {
                        ev!("src-rx sess={c} len={} mut={:?} measured={} genuine={authentic_datagram}", msg.len(), d.mutation.as_ref().map(mut_name), after > before);
                        if !is_plain && after > before {
                            probe("source-measured");
                            if d.mutation.is_some() || !matches!(d.meta, Meta::Response { .. }) {
                                check!(
                                    "C25",
                                    "c25-nts-source-measures-unauthentic-datagram",
                                    (authentic_datagram && genuine_for == self.sess[c].last_req) || forged_keyed,
                                    "NTS source {c} took datagram {:?} (mutation {:?}) as a measurement",
                                    d.meta,
                                    d.mutation
                                );
                            }
                        }
                        self.apply_actions(c, now, actions);
                    }
                }
            }
            Kind::Stopped => {}
        }
    }

    /// an authenticated non-time answer (NTS DENY) that reached the client with its protected part intact
    fn authentic_nontime(&self, d: &Datagram<Meta>, unprotected_only: bool) -> bool {
        match &d.meta {
            Meta::Response { sess, .. } if unprotected_only => {
                let k = &self.sess[*sess].keys;
                let o = d.original.as_ref().unwrap_or(&d.bytes);
                wire::own_authenticate(o, k.alg, &k.s2c).verified
            }
            _ => false,
        }
    }

    // ---------------------------------------------------------------- adversary

    /// C23: a hostile datagram straight into `NtpPacket::deserialize` in all three key contexts
    /// (no keys, the session's s2c key, the home server's cookie keys) - the decoder must return.
    fn gauntlet(&mut self, bytes: &[u8], c: usize) {
        let keys = self.sess[c].keys.clone();
        let ks = self.servers[self.sess[c].home].keyset();
        let cipher = fk::cipher_from(keys.alg, &keys.s2c).expect("cipher");
        let results = [
            ("c23-panic-no-keys", simkit::exec::catch(|| NtpPacket::deserialize(bytes, &NoCipher).is_ok())),
            ("c23-panic-session-keys", simkit::exec::catch(|| NtpPacket::deserialize(bytes, cipher.as_ref()).is_ok())),
            ("c23-panic-server-keys", simkit::exec::catch(|| NtpPacket::deserialize(bytes, ks.as_ref()).is_ok())),
        ];
        probe("c23-direct-decoder");
        for (clause, r) in results {
            simkit::oracle("C23");
            match r {
                Ok(true) => probe("c23-direct-decoder-accepts"),
                Ok(false) => {}
                Err(m) => simkit::violation("C23", clause, format!("direct decoder, {} bytes, first 64: {:02x?}: {m}", bytes.len(), &bytes[..bytes.len().min(64)])),
            }
        }
    }

    /// a burst of hostile layouts for the decoder (no node involved)
    fn gauntlet_burst(&mut self, n: u64) {
        for _ in 0..n {
            let c = choose("adv.sess", self.sess.len() as u64) as usize;
            let to_server = choose("adv.dir", 2) == 0;
            let cookie = self.sess[c].bag.last().map(|r| r.bytes.clone()).or_else(|| self.ledger.iter().flatten().next().map(|r| r.bytes.clone()));
            let bytes = if choose("adv.burst_kind", 3) != 2 {
                adv::forge_inner(&mut SimPick, to_server, cookie.as_deref())
            } else {
                let keys = self.sess[c].keys.clone();
                let keyed = chance("adv.keyed", 0.5);
                adv::forge(&mut SimPick, to_server, if keyed { Some(&keys) } else { None }, cookie.as_deref())
            };
            fault("adv-decoder-burst");
            self.gauntlet(&bytes, c);
        }
    }

    /// A time answer to a pending request carrying SEVERAL authenticator fields (valid / failing in any
    /// order, fields in between), built by a peer that holds the session keys. RFC 8915: authentic only
    /// if every authenticator verifies; otherwise the client must treat it as unauthenticated.
    fn multi_auth_response(&mut self, now: u64) {
        let c = choose("adv.sess", self.sess.len() as u64) as usize;
        let (origin, uid) = match (&self.sess[c].pending, self.sess[c].last_req.and_then(|r| self.reqs.get(&r))) {
            (Some(p), _) => (p.origin, p.uid.clone()),
            (None, Some(r)) => (r.built.origin, r.built.uid.clone()),
            _ => return,
        };
        let keys = self.sess[c].keys.clone();
        let v5 = self.sess[c].v5;
        let mut out = vec![0u8; 48];
        out[0] = ((if v5 { 5 } else { 4 }) << 3) | 4;
        out[1] = 2;
        out[2] = 6;
        if v5 {
            out[15] = 1;
        }
        out[24..32].copy_from_slice(&origin);
        out[32..40].copy_from_slice(&0xE000_0000_1234_0000u64.to_be_bytes());
        out[40..48].copy_from_slice(&0xE000_0000_1235_0000u64.to_be_bytes());
        wire::put_ef(&mut out, T_UID, &uid, 16, v5);
        if v5 {
            wire::put_ef(&mut out, wire::T_DRAFT, wire::DRAFT_ID, 16, v5);
        }
        let wrong = SimPick.bytes("adv.key", keys.s2c.len());
        let n = 2 + choose("adv.ma_n", 3);
        for i in 0..n {
            if i > 0 {
                for _ in 0..choose("adv.ma_between", 3) {
                    match choose("adv.ma_kind", 3) {
                        0 => wire::put_ef(&mut out, T_UID, &uid, 16, v5),
                        1 => wire::put_ef(&mut out, 0x0900, &SimPick.bytes("adv.body", 4 * choose("adv.ma_len", 8) as usize), 16, v5),
                        _ => wire::put_ef(&mut out, T_COOKIE, &SimPick.bytes("adv.body", 104), 16, v5),
                    }
                }
            }
            let mut pt = vec![];
            if choose("adv.ma_enc", 2) == 1 {
                wire::put_ef(&mut pt, T_COOKIE, &SimPick.bytes("adv.body", 104), 0, v5);
            }
            let f = req::AuthFault::random(&mut SimPick);
            if !req::emit_auth(&mut SimPick, &mut out, keys.alg, &keys.s2c, &wrong, f, 16, &pt, 0) {
                return;
            }
        }
        let (na, ok) = wire::authenticators(&out, keys.alg, &keys.s2c);
        let all_ok = na == ok;
        probe(if all_ok { "c25-multi-auth-response-all-verify" } else { "c25-multi-auth-response-some-fail" });
        fault("adv-multi-auth-response");
        // decoder level, client key context
        let cipher = fk::cipher_from(keys.alg, &keys.s2c).expect("cipher");
        let bytes = out.clone();
        let r = simkit::exec::catch(|| match NtpPacket::deserialize(&bytes, cipher.as_ref()) {
            Ok((p, _)) => {
                let v = p.verif_ef_view();
                (true, v.authenticated.len() + v.encrypted.len())
            }
            Err(_) => (false, 0),
        });
        match r {
            Ok((parsed_ok, n_fields)) => {
                if !all_ok {
                    check!(
                        "C25",
                        "c25-failing-authenticator-among-several-reported-authentic",
                        !parsed_ok || n_fields == 0,
                        "response with {na} authenticator fields of which {ok} verify decodes as authentic under the session key ({n_fields} authenticated/encrypted fields)"
                    );
                }
            }
            Err(m) => simkit::violation("C23", "c23-panic-session-keys", format!("multi-authenticator response of {} bytes: {m}", bytes.len())),
        }
        self.net.send(now, ADV_NODE, c as u32, out, Meta::Forged { sess: Some(c), keyed: all_ok });
    }

    fn adversary_tick(&mut self, now: u64) {
        let ns = self.servers.len() as u64;
        match choose("adv.action", 8) {
            0 => {
                // hostile layout to a server, from nowhere or spoofing a client
                let si = choose("adv.server", ns) as usize;
                let keyed = chance("adv.keyed", 0.5);
                let c = choose("adv.sess", self.sess.len() as u64) as usize;
                let keys = self.sess[c].keys.clone();
                let cookie = self.sess[c].bag.last().map(|r| r.bytes.clone());
                let bytes = if chance("adv.inner", 0.4) {
                    adv::forge_inner(&mut SimPick, true, cookie.as_deref())
                } else {
                    adv::forge(&mut SimPick, true, if keyed { Some(&keys) } else { None }, cookie.as_deref())
                };
                self.gauntlet(&bytes, c);
                fault("adv-forge-to-server");
                self.net.send(now, ADV_NODE, srv_node(si), bytes, Meta::Forged { sess: if keyed || chance("adv.spoof", 0.5) { Some(c) } else { None }, keyed });
            }
            1 => {
                // hostile layout to a client; "keyed" = a malicious server that holds the session keys
                let c = choose("adv.sess", self.sess.len() as u64) as usize;
                let keyed = chance("adv.keyed", 0.5);
                let keys = self.sess[c].keys.clone();
                let mut bytes = if chance("adv.inner", 0.4) {
                    adv::forge_inner(&mut SimPick, false, None)
                } else {
                    adv::forge(&mut SimPick, false, if keyed { Some(&keys) } else { None }, None)
                };
                self.gauntlet(&bytes, c);
                if let Some(p) = &self.sess[c].pending {
                    if bytes.len() >= 48 && chance("adv.copy_origin", 0.7) {
                        bytes[24..32].copy_from_slice(&p.origin);
                    }
                }
                fault("adv-forge-to-client");
                self.net.send(now, ADV_NODE, c as u32, bytes, Meta::Forged { sess: Some(c), keyed });
            }
            2 => {
                if !self.seen_reqs.is_empty() {
                    let (c, id, bytes) = self.seen_reqs[choose("adv.replay", self.seen_reqs.len() as u64) as usize].clone();
                    let to = self.sess[c].home;
                    fault("adv-replay-request");
                    self.net.send(now, ADV_NODE, srv_node(to), bytes, Meta::Request { sess: c, req: id });
                }
            }
            3 => {
                if !self.seen_resps.is_empty() {
                    let (c, req, rid, bytes) = self.seen_resps[choose("adv.replay", self.seen_resps.len() as u64) as usize].clone();
                    fault("adv-replay-response");
                    self.net.send(now, ADV_NODE, c as u32, bytes, Meta::Response { sess: c, req, resp: rid });
                }
            }
            4 => {
                // genuine request of a victim, authenticator recomputed under keys the attacker owns
                if !self.seen_reqs.is_empty() {
                    let (c, _id, bytes) = self.seen_reqs[choose("adv.replay", self.seen_reqs.len() as u64) as usize].clone();
                    let m = RegionMap::of(&bytes);
                    if let Some(a) = &m.auth {
                        let alg = self.sess[c].keys.alg;
                        let foreign = SimPick.bytes("adv.key", fk::key_len(alg).unwrap());
                        let mut out = bytes[..a.ef_off].to_vec();
                        let nonce = SimPick.bytes("adv.nonce", 16);
                        if wire::put_auth(&mut out, alg, &foreign, &nonce, &[]) {
                            fault("adv-reencrypt-request");
                            let to = self.sess[c].home;
                            self.net.send(now, ADV_NODE, srv_node(to), out, Meta::Forged { sess: Some(c), keyed: false });
                        }
                    }
                }
            }
            6 | 7 => self.multi_auth_response(now),
            _ => {
                // forged time answer for a pending request: copies everything an on-path attacker sees, foreign key
                let c = choose("adv.sess", self.sess.len() as u64) as usize;
                let (origin, uid) = match (&self.sess[c].pending, self.sess[c].last_req.and_then(|r| self.reqs.get(&r))) {
                    (Some(p), _) => (p.origin, p.uid.clone()),
                    (None, Some(r)) => (r.built.origin, r.built.uid.clone()),
                    _ => return,
                };
                let v5 = self.sess[c].v5;
                let alg = self.sess[c].keys.alg;
                let mut out = vec![0u8; 48];
                out[0] = ((if v5 { 5 } else { 4 }) << 3) | 4;
                out[1] = 2;
                out[2] = 6;
                if v5 {
                    out[15] = 1;
                }
                out[24..32].copy_from_slice(&origin);
                out[32..40].copy_from_slice(&0xE000_0000_1234_0000u64.to_be_bytes());
                out[40..48].copy_from_slice(&0xE000_0000_1235_0000u64.to_be_bytes());
                wire::put_ef(&mut out, T_UID, &uid, 16, v5);
                if v5 {
                    wire::put_ef(&mut out, wire::T_DRAFT, wire::DRAFT_ID, 16, v5);
                }
                let with_auth = chance("adv.with_auth", 0.7);
                if with_auth {
                    let foreign = SimPick.bytes("adv.key", fk::key_len(alg).unwrap());
                    let nonce = SimPick.bytes("adv.nonce", 16);
                    wire::put_auth(&mut out, alg, &foreign, &nonce, &[]);
                }
                fault("adv-forge-time-answer");
                self.net.send(now, ADV_NODE, c as u32, out, Meta::Forged { sess: Some(c), keyed: false });
            }
        }
    }
}

fn mut_name(m: &Mutation) -> String {
    match m {
        Mutation::BitFlip { pos, bit } => format!("flip@{pos}.{bit}"),
        Mutation::ByteSet { pos, new, .. } => format!("set@{pos}={new:#04x}"),
        Mutation::Truncate { new_len, .. } => format!("trunc->{new_len}"),
        Mutation::Extend { new_len, .. } => format!("ext->{new_len}"),
    }
}

pub fn run() {
    simntp::reset_hooks();
    simkit::exec::block_on(async {
        run_async().await;
    });
    ntp_proto::verif::clear();
}

async fn run_async() {
    let focus = simkit::focus();
    // ~25 % of the runs with every fault off
    let faults = choose("cfg.faults", 4) != 0;
    let mut cfg = if faults { NetCfg::swarm() } else { NetCfg::clean() };
    if faults && focus == "C23" {
        // damage is the point of C23: make sure some is on
        if cfg.bitflip_p + cfg.byteset_p + cfg.truncate_p + cfg.extend_p == 0.0 {
            cfg.bitflip_p = 0.1;
            cfg.truncate_p = 0.05;
            cfg.extend_p = 0.1;
        }
    }
    // keep latencies below the poll spacing most of the time
    cfg.heavy_tail_ns = cfg.heavy_tail_ns.min(8_000_000_000);
    let adversary = faults && chance("cfg.adversary", if focus == "C23" { 0.8 } else { 0.4 });

    let n_servers = 1 + choose("cfg.servers", 2) as usize;
    let mut servers = vec![];
    let mut rot_period_ns = vec![];
    for i in 0..n_servers {
        let history = [1usize, 0, 2, 5][choose("cfg.history", 4) as usize];
        let mut policy = PolicyModel::open();
        if faults {
            match choose("cfg.policy", 6) {
                1 => {
                    policy.denied = vec![client_ip(0)];
                    policy.deny_action = Policy::Deny;
                }
                2 => {
                    policy.denied = vec![client_ip(1)];
                    policy.deny_action = Policy::Ignore;
                }
                3 => policy.allow_only = Some((vec![client_ip(0), client_ip(2)], Policy::Deny)),
                4 => policy.require_nts = Some(if choose("cfg.require", 2) == 0 { Policy::Deny } else { Policy::Ignore }),
                5 => {
                    if choose("cfg.versions", 2) == 0 {
                        policy.accept_v5 = false
                    } else {
                        policy.accept_v4 = false
                    }
                }
                _ => {}
            }
        }
        let epoch = [0xE000_0000_0000_0000u64, 0xFFFF_FFF0_0000_0000, 0x0000_0001_0000_0000][choose("cfg.clock_epoch", 3) as usize];
        ev!("server {i}: history={history} policy={policy:?}");
        servers.push(ServerNode::new(i, history, policy, epoch));
        rot_period_ns.push([5_000_000_000u64, 0, 1_500_000_000, 12_000_000_000, 40_000_000_000][choose("cfg.rotation", 5) as usize]);
    }
    let n_sess = 1 + choose("cfg.sessions", 4) as usize;
    let mut w = World {
        ledger: vec![vec![]; n_servers],
        servers,
        sess: vec![],
        net: SimNet::new(cfg),
        timers: BinaryHeap::new(),
        seq: 0,
        reqs: BTreeMap::new(),
        resps: BTreeMap::new(),
        next_id: 0,
        polls_left: 8 + choose("cfg.polls", 50),
        poll_gap_ns: [4_000_000_000u64, 1_000_000_000, 9_000_000_000][choose("cfg.poll_gap", 3) as usize],
        rot_period_ns,
        faults,
        adversary,
        partition: None,
        seen_reqs: vec![],
        seen_resps: vec![],
        tamper_done: false,
        adv_ticks: 0,
        srv_rx_cap: if choose("cfg.srv_rx_cap", 4) == 3 { 4096 } else { 1024 },
    };
    let mut kr = simkit::sub_rng("cfg.keys");
    for c in 0..n_sess {
        let alg = if choose("sess.alg", 2) == 0 { fk::ALG_SIV_CMAC_256 } else { fk::ALG_SIV_CMAC_512 };
        let keys = mint_keys(&mut kr, alg);
        let v5 = choose("sess.v5", 2) == 1;
        let home = choose("sess.home", n_servers as u64) as usize;
        let kind = if focus == "C23" { weighted("sess.kind", &[5, 3, 3]) } else { weighted("sess.kind", &[6, 3, 1]) };
        w.sess.push(Sess {
            id: c,
            keys: keys.clone(),
            v5,
            home,
            kind: Kind::Hand,
            bag: vec![],
            pending: None,
            measured: Arc::new(AtomicU64::new(0)),
            last_req: None,
            remints: 0,
            force_oldest: false,
            issued: BTreeMap::new(),
        });
        ev!("session {c}: alg={alg} v{} home={home} kind={kind}", if v5 { 5 } else { 4 });
        match kind {
            0 => {
                // "key exchange": 1..8 cookies under the server's current key set
                let n = 1 + choose("sess.cookies", 8);
                for _ in 0..n {
                    if let Some(r) = w.mint(&keys, home) {
                        w.sess[c].bag.push(r);
                    }
                }
                let t0 = choose("sess.start_ms", 2000) * 1_000_000;
                w.at(t0, Ev::Poll(c));
            }
            1 => w.start_real_nts(c, 0),
            _ => w.start_real_plain(c, 0),
        }
    }
    for i in 0..n_servers {
        if w.rot_period_ns[i] > 0 {
            let p = w.rot_period_ns[i];
            w.at(p, Ev::Rotate(i));
        }
    }
    if adversary {
        w.at(1_500_000_000, Ev::Adversary);
        let n = if focus == "C23" { 12 + choose("adv.burst", 20) } else { 3 };
        w.gauntlet_burst(n);
    }

    let start = simkit::exec::start_instant();
    let mut idle_rounds = 0;
    loop {
        if simkit::out_of_budget() {
            break;
        }
        let t_timer = w.timers.peek().map(|Reverse((t, _, _))| *t);
        let t_net = w.net.next_time();
        // stop when only periodic background events (rotation, adversary) are left
        let polls_pending = w.timers.iter().any(|Reverse((_, _, e))| matches!(e, Ev::Poll(_)));
        let work_left = polls_pending;
        if !polls_pending && t_net.is_none() {
            break;
        }
        if !polls_pending {
            idle_rounds += 1;
            if idle_rounds > 64 {
                break;
            }
        }
        let Some(t) = [t_timer, t_net].into_iter().flatten().min() else {
            break;
        };
        if t > 4 * 3600 * 1_000_000_000 {
            // a source was talked into an absurd poll interval (not this world's concern): horizon reached
            probe("horizon-reached");
            break;
        }
        tokio::time::sleep_until(start + std::time::Duration::from_nanos(t)).await;
        simkit::set_now_ns(t);
        let now = t;
        // timers first, then deliveries due at the same instant
        while let Some(Reverse((tt, _, e))) = w.timers.peek().copied() {
            if tt > now {
                break;
            }
            w.timers.pop();
            match e {
                Ev::Rotate(si) => {
                    w.rotate(si);
                    if w.faults && w.servers[si].restarts < 3 && chance("restart", 0.15) {
                        let p = w.rot_period_ns[si];
                        w.at(now + p / 4, Ev::Restart(si));
                    }
                    if work_left && w.servers[si].epoch < 40 {
                        let p = w.rot_period_ns[si];
                        let jitter = choose("rot.jitter", 4) * p / 8;
                        w.at(now + p / 2 + jitter, Ev::Rotate(si));
                    }
                }
                Ev::Restart(si) => w.restart(si),
                Ev::Poll(c) => {
                    match w.sess[c].kind {
                        Kind::Hand => {
                            if w.polls_left > 0 {
                                w.polls_left -= 1;
                                w.poll_hand(c, now);
                                let gap = w.poll_gap_ns / 2 + choose("poll.jitter", 8) * w.poll_gap_ns / 8;
                                w.at(now + gap, Ev::Poll(c));
                                // partition this client away for 0..history+3 rotations of its server
                                if w.faults && w.partition.is_none() && w.rot_period_ns[w.sess[c].home] > 0 && chance("partition", 0.08) {
                                    let si = w.sess[c].home;
                                    let r = choose("partition.rotations", w.servers[si].history as u64 + 4);
                                    w.net.partition(c as u32, srv_node(si));
                                    w.partition = Some((c, si, w.servers[si].epoch + r));
                                    ev!("partition client={c} server={si} for {r} rotations");
                                }
                            }
                        }
                        Kind::RealNts(_) | Kind::RealPlain(_) => w.poll_real(c, now),
                        Kind::Stopped => {}
                    }
                }
                Ev::Adversary => {
                    w.adversary_tick(now);
                    w.adv_ticks += 1;
                    if work_left && w.adv_ticks < 40 {
                        let gap = 300_000_000 + choose("adv.gap", 8) * 500_000_000;
                        w.at(now + gap, Ev::Adversary);
                    }
                }
            }
        }
        while let Some((_, d)) = w.net.pop_due(now) {
            if d.to >= SRV_NODE {
                let si = (d.to - SRV_NODE) as usize;
                w.on_server_rx(si, d, now);
            } else if (d.to as usize) < w.sess.len() {
                let c = d.to as usize;
                w.on_client_rx(c, d, now);
            }
        }
    }
    // end of run: one last ledger check against every server's final key set
    for si in 0..w.servers.len() {
        w.ledger_sweep(si, "final");
    }
}
