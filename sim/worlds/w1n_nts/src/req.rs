//! NTS request generation: either through the repo's own client-side builder
//! (`NtpPacket::nts_poll_message{,_v5}` + real `serialize`) = what a real source
//! puts on the wire, or through the harness's independent builder (wire.rs) for
//! every layout the statement quantifies over that a stock client never sends.

use std::io::Cursor;

use ntp_proto::verif::keyset::{cipher_from, SessionKeys};
use ntp_proto::verif::packet::{ExtensionField, RequestIdentifier};
use ntp_proto::{NtpPacket, PollInterval};
use simkit::Rng;

use crate::wire::{self, T_COOKIE, T_DRAFT, T_PLACEHOLDER, T_REFREQ, T_UID};

/// Source of generator decisions: the recorded choice stream in exploration runs,
/// a private PRNG in the enumeration (packet k must not depend on the run index).
pub trait Pick {
    /// value in 0..n, 0 = the plain / benign variant
    fn below(&mut self, label: &'static str, n: u64) -> u64;
    fn bytes(&mut self, label: &'static str, n: usize) -> Vec<u8>;
    /// true with probability ~ num/den; false is benign
    fn odds(&mut self, label: &'static str, num: u64, den: u64) -> bool {
        let v = self.below(label, den);
        v != 0 && v <= num
    }
}

pub struct SimPick;
impl Pick for SimPick {
    fn below(&mut self, label: &'static str, n: u64) -> u64 {
        simkit::choose(label, n)
    }
    fn bytes(&mut self, label: &'static str, n: usize) -> Vec<u8> {
        let mut r = simkit::sub_rng(label);
        crate::node::rand_bytes(&mut r, n)
    }
}

pub struct RngPick(pub Rng);
impl Pick for RngPick {
    fn below(&mut self, _label: &'static str, n: u64) -> u64 {
        if n <= 1 { 0 } else { self.0.below(n) }
    }
    fn bytes(&mut self, _label: &'static str, n: usize) -> Vec<u8> {
        crate::node::rand_bytes(&mut self.0, n)
    }
}

#[derive(Clone, Copy, Debug, PartialEq)]
pub enum AuthFault {
    None,
    /// authenticator computed under a key that is not the cookie's c2s key
    WrongKey,
    FlipNonce,
    FlipCiphertext,
    /// authenticator computed over different associated data (one byte of it differs)
    AadMismatch,
    /// well-shaped field, random tag and ciphertext
    Garbage,
    /// the last word of tag||ciphertext is missing
    Truncated,
}

impl AuthFault {
    pub fn random(p: &mut dyn Pick) -> AuthFault {
        match p.below("lay.auth_fault", 9) {
            0..=2 => AuthFault::None,
            3 => AuthFault::WrongKey,
            4 => AuthFault::FlipNonce,
            5 => AuthFault::FlipCiphertext,
            6 => AuthFault::AadMismatch,
            7 => AuthFault::Garbage,
            _ => AuthFault::Truncated,
        }
    }
}

/// A further NTS authenticator field besides the main one.
#[derive(Clone, Debug)]
pub struct MoreAuth {
    /// emitted before the main authenticator (then `between` follows it), else after (then `between` precedes it)
    pub before_main: bool,
    pub fault: AuthFault,
    /// fields between this authenticator and the main one: (kind, len); kind 0 = the presented cookie
    /// again, 1 = placeholder, 2 = the request's unique identifier again, 3 = unknown, 4 = random cookie
    pub between: Vec<(u8, usize)>,
    /// fields inside this authenticator's ciphertext (same encoding as `Layout::enc`)
    pub enc: Vec<(u8, usize)>,
}

#[derive(Clone, Debug)]
pub struct Layout {
    pub v5: bool,
    /// use the repo's client-side builder (only for layouts a stock client produces)
    pub real_builder: bool,
    pub placeholders: usize,
    /// body length of each placeholder relative to the cookie length (0 = same)
    pub placeholder_delta: i32,
    pub extra_auth_before: usize,
    pub extra_auth_after: usize,
    pub second_cookie: bool,
    /// fields inside the ciphertext, in wire order: (kind, body length); kind 0 = NTS cookie (random
    /// body), 1 = cookie placeholder, 2 = unique identifier, 3 = unknown; length usize::MAX = "as long
    /// as the presented cookie"
    pub enc: Vec<(u8, usize)>,
    /// body length of the placeholders in the authenticated part, if not derived from the cookie length
    pub placeholder_abs: Option<usize>,
    pub trailing_untrusted: usize,
    pub fault: AuthFault,
    /// additional authenticator fields (RFC 8915: the packet is authentic only if every one verifies)
    pub more_auths: Vec<MoreAuth>,
    pub nonce_len: usize,
    /// zero padding after the ciphertext inside the authenticator field
    pub auth_pad: usize,
    pub uid_len: usize,
    pub draft_id: bool,
    pub refid_request: bool,
}

impl Layout {
    pub fn plain(v5: bool) -> Layout {
        Layout {
            v5,
            real_builder: true,
            placeholders: 0,
            placeholder_delta: 0,
            extra_auth_before: 0,
            extra_auth_after: 0,
            second_cookie: false,
            enc: vec![],
            placeholder_abs: None,
            trailing_untrusted: 0,
            fault: AuthFault::None,
            more_auths: vec![],
            nonce_len: 16,
            auth_pad: 0,
            uid_len: 32,
            draft_id: true,
            refid_request: false,
        }
    }

    /// Random layout; `allow_faults`: may include things that make authentication fail.
    pub fn random(p: &mut dyn Pick, v5: bool, allow_faults: bool) -> Layout {
        let mut l = Layout::plain(v5);
        l.placeholders = p.below("lay.placeholders", 8) as usize;
        l.real_builder = p.below("lay.builder", 3) != 2;
        l.extra_auth_after = [0, 0, 1, 2][p.below("lay.extra_after", 4) as usize];
        l.refid_request = v5 && p.below("lay.refid", 2) == 1;
        if !l.real_builder {
            l.extra_auth_before = [0, 1, 2][p.below("lay.extra_before", 3) as usize];
            l.placeholder_delta = [0, 0, -4, 4, -64, 40][p.below("lay.ph_delta", 6) as usize];
            // every field kind the server reacts to may also sit inside the ciphertext, any count / order / size
            let n_enc = [0usize, 0, 1, 1, 2, 3, 4, 6][p.below("lay.enc", 8) as usize];
            for _ in 0..n_enc {
                let kind = p.below("lay.enc_kind", 4) as u8;
                let len = match p.below("lay.enc_len_class", 4) {
                    0 => usize::MAX,
                    1 => [0usize, 1, 4, 21, 22, 100, 103, 104, 105, 108, 167, 168, 172, 200][p.below("lay.enc_len_edge", 14) as usize],
                    _ => p.below("lay.enc_len", 201) as usize,
                };
                l.enc.push((kind, len));
            }
            if p.below("lay.ph_abs", 3) == 2 {
                l.placeholder_abs = Some(p.below("lay.ph_len", 201) as usize);
            }
            l.trailing_untrusted = [0, 0, 1, 2][p.below("lay.trailing", 4) as usize];
            l.uid_len = [32, 32, 36, 64][p.below("lay.uid", 4) as usize];
            l.auth_pad = [0, 0, 4, 8][p.below("lay.auth_pad", 4) as usize];
            // RFC 8915 allows any nonce length; unaligned ones leave padding bytes inside the authenticator
            l.nonce_len = [16usize, 16, 16, 16, 12, 15, 17, 24, 32][p.below("lay.nonce_len", 9) as usize];
            if allow_faults {
                l.second_cookie = p.odds("lay.second_cookie", 1, 12);
                l.fault = match p.below("lay.fault", 16) {
                    10 => AuthFault::WrongKey,
                    11 => AuthFault::FlipNonce,
                    12 => AuthFault::FlipCiphertext,
                    13 => AuthFault::AadMismatch,
                    14 => AuthFault::Garbage,
                    15 => AuthFault::Truncated,
                    _ => AuthFault::None,
                };
                // several authenticator fields: valid / failing in every order, with fields in between
                let n_more = [0usize, 0, 0, 0, 1, 1, 2, 3][p.below("lay.more_auths", 8) as usize];
                for _ in 0..n_more {
                    let n_between = p.below("lay.ma_between", 4) as usize;
                    let between = (0..n_between).map(|_| (p.below("lay.ma_kind", 5) as u8, 4 * p.below("lay.ma_len", 12) as usize)).collect();
                    let enc = if p.below("lay.ma_enc", 3) == 2 { vec![(p.below("lay.enc_kind", 4) as u8, 4 * p.below("lay.ma_len", 12) as usize)] } else { vec![] };
                    l.more_auths.push(MoreAuth { before_main: p.below("lay.ma_before", 2) == 1, fault: AuthFault::random(p), between, enc });
                }
            }
        }
        l
    }
}

/// What the harness knows about a request it built (ground truth for the oracles).
#[derive(Clone, Debug)]
pub struct Built {
    pub bytes: Vec<u8>,
    pub v5: bool,
    /// body lengths of all cookie and placeholder fields in the authenticated and encrypted parts
    pub cookie_field_lens: Vec<usize>,
    /// number of cookie fields before the authenticator (authentication needs exactly 1)
    pub cookies_before_auth: usize,
    /// the authenticator was computed with the session's c2s key over the exact associated data
    pub auth_genuine: bool,
    /// key the authenticator was computed under (None: the tag / associated data was broken afterwards)
    pub auth_key: Option<Vec<u8>>,
    /// number of authenticator fields the builder emitted
    pub n_auth: usize,
    pub nonce_len: usize,
    pub uid: Vec<u8>,
    pub origin: [u8; 8],
    pub real_builder: bool,
    /// the repo client's own request identifier (stock builder only)
    pub ident: Option<RequestIdentifier>,
}

fn unknown_type(p: &mut dyn Pick) -> u16 {
    // never collides with a type the codec knows
    [0x0800u16, 0x2005, 0x7777, 0xF500, 0x0002][p.below("req.unk_type", 5) as usize]
}

/// Build one NTS request for `keys` presenting `cookie`.
/// `wrong_key`: key used when the layout asks for a wrong-key authenticator.
pub fn build(p: &mut dyn Pick, keys: &SessionKeys, cookie: &[u8], l: &Layout, wrong_key: &[u8]) -> Option<Built> {
    if l.real_builder {
        build_real(p, keys, cookie, l)
    } else {
        build_own(p, keys, cookie, l, wrong_key)
    }
}


/// serialise fields for the inside of a ciphertext; cookie / placeholder body lengths (as the decoder
/// will see them) are appended to `lens`
fn enc_plaintext(p: &mut dyn Pick, enc: &[(u8, usize)], cookie: &[u8], v5: bool, lens: &mut Vec<usize>) -> Vec<u8> {
    let mut pt = vec![];
    for (kind, len) in enc {
        let n = if *len == usize::MAX { cookie.len() } else { *len };
        let before = pt.len();
        match kind {
            0 => {
                wire::put_ef(&mut pt, T_COOKIE, &p.bytes("req.enc_cookie", n), 0, v5);
                lens.push(wire::be16(&pt, before + 2) - 4);
            }
            1 => {
                wire::put_ef(&mut pt, T_PLACEHOLDER, &vec![0u8; n], 0, v5);
                lens.push(wire::be16(&pt, before + 2) - 4);
            }
            2 => wire::put_ef(&mut pt, T_UID, &p.bytes("req.enc_uid", n), 0, v5),
            _ => wire::put_ef(&mut pt, unknown_type(p), &p.bytes("req.enc", n), 0, v5),
        }
    }
    pt
}

/// unencrypted fields between two authenticators
fn between_fields(p: &mut dyn Pick, out: &mut Vec<u8>, fields: &[(u8, usize)], cookie: &[u8], uid: &[u8], v5: bool, lens: &mut Vec<usize>) {
    for (kind, len) in fields {
        let before = out.len();
        match kind {
            0 => {
                wire::put_ef(out, T_COOKIE, cookie, 16, v5);
                lens.push(wire::be16(out, before + 2) - 4);
            }
            1 => {
                wire::put_ef(out, T_PLACEHOLDER, &vec![0u8; *len], 16, v5);
                lens.push(wire::be16(out, before + 2) - 4);
            }
            2 => wire::put_ef(out, T_UID, uid, 16, v5),
            3 => wire::put_ef(out, unknown_type(p), &p.bytes("req.extra", *len), 16, v5),
            _ => {
                wire::put_ef(out, T_COOKIE, &p.bytes("req.enc_cookie", *len), 16, v5);
                lens.push(wire::be16(out, before + 2) - 4);
            }
        }
    }
}

/// Append one authenticator field over everything already in `out`, broken in the way `fault` says.
#[allow(clippy::too_many_arguments)]
pub fn emit_auth(p: &mut dyn Pick, out: &mut Vec<u8>, alg: u16, good_key: &[u8], wrong_key: &[u8], fault: AuthFault, nonce_len: usize, pt: &[u8], pad: usize) -> bool {
    let key = if fault == AuthFault::WrongKey { wrong_key } else { good_key };
    let mut nonce = p.bytes("req.nonce", nonce_len);
    let mut aad = out.clone();
    if fault == AuthFault::AadMismatch && aad.len() >= 12 {
        // one byte of the associated data (outside version / mode bits) differs from what is sent
        let i = 4 + p.below("req.flip_at", 8) as usize;
        aad[i] ^= 0x10;
    }
    let Some(mut ct) = ntp_proto::verif::packet::siv_encrypt(alg, key, &nonce, &aad, pt) else {
        return false;
    };
    match fault {
        AuthFault::Garbage => ct = p.bytes("req.garbage", ct.len()),
        AuthFault::Truncated => ct.truncate(ct.len().saturating_sub(4)),
        AuthFault::FlipNonce if nonce_len > 0 => {
            let i = p.below("req.flip_at", nonce_len as u64) as usize;
            nonce[i] ^= 1 << p.below("req.flip_bit", 8);
        }
        AuthFault::FlipNonce => ct[0] ^= 1,
        AuthFault::FlipCiphertext => {
            let i = p.below("req.flip_at", ct.len() as u64) as usize;
            ct[i] ^= 1 << p.below("req.flip_bit", 8);
        }
        _ => {}
    }
    wire::put_auth_raw(out, &nonce, &ct, pad);
    true
}

fn build_real(p: &mut dyn Pick, keys: &SessionKeys, cookie: &[u8], l: &Layout) -> Option<Built> {
    let poll = PollInterval::from_byte(4 + p.below("req.poll", 6) as u8);
    let new_cookies = (l.placeholders + 1) as u8;
    let (mut packet, id) = if l.v5 {
        NtpPacket::nts_poll_message_v5(cookie, new_cookies, poll)
    } else {
        NtpPacket::nts_poll_message(cookie, new_cookies, poll)
    };
    if l.refid_request {
        if let Some(r) = ntp_proto::verif::packet::ReferenceIdRequest::new(16, 16 * p.below("req.refid_off", 32) as u16) {
            packet.push_additional(ExtensionField::ReferenceIdRequest(r));
        }
    }
    for _ in 0..l.extra_auth_after {
        let n = 4 * p.below("req.extra_len", 9) as usize;
        packet.push_additional(ExtensionField::Unknown { type_id: unknown_type(p), data: p.bytes("req.extra", n).into() });
    }
    let cipher = cipher_from(keys.alg, &keys.c2s)?;
    let mut buf = vec![0u8; 4096];
    let mut cur = Cursor::new(buf.as_mut_slice());
    packet.serialize(&mut cur, cipher.as_ref(), None).ok()?;
    let n = cur.position() as usize;
    buf.truncate(n);
    let uid = packet
        .authenticated_extension_fields()
        .find_map(|e| match e {
            ExtensionField::UniqueIdentifier(u) => Some(u.to_vec()),
            _ => None,
        })
        .unwrap_or_default();
    let mut lens = vec![cookie.len()];
    lens.extend(std::iter::repeat_n(cookie.len(), l.placeholders));
    let origin = wire::origin_of_request(&buf);
    Some(Built {
        bytes: buf,
        v5: l.v5,
        cookie_field_lens: lens,
        cookies_before_auth: 1,
        auth_genuine: true,
        auth_key: Some(keys.c2s.clone()),
        n_auth: 1,
        nonce_len: 16,
        uid,
        origin,
        real_builder: true,
        ident: Some(id),
    })
}

fn build_own(p: &mut dyn Pick, keys: &SessionKeys, cookie: &[u8], l: &Layout, wrong_key: &[u8]) -> Option<Built> {
    let v5 = l.v5;
    let poll = 4 + p.below("req.poll", 6) as u8;
    let rnd: [u8; 8] = p.bytes("req.origin", 8).try_into().unwrap();
    let mut out = if v5 { wire::v5_client_header(poll, rnd) } else { wire::v4_client_header(poll, rnd) };
    let mut lens = vec![];
    let mut cookies_before_auth = 0;
    for _ in 0..l.extra_auth_before {
        let n = 4 * p.below("req.extra_len", 9) as usize;
        wire::put_ef(&mut out, unknown_type(p), &p.bytes("req.extra", n), 16, v5);
    }
    let uid = p.bytes("req.uid", l.uid_len);
    wire::put_ef(&mut out, T_UID, &uid, 16, v5);
    wire::put_ef(&mut out, T_COOKIE, cookie, 16, v5);
    lens.push(cookie.len());
    cookies_before_auth += 1;
    if l.second_cookie {
        wire::put_ef(&mut out, T_COOKIE, cookie, 16, v5);
        lens.push(cookie.len());
        cookies_before_auth += 1;
    }
    let ph_len = l.placeholder_abs.unwrap_or((cookie.len() as i32 + l.placeholder_delta).max(0) as usize);
    for _ in 0..l.placeholders {
        let before = out.len();
        wire::put_ef(&mut out, T_PLACEHOLDER, &vec![0u8; ph_len], 16, v5);
        // the decoder reports the body including any minimum-size / word padding
        lens.push(wire::be16(&out, before + 2) - 4);
    }
    if v5 && l.draft_id {
        wire::put_ef(&mut out, T_DRAFT, wire::DRAFT_ID, 16, v5);
    }
    if v5 && l.refid_request {
        let mut b = vec![0u8; 16];
        b[0..2].copy_from_slice(&(16 * p.below("req.refid_off", 32) as u16).to_be_bytes());
        wire::put_ef(&mut out, T_REFREQ, &b, 16, v5);
    }
    for _ in 0..l.extra_auth_after {
        let n = 4 * p.below("req.extra_len", 9) as usize;
        wire::put_ef(&mut out, unknown_type(p), &p.bytes("req.extra", n), 16, v5);
    }
    // fields inside the ciphertext (minimum size 0 there, RFC 8915 5.5)
    let mut pt = vec![];
    pt.extend_from_slice(&enc_plaintext(p, &l.enc, cookie, v5, &mut lens));
    let mut n_auth = 0;
    // authenticators in front of the main one, each followed by its `between` fields
    for m in l.more_auths.iter().filter(|m| m.before_main) {
        let mpt = enc_plaintext(p, &m.enc, cookie, v5, &mut lens);
        if !emit_auth(p, &mut out, keys.alg, &keys.c2s, wrong_key, m.fault, 16, &mpt, 0) {
            return None;
        }
        n_auth += 1;
        between_fields(p, &mut out, &m.between, cookie, &uid, v5, &mut lens);
    }
    let auth_genuine = l.fault == AuthFault::None;
    let key: &[u8] = if l.fault == AuthFault::WrongKey { wrong_key } else { &keys.c2s };
    if !emit_auth(p, &mut out, keys.alg, &keys.c2s, wrong_key, l.fault, l.nonce_len, &pt, l.auth_pad) {
        return None;
    }
    n_auth += 1;
    for m in l.more_auths.iter().filter(|m| !m.before_main) {
        between_fields(p, &mut out, &m.between, cookie, &uid, v5, &mut lens);
        let mpt = enc_plaintext(p, &m.enc, cookie, v5, &mut lens);
        if !emit_auth(p, &mut out, keys.alg, &keys.c2s, wrong_key, m.fault, 16, &mpt, 0) {
            return None;
        }
        n_auth += 1;
    }
    let n_tr = l.trailing_untrusted;
    for i in 0..n_tr {
        let n = 4 * p.below("req.extra_len", 9) as usize;
        let min = if v5 { 4 } else if i + 1 == n_tr { 28 } else { 16 };
        wire::put_ef(&mut out, unknown_type(p), &p.bytes("req.extra", n), min, v5);
    }
    let origin = wire::origin_of_request(&out);
    Some(Built {
        bytes: out,
        v5,
        cookie_field_lens: lens,
        cookies_before_auth,
        auth_genuine,
        auth_key: if l.fault == AuthFault::None || l.fault == AuthFault::WrongKey { Some(key.to_vec()) } else { None },
        n_auth,
        nonce_len: l.nonce_len,
        uid,
        origin,
        real_builder: false,
        ident: None,
    })
}
