//! Simulated nodes shared by the exploration world and the C25 enumeration:
//! server nodes running the REAL `ntp_proto::Server` fed from a REAL
//! `KeySetProvider`, and the harness-side description of NTS sessions.

use std::net::{IpAddr, Ipv4Addr};
use std::sync::{Arc, RwLock};
use std::time::Duration;

use ntp_proto::verif::keyset::{self as fk, KeySetView, SessionKeys};
use ntp_proto::{
    FilterAction, FilterList, IpSubnet, KeySet, KeySetProvider, NtpServerInfo, NtpVersion, Server, ServerAction,
    ServerConfig, ServerReason, ServerResponse, ServerStatHandler,
};
use simkit::Rng;
use simntp::SimClock;

pub fn rand_bytes(r: &mut Rng, n: usize) -> Vec<u8> {
    let mut v = Vec::with_capacity(n);
    while v.len() < n {
        let x = r.next_u64().to_le_bytes();
        let take = (n - v.len()).min(8);
        v.extend_from_slice(&x[..take]);
    }
    v
}

pub fn rand8(r: &mut Rng) -> [u8; 8] {
    r.next_u64().to_le_bytes()
}

/// Fresh session keys for the given AEAD algorithm (15 / 17).
pub fn mint_keys(r: &mut Rng, alg: u16) -> SessionKeys {
    let n = fk::key_len(alg).expect("known algorithm");
    SessionKeys { alg, s2c: rand_bytes(r, n), c2s: rand_bytes(r, n) }
}

pub fn client_ip(sess: usize) -> IpAddr {
    IpAddr::V4(Ipv4Addr::new(10, 0, 0, 10 + sess as u8))
}

#[derive(Clone, Copy, Debug, PartialEq)]
pub enum Policy {
    Allow,
    Deny,
    Ignore,
}

#[derive(Clone, Debug, Default)]
pub struct RecStats {
    pub calls: Vec<(u8, bool, ServerReason, ServerResponse)>,
}

impl ServerStatHandler for RecStats {
    fn register(&mut self, version: u8, nts: bool, reason: ServerReason, response: ServerResponse) {
        self.calls.push((version, nts, reason, response));
    }
}

/// Harness-side description of the server's policy (exact /32 entries, so the
/// model is plain set membership).
#[derive(Clone, Debug)]
pub struct PolicyModel {
    pub denied: Vec<IpAddr>,
    pub deny_action: Policy,
    /// None = everybody allowed; Some(list, action for the others)
    pub allow_only: Option<(Vec<IpAddr>, Policy)>,
    pub accept_v4: bool,
    pub accept_v5: bool,
    pub require_nts: Option<Policy>,
}

impl PolicyModel {
    pub fn open() -> PolicyModel {
        PolicyModel { denied: vec![], deny_action: Policy::Ignore, allow_only: None, accept_v4: true, accept_v5: true, require_nts: None }
    }
    pub fn of(&self, ip: IpAddr) -> Policy {
        if self.denied.contains(&ip) {
            return self.deny_action;
        }
        if let Some((list, p)) = &self.allow_only {
            if !list.contains(&ip) {
                return *p;
            }
        }
        Policy::Allow
    }
    fn to_config(&self) -> ServerConfig {
        let act = |p: Policy| if p == Policy::Deny { FilterAction::Deny } else { FilterAction::Ignore };
        let sub = |a: &IpAddr| IpSubnet { addr: *a, mask: 32 };
        let deny_action = act(self.deny_action);
        let (allow, allow_action) = match &self.allow_only {
            None => (
                vec![
                    IpSubnet { addr: IpAddr::V4(Ipv4Addr::UNSPECIFIED), mask: 0 },
                    IpSubnet { addr: IpAddr::V6(std::net::Ipv6Addr::UNSPECIFIED), mask: 0 },
                ],
                FilterAction::Ignore,
            ),
            Some((l, p)) => (l.iter().map(sub).collect(), act(*p)),
        };
        let mut versions = vec![NtpVersion::V3];
        if self.accept_v4 {
            versions.push(NtpVersion::V4);
        }
        if self.accept_v5 {
            versions.push(NtpVersion::V5);
        }
        ServerConfig {
            denylist: FilterList { filter: self.denied.iter().map(sub).collect(), action: deny_action },
            allowlist: FilterList { filter: allow, action: allow_action },
            // rate limiting off: independent of the hooked limiter clock
            rate_limiting_cache_size: 0,
            rate_limiting_cutoff: Duration::from_millis(0),
            require_nts: self.require_nts.map(act),
            accepted_versions: versions,
        }
    }
}

pub struct ServerNode {
    pub idx: usize,
    pub provider: KeySetProvider,
    pub server: Server<SimClock>,
    pub clock: SimClock,
    pub history: usize,
    /// model: number of rotations so far (== id of the newest key, by the rotation rule
    /// "each rotation adds one key with the next id")
    pub epoch: u64,
    /// model: rotation epochs (= key ids) of the keys the set holds, oldest first.
    /// rotate(): keep the newest `history` of them, add the new epoch. A restart
    /// (store -> load with a possibly different history) keeps the list and only
    /// changes the history in force.
    pub live: Vec<u64>,
    pub restarts: u32,
    pub policy: PolicyModel,
    pub stats: RecStats,
}

/// What the C26 statement says about a cookie issued at some epoch, now.
#[derive(Clone, Copy, Debug, PartialEq)]
pub enum CookieState {
    /// its key is the current one or among the configured number of previous keys: must decode
    Valid,
    /// its key is gone: must not decode
    Invalid,
    /// its key is still stored but outside the window of the history now in force (only between a
    /// restart that lowered the history and the next rotation): the statement is read as allowing either
    Either,
}

pub enum Handled {
    Crash(String),
    Ignore,
    Respond(Vec<u8>),
}

impl ServerNode {
    pub fn new(idx: usize, history: usize, policy: PolicyModel, clock_epoch: u64) -> ServerNode {
        let provider = KeySetProvider::new(history);
        let clock = SimClock::new("srv", clock_epoch, 0.0, 0.0);
        let mut info = NtpServerInfo::default();
        info.ntp_snapshot.stratum = 2;
        let server = Server::new_internal(policy.to_config(), clock.clone(), Arc::new(RwLock::new(info)), provider.get());
        ServerNode { idx, provider, server, clock, history, epoch: 0, live: vec![0], restarts: 0, policy, stats: RecStats::default() }
    }

    pub fn keyset(&self) -> Arc<KeySet> {
        self.provider.get()
    }

    pub fn view(&self) -> KeySetView {
        self.provider.get().verif_view()
    }

    /// Real rotation + handing the new key set to the server (what the daemon's
    /// key-provider task and ServerTask do between two datagrams).
    pub fn rotate(&mut self) {
        self.provider.rotate();
        self.epoch += 1;
        let keep = self.live.len().min(self.history);
        let drop = self.live.len() - keep;
        self.live.drain(..drop);
        self.live.push(self.epoch);
        self.server.update_keyset(self.provider.get());
    }

    /// Daemon restart: the key set is persisted with the real `store`, read back with the real
    /// `load` under `new_history` (the operator may have changed stale-key-count) and a new
    /// `Server` is built around it. Returns false if the stored set does not load.
    pub fn restart(&mut self, new_history: usize) -> bool {
        let mut file = Vec::new();
        if self.provider.store(&mut file).is_err() {
            return false;
        }
        let Ok((provider, _)) = KeySetProvider::load(&mut &file[..], new_history) else {
            return false;
        };
        self.provider = provider;
        self.history = new_history;
        self.restarts += 1;
        let mut info = NtpServerInfo::default();
        info.ntp_snapshot.stratum = 2;
        self.server = Server::new_internal(self.policy.to_config(), self.clock.clone(), Arc::new(RwLock::new(info)), self.provider.get());
        true
    }

    pub fn model_state(&self, issue_epoch: u64) -> CookieState {
        match self.live.iter().position(|e| *e == issue_epoch) {
            None => CookieState::Invalid,
            Some(i) => {
                let window_start = self.live.len().saturating_sub(self.history + 1);
                if i >= window_start { CookieState::Valid } else { CookieState::Either }
            }
        }
    }

    /// model: must a cookie issued at `issue_epoch` decode now?
    pub fn model_valid(&self, issue_epoch: u64) -> bool {
        self.model_state(issue_epoch) == CookieState::Valid
    }

    /// Deliver one datagram to the real server. `buf_len`: size of the reply buffer.
    pub fn handle(&mut self, from: IpAddr, msg: &[u8], buf_len: usize) -> Handled {
        ntp_proto::verif::set_mono_ns(simkit::now_ns());
        self.stats.calls.clear();
        let recv_ts = self.clock.now_ts();
        let mut buf = vec![0u8; buf_len];
        let server = &mut self.server;
        let stats = &mut self.stats;
        let r = simkit::exec::catch(|| match server.handle(from, recv_ts, msg, &mut buf, stats) {
            ServerAction::Ignore => None,
            ServerAction::Respond { message } => Some(message.to_vec()),
        });
        match r {
            Err(m) => Handled::Crash(m),
            Ok(None) => Handled::Ignore,
            Ok(Some(v)) => Handled::Respond(v),
        }
    }

    pub fn last_stat(&self) -> Option<(u8, bool, ServerReason, ServerResponse)> {
        self.stats.calls.last().copied()
    }
}
