//! C25 as a fault enumeration: run index -> (genuine NTS packet sample k, byte
//! position); the run applies every single-bit flip (and a set of single-byte
//! overwrites) at that position, hands the damaged datagram to the REAL receiver
//! (server keyset for requests, s2c session key for responses) and compares what
//! the receiver reports with what the harness's own region map allows.

use std::sync::OnceLock;

use ntp_proto::verif::keyset::{self as fk, SessionKeys};
use ntp_proto::verif::packet::{PacketEfView, RequestIdentifier};
use ntp_proto::{NtpAssociationMode, NtpPacket, PacketParsingError, PollInterval, ServerResponse};
use simkit::rng::mix;
use simkit::{check, ev, Rng};

use crate::node::{client_ip, mint_keys, Handled, PolicyModel, ServerNode};
use crate::req::{self, Layout, Pick, RngPick};
use crate::wire::{self, Region, RegionMap, RespKind};

pub fn n_samples(thorough: bool) -> u64 {
    if thorough { 2400 } else { 160 }
}

fn batch_seed() -> u64 {
    std::env::var("VERIF_SEED").ok().and_then(|s| s.trim().parse::<i64>().ok()).map(|v| v as u64).unwrap_or(1)
}

pub struct Sample {
    pub k: u64,
    pub is_response: bool,
    pub v5: bool,
    pub keys: SessionKeys,
    /// the genuine datagram whose positions are enumerated
    pub bytes: Vec<u8>,
    /// request the response answers (response samples)
    pub request: Vec<u8>,
    pub ident: Option<RequestIdentifier>,
    pub server: ServerNode,
    pub sess: usize,
}

/// Generate sample k. Function of (VERIF_SEED, k) only: reseeds the code-under-test
/// RNG and draws harness decisions from a private PRNG. Needs a sim context only
/// for the simulated clock; logs nothing and draws nothing from the choice stream.
pub fn sample(k: u64, plain: bool) -> Option<Sample> {
    let s = mix(&[batch_seed(), 0x6332_35, k]);
    rand::verif_seed(s);
    ntp_proto::verif::reset(s);
    let mut p = RngPick(Rng::new(s ^ 0x5151));
    let is_response = k & 1 == 1;
    let v5 = (k >> 1) & 1 == 1;
    let alg = if (k >> 2) & 1 == 1 { fk::ALG_SIV_CMAC_512 } else { fk::ALG_SIV_CMAC_256 };
    let history = [1usize, 0, 2, 5][p.below("", 4) as usize];
    let mut server = ServerNode::new(0, history, PolicyModel::open(), 0xE000_0000_0000_0000 ^ (s & 0xffff_ffff));
    let pre = p.below("", 4);
    for _ in 0..pre {
        server.rotate();
    }
    let keys = mint_keys(&mut p.0, alg);
    let cookie = fk::encode_cookie(&server.keyset(), &keys)?;
    // rotations after minting, staying inside the validity window
    let post = p.below("", history as u64 + 1);
    for _ in 0..post {
        server.rotate();
    }
    let mut l = Layout::random(&mut p, v5, false);
    l.placeholders = ((k >> 3) % 8) as usize;
    if is_response {
        l.real_builder = true;
    }
    if plain {
        l.extra_auth_after = 0;
        l.extra_auth_before = 0;
        l.enc.clear();
        l.placeholder_abs = None;
        l.trailing_untrusted = 0;
        l.placeholder_delta = l.placeholder_delta.min(0);
    }
    let wrong = vec![0u8; keys.c2s.len()];
    let sess = (k % 200) as usize;
    let (request, ident) = if l.real_builder {
        // the repo's client: keep the request identifier for the client-side acceptance check
        let poll = PollInterval::from_byte(6);
        let (mut packet, id) = if v5 {
            NtpPacket::nts_poll_message_v5(&cookie, (l.placeholders + 1) as u8, poll)
        } else {
            NtpPacket::nts_poll_message(&cookie, (l.placeholders + 1) as u8, poll)
        };
        if l.refid_request {
            if let Some(r) = ntp_proto::verif::packet::ReferenceIdRequest::new(16, 16 * p.below("", 32) as u16) {
                packet.push_additional(ntp_proto::verif::packet::ExtensionField::ReferenceIdRequest(r));
            }
        }
        for _ in 0..l.extra_auth_after {
            let n = 4 * p.below("", 9) as usize;
            let data = p.bytes("", n);
            packet.push_additional(ntp_proto::verif::packet::ExtensionField::Unknown { type_id: 0x0800, data: data.into() });
        }
        let cipher = fk::cipher_from(keys.alg, &keys.c2s)?;
        let mut buf = vec![0u8; 4096];
        let mut cur = std::io::Cursor::new(buf.as_mut_slice());
        packet.serialize(&mut cur, cipher.as_ref(), None).ok()?;
        let n = cur.position() as usize;
        buf.truncate(n);
        (buf, Some(id))
    } else {
        (req::build(&mut p, &keys, &cookie, &l, &wrong)?.bytes, None)
    };
    if request.len() > 1600 {
        return None;
    }
    let bytes = if is_response {
        match server.handle(client_ip(sess), &request, 4096) {
            Handled::Respond(r) => r,
            _ => return None,
        }
    } else {
        request.clone()
    };
    Some(Sample { k, is_response, v5, keys, bytes, request, ident, server, sess })
}

/// sample k with a fallback to ever plainer layouts so that every k yields a packet
fn sample_or_plain(k: u64) -> Sample {
    for j in 0..8u64 {
        if let Some(s) = sample(k + j * (1 << 20), j > 0) {
            return s;
        }
    }
    panic!("cannot generate C25 sample {k}");
}

static TABLE: OnceLock<[Vec<u64>; 2]> = OnceLock::new();

fn build_table() -> [Vec<u64>; 2] {
    let mk = |n: u64| {
        let mut starts = Vec::with_capacity(n as usize + 1);
        let mut acc = 0u64;
        for k in 0..n {
            starts.push(acc);
            acc += sample_or_plain(k).bytes.len() as u64;
        }
        starts.push(acc);
        starts
    };
    [mk(n_samples(false)), mk(n_samples(true))]
}

/// prefix sums of the sample lengths; computed once per process (needs a sim context)
fn table() -> &'static [Vec<u64>; 2] {
    TABLE.get_or_init(build_table)
}

/// Size of the enumerated space (called by the batch driver outside any run).
pub fn space(thorough: bool) -> u64 {
    if TABLE.get().is_none() {
        // sample generation needs a simkit context for the simulated clock
        let spec = simkit::RunSpec { seed: 0, run_index: 0, focus: "C25", thorough, replay: None, keep_log: false, event_cap: 1000 };
        let _ = simkit::run_one(&spec, &|| {
            let _ = table();
        });
    }
    *TABLE.get().expect("C25 table")[thorough as usize].last().unwrap()
}

struct Seen {
    view: PacketEfView,
    cookie: Option<SessionKeys>,
    parsed: bool,
}

fn decode_as_server(bytes: &[u8], s: &Sample) -> Result<Seen, String> {
    let ks = s.server.keyset();
    simkit::exec::catch(|| match NtpPacket::deserialize(bytes, ks.as_ref()) {
        Ok((p, c)) => Seen { view: p.verif_ef_view(), cookie: c.map(|c| fk::cookie_keys_view(&c)), parsed: true },
        Err(PacketParsingError::DecryptError(p)) => Seen { view: p.verif_ef_view(), cookie: None, parsed: false },
        Err(_) => Seen { view: PacketEfView::default(), cookie: None, parsed: false },
    })
}

struct ClientSeen {
    seen: Seen,
    /// the client would take the packet as a time sample for its pending request
    accepted: bool,
}

fn decode_as_client(bytes: &[u8], s: &Sample) -> Result<ClientSeen, String> {
    let cipher = fk::cipher_from(s.keys.alg, &s.keys.s2c).expect("cipher");
    let ident = s.ident;
    simkit::exec::catch(|| match NtpPacket::deserialize(bytes, cipher.as_ref()) {
        Ok((p, _)) => {
            let accepted = match ident {
                Some(id) => {
                    p.valid_server_response(id, true) && !p.is_kiss() && p.mode() == NtpAssociationMode::Server && p.stratum() <= 16
                }
                None => false,
            };
            ClientSeen { seen: Seen { view: p.verif_ef_view(), cookie: None, parsed: true }, accepted }
        }
        Err(PacketParsingError::DecryptError(p)) => {
            ClientSeen { seen: Seen { view: p.verif_ef_view(), cookie: None, parsed: false }, accepted: false }
        }
        Err(_) => ClientSeen { seen: Seen { view: PacketEfView::default(), cookie: None, parsed: false }, accepted: false },
    })
}

fn mutations(old: u8, thorough: bool, r: &mut Rng) -> Vec<(u8, &'static str)> {
    let mut m: Vec<(u8, &'static str)> = (0..8).map(|b| (old ^ (1 << b), "flip")).collect();
    let mut sets = vec![0x00u8, r.next_u64() as u8];
    if thorough {
        sets.extend_from_slice(&[0xff, old.wrapping_add(1), old.wrapping_sub(1), old ^ 0xff, r.next_u64() as u8]);
    }
    for v in sets {
        if v != old && !m.iter().any(|(x, _)| *x == v) {
            m.push((v, "set"));
        }
    }
    m
}

pub fn run() {
    simntp::reset_hooks();
    let thorough = simkit::thorough();
    let tab = &table()[thorough as usize];
    let idx = simkit::run_index();
    let total = *tab.last().unwrap();
    if idx >= total {
        ntp_proto::verif::clear();
        return;
    }
    // sample k = last start <= idx
    let k = tab.partition_point(|s| *s <= idx) as u64 - 1;
    let pos = (idx - tab[k as usize]) as usize;
    let mut s = sample_or_plain(k);
    let orig = s.bytes.clone();
    let map = RegionMap::of(&orig);
    let region = map.region(pos);
    ev!("c25 sample={k} {} v{} alg={} len={} pos={pos} region={region:?}", if s.is_response { "response" } else { "request" }, if s.v5 { 5 } else { 4 }, s.keys.alg, orig.len());

    // the genuine packet must authenticate: otherwise the sample is useless (harness problem)
    let genuine = if s.is_response {
        decode_as_client(&orig, &s).map(|c| (c.seen, c.accepted))
    } else {
        decode_as_server(&orig, &s).map(|c| (c, true))
    };
    let (gseen, gacc) = match genuine {
        Ok(x) => x,
        Err(m) => {
            simkit::violation("C23", "c23-panic-genuine-packet", format!("sample {k}: {m}"));
            return;
        }
    };
    if !gseen.parsed || gseen.view.authenticated.is_empty() || (!s.is_response && gseen.cookie.as_ref() != Some(&s.keys)) || (s.is_response && !gacc) {
        simkit::abort(format!("C25 sample {k} is not a genuine authenticated packet (parsed={} auth={} acc={gacc})", gseen.parsed, gseen.view.authenticated.len()));
        return;
    }
    if region == Region::NoAuth {
        simkit::abort(format!("C25 sample {k}: own walker finds no authenticator"));
        return;
    }
    match region {
        Region::Header => simkit::probe("c25-region-header"),
        Region::PreFraming => simkit::probe("c25-region-pre-framing"),
        Region::PreBody => simkit::probe("c25-region-pre-body"),
        Region::AuthHeader => simkit::probe("c25-region-auth-header"),
        Region::Nonce => simkit::probe("c25-region-nonce"),
        Region::Ciphertext => simkit::probe("c25-region-ciphertext"),
        Region::AuthPadding => simkit::probe("c25-region-auth-padding"),
        Region::After => simkit::probe("c25-region-after"),
        Region::NoAuth => {}
    }

    let mut r = Rng::new(mix(&[k, pos as u64, 0x6d75]));
    for (val, kind) in mutations(orig[pos], thorough, &mut r) {
        let mut m = orig.clone();
        m[pos] = val;
        simkit::fault(if kind == "flip" { "bitflip" } else { "byteset" });
        let (seen, accepted) = if s.is_response {
            match decode_as_client(&m, &s) {
                Ok(c) => (c.seen, c.accepted),
                Err(msg) => {
                    simkit::violation("C23", "c23-panic-session-keys", format!("sample {k} pos {pos} val {val:#x}: {msg}"));
                    continue;
                }
            }
        } else {
            match decode_as_server(&m, &s) {
                Ok(c) => (c, false),
                Err(msg) => {
                    simkit::violation("C23", "c23-panic-server-keys", format!("sample {k} pos {pos} val {val:#x}: {msg}"));
                    continue;
                }
            }
        };
        let none_auth = seen.view.authenticated.is_empty() && seen.view.encrypted.is_empty();
        if region.protected() {
            check!(
                "C25",
                "c25-protected-change-authenticates",
                none_auth && seen.cookie.is_none(),
                "sample {k} ({}) pos {pos} ({region:?}) {kind} -> {val:#04x}: receiver reports {} authenticated, {} encrypted fields, cookie keys {}",
                if s.is_response { "response" } else { "request" },
                seen.view.authenticated.len(),
                seen.view.encrypted.len(),
                seen.cookie.is_some()
            );
        } else {
            let same = seen.view.authenticated == gseen.view.authenticated && seen.view.encrypted == gseen.view.encrypted;
            let cookie_ok = seen.cookie.is_none() || seen.cookie == gseen.cookie;
            check!(
                "C25",
                "c25-unprotected-change-alters-authenticated-content",
                (none_auth || same) && cookie_ok,
                "sample {k} pos {pos} ({region:?}) {kind} -> {val:#04x}: authenticated/encrypted lists differ from the original's ({} / {} fields vs {} / {})",
                seen.view.authenticated.len(),
                seen.view.encrypted.len(),
                gseen.view.authenticated.len(),
                gseen.view.encrypted.len()
            );
            if !none_auth {
                simkit::probe("c25-unprotected-still-authentic");
            }
        }
        // node level
        if s.is_response {
            if region.protected() {
                check!(
                    "C25",
                    "c25-client-takes-tampered-response-as-time",
                    !accepted,
                    "sample {k} pos {pos} ({region:?}) {kind} -> {val:#04x}: client accepts the response as a time sample"
                );
            }
        } else {
            let h = s.server.handle(client_ip(s.sess), &m, 4096);
            let stat = s.server.last_stat();
            match h {
                Handled::Crash(msg) => simkit::violation("C23", "c23-panic-server-keys", format!("sample {k} pos {pos} val {val:#x}: {msg}")),
                Handled::Ignore => {
                    if region.protected() {
                        simkit::oracle("C25");
                    }
                }
                Handled::Respond(resp) => {
                    if region.protected() {
                        let own = wire::own_authenticate(&resp, s.keys.alg, &s.keys.s2c);
                        let kind_r = wire::classify_response(&resp);
                        let nts_time = matches!(stat, Some((_, true, _, ServerResponse::ProvideTime)));
                        check!(
                            "C25",
                            "c25-server-answers-tampered-request-as-authentic",
                            !own.verified && !nts_time && !(kind_r == RespKind::Time && wire::walk(&resp).fields.iter().any(|f| f.type_id == wire::T_AUTH)),
                            "sample {k} pos {pos} ({region:?}) {kind} -> {val:#04x}: server answer kind {kind_r:?} verified-under-s2c={} stat={stat:?}",
                            own.verified
                        );
                    }
                }
            }
        }
    }
    ntp_proto::verif::clear();
}
