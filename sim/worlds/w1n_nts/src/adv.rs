//! Structure-preserving adversarial datagrams (C23): layouts that walk the
//! decoder through its length arithmetic — nested / overlapping extension-field
//! lengths, zero-length fields, authenticators with absurd nonce / ciphertext
//! lengths, validly encrypted garbage, NTPv5 fields with odd bodies, legacy MACs.

use ntp_proto::verif::keyset::SessionKeys;

use crate::req::Pick;
use crate::wire::{self, T_AUTH, T_COOKIE, T_DRAFT, T_PAD, T_PLACEHOLDER, T_REFREQ, T_REFRESP, T_UID};

fn header(p: &mut dyn Pick, to_server: bool) -> (Vec<u8>, bool) {
    let version = [4u8, 5, 4, 5, 3, 4, 5, 0, 7][p.below("adv.version", 9) as usize];
    let mode = if p.odds("adv.mode", 1, 8) { p.below("adv.mode_v", 8) as u8 } else if to_server { 3 } else { 4 };
    let mut h = p.bytes("adv.header", wire::HEADER);
    h[0] = ((p.below("adv.li", 4) as u8) << 6) | (version << 3) | mode;
    if !p.odds("adv.hdr_random", 1, 4) {
        // a header the v5 parser accepts: timescale 0..3, flags clean
        h[12] = p.below("adv.timescale", 4) as u8;
        h[14] = 0;
        h[15] = p.below("adv.flags", 8) as u8;
        h[1] = if to_server { 0 } else { p.below("adv.stratum", 18) as u8 };
    }
    (h, version == 5)
}

fn odd_len(p: &mut dyn Pick) -> usize {
    [0usize, 1, 2, 3, 4, 5, 7, 8, 12, 15, 16, 17, 24, 28, 31, 32, 33, 64, 100, 255, 256, 1000][p.below("adv.len", 22) as usize]
}

/// one hostile field appended to `out`
fn hostile_field(p: &mut dyn Pick, out: &mut Vec<u8>, v5: bool, keys: Option<&SessionKeys>, cookie: Option<&[u8]>, depth: u32) {
    let kind = p.below("adv.field", 19);
    match kind {
        16..=18 => inner_length_field(p, out, v5, cookie),
        0 => {
            // well-formed unknown field
            let n = odd_len(p).min(300);
            let body = p.bytes("adv.body", n);
            wire::put_ef(out, 0x0900, &body, 0, v5);
        }
        1 => {
            // declared length smaller than the header / tiny
            let l = p.below("adv.tiny", 4) as u16;
            wire::put_raw_ef(out, 0x0104, l, &[]);
        }
        2 => {
            // zero-length body
            let t = [T_UID, T_COOKIE, T_PLACEHOLDER, T_AUTH, T_DRAFT, T_PAD, T_REFREQ, T_REFRESP][p.below("adv.zt", 8) as usize];
            wire::put_raw_ef(out, t, 4, &[]);
        }
        3 => {
            // length not a multiple of four, body padded or not
            let n = odd_len(p).min(200);
            let body = p.bytes("adv.body", n);
            let t = [T_UID, T_COOKIE, 0x0900, T_REFRESP, T_DRAFT][p.below("adv.nt", 5) as usize];
            wire::put_raw_ef(out, t, (4 + n) as u16, &body);
            if p.below("adv.pad", 2) == 0 {
                out.resize(wire::up4(out.len()), 0);
            }
        }
        4 => {
            // length reaching beyond the datagram
            let l = [0xffffu16, 0x8000, 0x0404, 2000, 1028][p.below("adv.big", 5) as usize];
            let n = odd_len(p).min(64);
            let body = p.bytes("adv.body", n);
            wire::put_raw_ef(out, [T_UID, T_AUTH, T_COOKIE, 0x0900][p.below("adv.bt", 4) as usize], l, &body);
        }
        5 => {
            // authenticator with absurd nonce / ciphertext lengths
            let nl = [0u16, 1, 15, 16, 17, 0xffff, 0x7fff, 4, 32][p.below("adv.nl", 9) as usize];
            let cl = [0u16, 1, 15, 16, 17, 0xffff, 0x8000, 4, 64][p.below("adv.cl", 9) as usize];
            let n = odd_len(p).min(120);
            let mut body = vec![];
            body.extend_from_slice(&nl.to_be_bytes());
            body.extend_from_slice(&cl.to_be_bytes());
            body.extend_from_slice(&p.bytes("adv.body", n));
            body.resize(wire::up4(body.len()), 0);
            wire::put_raw_ef(out, T_AUTH, (4 + body.len()) as u16, &body);
        }
        6 | 7 => {
            // validly encrypted contents (the peer holds session keys): hostile inner fields, odd nonce lengths
            if let Some(k) = keys {
                let mut pt = vec![];
                let n_inner = p.below("adv.inner", 4);
                for _ in 0..n_inner {
                    if depth < 2 {
                        let nest = p.below("adv.nest", 3) == 0;
                        hostile_field(p, &mut pt, v5, if nest { Some(k) } else { None }, cookie, depth + 1);
                    }
                }
                let nonce_len = [16usize, 16, 0, 1, 12, 15, 17, 24, 32, 64][p.below("adv.nonce_len", 10) as usize];
                let nonce = p.bytes("adv.nonce", nonce_len);
                let key = if kind == 6 { &k.c2s } else { &k.s2c };
                wire::put_auth(out, k.alg, key, &nonce, &pt);
            } else {
                let n = odd_len(p).min(64);
                let body = p.bytes("adv.body", n);
                wire::put_ef(out, T_AUTH, &body, 0, v5);
            }
        }
        8 => {
            // placeholder with non-zero body / huge placeholder
            let n = odd_len(p).min(400);
            let mut body = vec![0u8; n];
            if n > 0 && p.below("adv.ph_dirty", 2) == 1 {
                body[n - 1] = 1;
            }
            wire::put_ef(out, T_PLACEHOLDER, &body, 0, v5);
        }
        9 => {
            // draft identification: right, wrong, non-ascii, non-utf8, NUL padded
            let body: Vec<u8> = match p.below("adv.draft", 5) {
                0 => wire::DRAFT_ID.to_vec(),
                1 => b"draft-ietf-ntp-ntpv5-08".to_vec(),
                2 => vec![0xff, 0xfe, 0x80],
                3 => "dr\u{e4}ft".as_bytes().to_vec(),
                _ => [wire::DRAFT_ID, &[0, 0, 0]].concat(),
            };
            wire::put_ef(out, T_DRAFT, &body, 0, v5);
        }
        10 => {
            // reference id request with short / odd / huge bodies
            let n = [0usize, 1, 2, 3, 4, 5, 16, 510, 512, 516, 1000][p.below("adv.rr", 11) as usize];
            let mut body = vec![0u8; n];
            if n >= 2 {
                let off = [0u16, 16, 496, 500, 512, 0xffff][p.below("adv.rr_off", 6) as usize];
                body[0..2].copy_from_slice(&off.to_be_bytes());
            }
            wire::put_raw_ef(out, T_REFREQ, (4 + n) as u16, &body);
            out.resize(wire::up4(out.len()), 0);
        }
        11 => {
            let n = odd_len(p).min(520);
            let body = p.bytes("adv.body", n);
            wire::put_raw_ef(out, T_REFRESP, (4 + n) as u16, &body);
            out.resize(wire::up4(out.len()), 0);
        }
        12 => {
            let n = odd_len(p).min(300);
            wire::put_ef(out, T_PAD, &vec![0u8; n], 0, v5);
        }
        13 => {
            // a cookie the attacker saw on the wire (or garbage of cookie size)
            match cookie {
                Some(c) => wire::put_ef(out, T_COOKIE, c, 16, v5),
                None => {
                    let n = [0usize, 21, 22, 23, 104, 168][p.below("adv.ck", 6) as usize];
                    let body = p.bytes("adv.body", n);
                    wire::put_ef(out, T_COOKIE, &body, 0, v5);
                }
            }
        }
        14 => {
            let n = odd_len(p).min(100);
            let body = p.bytes("adv.body", n);
            wire::put_ef(out, T_UID, &body, 0, v5);
        }
        _ => {
            // raw noise
            let n = odd_len(p).min(60);
            out.extend_from_slice(&p.bytes("adv.noise", n));
        }
    }
}


fn delta(p: &mut dyn Pick) -> i64 {
    [0i64, 1, 2, 3, -1, -2, -3, 4, -4, -8, 16][p.below("adv.il_delta", 11) as usize]
}

fn rel(base: usize, d: i64) -> u16 {
    (base as i64 + d).clamp(0, 0xffff) as u16
}

/// One field of a type whose value carries INNER lengths (authenticator: nonce and ciphertext
/// length; NTS cookie: ciphertext length; reference-id request: offset), with a value length of
/// any alignment and the inner lengths chosen relative to what is left of the value: exactly
/// filling it, overshooting / undershooting it by 1..3 (or a word), zero.
pub fn inner_length_field(p: &mut dyn Pick, out: &mut Vec<u8>, v5: bool, cookie: Option<&[u8]>) {
    let v = [0usize, 1, 2, 3, 4, 5, 6, 7, 8, 9, 10, 11, 12, 13, 15, 16, 17, 19, 20, 21, 22, 23, 24, 25, 27, 36, 37, 38, 39, 40, 41, 43, 63, 70][p.below("adv.il_value", 34) as usize];
    let mut value = p.bytes("adv.il_bytes", v);
    let type_id = match p.below("adv.il_kind", 4) {
        0 | 1 => {
            // authenticator: nonce length, ciphertext length, nonce (padded), ciphertext (padded)
            let rest = v.saturating_sub(4);
            let (nl, cl) = match p.below("adv.il_shape", 4) {
                // the nonce (nearly) fills the value
                0 => (rel(rest, delta(p)), [0u16, 1, 4, 16][p.below("adv.il_cl", 4) as usize]),
                // a nonce of some length, the ciphertext (nearly) fills what is left after it, padded or not
                1 => {
                    let n = p.below("adv.il_nl", rest as u64 + 1) as usize;
                    (n as u16, rel(rest.saturating_sub(wire::up4(n)), delta(p)))
                }
                2 => {
                    let n = p.below("adv.il_nl", rest as u64 + 1) as usize;
                    (n as u16, rel(rest.saturating_sub(n), delta(p)))
                }
                // the padded nonce ends exactly at / just beyond the end, no ciphertext
                _ => {
                    let n = rest.saturating_sub(p.below("adv.il_back", 4) as usize);
                    (n as u16, 0)
                }
            };
            if v >= 2 {
                value[0..2].copy_from_slice(&nl.to_be_bytes());
            }
            if v >= 4 {
                value[2..4].copy_from_slice(&cl.to_be_bytes());
            }
            T_AUTH
        }
        2 => {
            // cookie: key id (one the server knows, if we saw a cookie), ciphertext length, nonce, ciphertext
            if let (Some(c), true) = (cookie, v >= 4) {
                value[0..4].copy_from_slice(&c[0..4]);
            }
            if v >= 6 {
                let ct = rel(v.saturating_sub(22), delta(p));
                value[4..6].copy_from_slice(&ct.to_be_bytes());
            }
            T_COOKIE
        }
        _ => {
            if v >= 2 {
                let off = rel(512usize.saturating_sub(v), delta(p));
                value[0..2].copy_from_slice(&off.to_be_bytes());
            }
            T_REFREQ
        }
    };
    // declared length: exact (unaligned allowed in v5), or rounded the wrong way
    let declared = match p.below("adv.il_declared", 5) {
        0 | 1 | 2 => 4 + v,
        3 => wire::up4(4 + v),
        _ => (4 + v) & !3,
    };
    wire::put_raw_ef(out, type_id, declared as u16, &value);
    // wire padding to the next word: usually present (the outer framing check passes), sometimes not
    if p.below("adv.il_wirepad", 4) != 3 {
        out.resize(wire::up4(out.len()), 0);
    }
}

/// A minimal hostile datagram around inner-length fields: a header the parser accepts, at most a
/// few well-formed fields, inner-length field(s), optionally a shape-valid authenticator after a
/// hostile cookie (so that the server's cookie decoder is reached).
pub fn forge_inner(p: &mut dyn Pick, to_server: bool, cookie: Option<&[u8]>) -> Vec<u8> {
    let v5 = p.below("adv.fi_v5", 3) != 2;
    let mut out = p.bytes("adv.header", wire::HEADER);
    out[0] = ((if v5 { 5 } else { 4 }) << 3) | if to_server { 3 } else { 4 };
    out[1] = if to_server { 0 } else { 1 + p.below("adv.stratum", 15) as u8 };
    if v5 {
        out[12] = p.below("adv.timescale", 4) as u8;
        out[14] = 0;
        out[15] = p.below("adv.flags", 8) as u8;
    }
    if p.below("adv.fi_uid", 2) == 1 {
        let uid = p.bytes("adv.body", 32);
        wire::put_ef(&mut out, T_UID, &uid, 16, v5);
    }
    if v5 && p.below("adv.fi_draft", 2) == 1 {
        wire::put_ef(&mut out, T_DRAFT, wire::DRAFT_ID, 4, v5);
    }
    let n = 1 + p.below("adv.fi_n", 2);
    for _ in 0..n {
        inner_length_field(p, &mut out, v5, cookie);
    }
    if p.below("adv.fi_tail_auth", 2) == 1 {
        // shape-valid authenticator: 16-byte nonce, 16..48 byte "ciphertext"
        let ctl = 16 + 4 * p.below("adv.fi_ct", 9) as usize;
        let mut body = vec![0u8, 16, 0, ctl as u8];
        body.extend_from_slice(&p.bytes("adv.body", 16 + ctl));
        wire::put_ef(&mut out, T_AUTH, &body, 0, v5);
    }
    out
}

/// A hostile datagram. `keys`: session keys the malicious peer legitimately holds (or None).
pub fn forge(p: &mut dyn Pick, to_server: bool, keys: Option<&SessionKeys>, cookie: Option<&[u8]>) -> Vec<u8> {
    let (mut out, v5) = header(p, to_server);
    let n = 1 + p.below("adv.fields", 6);
    for _ in 0..n {
        hostile_field(p, &mut out, v5, keys, cookie, 0);
        if out.len() > 3000 {
            break;
        }
    }
    if p.below("adv.mac", 4) == 1 {
        // legacy MAC / crypto-NAK sized tail
        let n = [4usize, 20, 24, 25, 28, 3][p.below("adv.mac_len", 6) as usize];
        out.extend_from_slice(&p.bytes("adv.mac_bytes", n));
    }
    out.truncate(4096);
    out
}
