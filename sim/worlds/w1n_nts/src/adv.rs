//! Structure-preserving adversarial datagrams (C23): layouts that walk the
//! decoder through its length arithmetic — nested / overlapping extension-field
//! lengths, zero-length fields, authenticators with absurd nonce / ciphertext
//! lengths, validly encrypted garbage, NTPv5 fields with odd bodies, legacy MACs.

use ntp_proto::verif::keyset::SessionKeys;

use crate::req::Pick;
use crate::wire::{self, T_AUTH, T_COOKIE, T_DRAFT, T_PAD, T_PLACEHOLDER, T_REFREQ, T_REFRESP, T_UID};

fn header(p: &mut dyn Pick, to_server: bool) -> (Vec<u8>, bool) {
    let version = [4u8, 5, 4, 5, 3, 4, 5, 0, 7][p.below("adv.version", 9) as usize];
    let mode = if p.odds("adv.mode", 1, 8) { p.below("adv.mode_v", 8) as u8 } else if to_server { 3 } else { 4 };
    let mut h = p.bytes("adv.header", wire::HEADER);
    h[0] = ((p.below("adv.li", 4) as u8) << 6) | (version << 3) | mode;
    if !p.odds("adv.hdr_random", 1, 4) {
        // a header the v5 parser accepts: timescale 0..3, flags clean
        h[12] = p.below("adv.timescale", 4) as u8;
        h[14] = 0;
        h[15] = p.below("adv.flags", 8) as u8;
        h[1] = if to_server { 0 } else { p.below("adv.stratum", 18) as u8 };
    }
    (h, version == 5)
}

fn odd_len(p: &mut dyn Pick) -> usize {
    [0usize, 1, 2, 3, 4, 5, 7, 8, 12, 15, 16, 17, 24, 28, 31, 32, 33, 64, 100, 255, 256, 1000][p.below("adv.len", 22) as usize]
}

/// one hostile field appended to `out`
fn hostile_field(p: &mut dyn Pick, out: &mut Vec<u8>, v5: bool, keys: Option<&SessionKeys>, cookie: Option<&[u8]>, depth: u32) {
    let kind = p.below("adv.field", 16);
    match kind {
        0 => {
            // well-formed unknown field
            let n = odd_len(p).min(300);
            let body = p.bytes("adv.body", n);
            wire::put_ef(out, 0x0900, &body, 0, v5);
        }
        1 => {
            // declared length smaller than the header / tiny
            let l = p.below("adv.tiny", 4) as u16;
            wire::put_raw_ef(out, 0x0104, l, &[]);
        }
        2 => {
            // zero-length body
            let t = [T_UID, T_COOKIE, T_PLACEHOLDER, T_AUTH, T_DRAFT, T_PAD, T_REFREQ, T_REFRESP][p.below("adv.zt", 8) as usize];
            wire::put_raw_ef(out, t, 4, &[]);
        }
        3 => {
            // length not a multiple of four, body padded or not
            let n = odd_len(p).min(200);
            let body = p.bytes("adv.body", n);
            let t = [T_UID, T_COOKIE, 0x0900, T_REFRESP, T_DRAFT][p.below("adv.nt", 5) as usize];
            wire::put_raw_ef(out, t, (4 + n) as u16, &body);
            if p.below("adv.pad", 2) == 0 {
                out.resize(wire::up4(out.len()), 0);
            }
        }
        4 => {
            // length reaching beyond the datagram
            let l = [0xffffu16, 0x8000, 0x0404, 2000, 1028][p.below("adv.big", 5) as usize];
            let n = odd_len(p).min(64);
            let body = p.bytes("adv.body", n);
            wire::put_raw_ef(out, [T_UID, T_AUTH, T_COOKIE, 0x0900][p.below("adv.bt", 4) as usize], l, &body);
        }
        5 => {
            // authenticator with absurd nonce / ciphertext lengths
            let nl = [0u16, 1, 15, 16, 17, 0xffff, 0x7fff, 4, 32][p.below("adv.nl", 9) as usize];
            let cl = [0u16, 1, 15, 16, 17, 0xffff, 0x8000, 4, 64][p.below("adv.cl", 9) as usize];
            let n = odd_len(p).min(120);
            let mut body = vec![];
            body.extend_from_slice(&nl.to_be_bytes());
            body.extend_from_slice(&cl.to_be_bytes());
            body.extend_from_slice(&p.bytes("adv.body", n));
            body.resize(wire::up4(body.len()), 0);
            wire::put_raw_ef(out, T_AUTH, (4 + body.len()) as u16, &body);
        }
        6 | 7 => {
            // validly encrypted contents (the peer holds session keys): hostile inner fields, odd nonce lengths
            if let Some(k) = keys {
                let mut pt = vec![];
                let n_inner = p.below("adv.inner", 4);
                for _ in 0..n_inner {
                    if depth < 2 {
                        let nest = p.below("adv.nest", 3) == 0;
                        hostile_field(p, &mut pt, v5, if nest { Some(k) } else { None }, cookie, depth + 1);
                    }
                }
                let nonce_len = [16usize, 16, 0, 1, 12, 15, 17, 24, 32, 64][p.below("adv.nonce_len", 10) as usize];
                let nonce = p.bytes("adv.nonce", nonce_len);
                let key = if kind == 6 { &k.c2s } else { &k.s2c };
                wire::put_auth(out, k.alg, key, &nonce, &pt);
            } else {
                let n = odd_len(p).min(64);
                let body = p.bytes("adv.body", n);
                wire::put_ef(out, T_AUTH, &body, 0, v5);
            }
        }
        8 => {
            // placeholder with non-zero body / huge placeholder
            let n = odd_len(p).min(400);
            let mut body = vec![0u8; n];
            if n > 0 && p.below("adv.ph_dirty", 2) == 1 {
                body[n - 1] = 1;
            }
            wire::put_ef(out, T_PLACEHOLDER, &body, 0, v5);
        }
        9 => {
            // draft identification: right, wrong, non-ascii, non-utf8, NUL padded
            let body: Vec<u8> = match p.below("adv.draft", 5) {
                0 => wire::DRAFT_ID.to_vec(),
                1 => b"draft-ietf-ntp-ntpv5-08".to_vec(),
                2 => vec![0xff, 0xfe, 0x80],
                3 => "dr\u{e4}ft".as_bytes().to_vec(),
                _ => [wire::DRAFT_ID, &[0, 0, 0]].concat(),
            };
            wire::put_ef(out, T_DRAFT, &body, 0, v5);
        }
        10 => {
            // reference id request with short / odd / huge bodies
            let n = [0usize, 1, 2, 3, 4, 5, 16, 510, 512, 516, 1000][p.below("adv.rr", 11) as usize];
            let mut body = vec![0u8; n];
            if n >= 2 {
                let off = [0u16, 16, 496, 500, 512, 0xffff][p.below("adv.rr_off", 6) as usize];
                body[0..2].copy_from_slice(&off.to_be_bytes());
            }
            wire::put_raw_ef(out, T_REFREQ, (4 + n) as u16, &body);
            out.resize(wire::up4(out.len()), 0);
        }
        11 => {
            let n = odd_len(p).min(520);
            let body = p.bytes("adv.body", n);
            wire::put_raw_ef(out, T_REFRESP, (4 + n) as u16, &body);
            out.resize(wire::up4(out.len()), 0);
        }
        12 => {
            let n = odd_len(p).min(300);
            wire::put_ef(out, T_PAD, &vec![0u8; n], 0, v5);
        }
        13 => {
            // a cookie the attacker saw on the wire (or garbage of cookie size)
            match cookie {
                Some(c) => wire::put_ef(out, T_COOKIE, c, 16, v5),
                None => {
                    let n = [0usize, 21, 22, 23, 104, 168][p.below("adv.ck", 6) as usize];
                    let body = p.bytes("adv.body", n);
                    wire::put_ef(out, T_COOKIE, &body, 0, v5);
                }
            }
        }
        14 => {
            let n = odd_len(p).min(100);
            let body = p.bytes("adv.body", n);
            wire::put_ef(out, T_UID, &body, 0, v5);
        }
        _ => {
            // raw noise
            let n = odd_len(p).min(60);
            out.extend_from_slice(&p.bytes("adv.noise", n));
        }
    }
}

/// A hostile datagram. `keys`: session keys the malicious peer legitimately holds (or None).
pub fn forge(p: &mut dyn Pick, to_server: bool, keys: Option<&SessionKeys>, cookie: Option<&[u8]>) -> Vec<u8> {
    let (mut out, v5) = header(p, to_server);
    let n = 1 + p.below("adv.fields", 6);
    for _ in 0..n {
        hostile_field(p, &mut out, v5, keys, cookie, 0);
        if out.len() > 3000 {
            break;
        }
    }
    if p.below("adv.mac", 4) == 1 {
        // legacy MAC / crypto-NAK sized tail
        let n = [4usize, 20, 24, 25, 28, 3][p.below("adv.mac_len", 6) as usize];
        out.extend_from_slice(&p.bytes("adv.mac_bytes", n));
    }
    out.truncate(4096);
    out
}
