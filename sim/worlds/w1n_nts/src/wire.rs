//! The harness's OWN view of the NTP/NTS wire format, written from RFC 5905 /
//! RFC 7822 / RFC 8915 / draft-ietf-ntp-ntpv5 and deliberately not sharing code
//! with ntp-proto's codec: an extension-field walker (used to classify which
//! region of a packet a mutation hit and to pick responses apart), a packet
//! builder (the simulated client / attacker) and a response classifier.

use ntp_proto::verif::packet::{siv_decrypt, siv_encrypt};

pub const T_UID: u16 = 0x0104;
pub const T_COOKIE: u16 = 0x0204;
pub const T_PLACEHOLDER: u16 = 0x0304;
pub const T_AUTH: u16 = 0x0404;
pub const T_DRAFT: u16 = 0xF5FF;
pub const T_PAD: u16 = 0xF501;
pub const T_REFREQ: u16 = 0xF503;
pub const T_REFRESP: u16 = 0xF504;
pub const DRAFT_ID: &[u8] = b"draft-ietf-ntp-ntpv5-09";
pub const HEADER: usize = 48;
/// largest legacy MAC (key id + 160-bit digest) that may trail an NTPv4 packet
const V4_MAC_MAX: usize = 24;

pub fn be16(b: &[u8], at: usize) -> usize {
    u16::from_be_bytes([b[at], b[at + 1]]) as usize
}

pub fn up4(n: usize) -> usize {
    n.div_ceil(4) * 4
}

pub fn version_of(bytes: &[u8]) -> u8 {
    bytes.first().map(|b| (b >> 3) & 7).unwrap_or(0)
}

#[derive(Clone, Debug, PartialEq)]
pub struct RawEf {
    /// offset of the field's type bytes in the datagram
    pub off: usize,
    pub type_id: u16,
    /// declared length (type + length + body [+ padding in v4])
    pub len: usize,
    /// bytes the field occupies on the wire (declared length rounded up to 4)
    pub wire_len: usize,
}

impl RawEf {
    pub fn body<'a>(&self, bytes: &'a [u8]) -> &'a [u8] {
        &bytes[self.off + 4..self.off + self.len]
    }
}

#[derive(Clone, Debug)]
pub struct Walk {
    pub version: u8,
    pub fields: Vec<RawEf>,
    /// offset where field parsing stopped (start of MAC / garbage / end)
    pub end: usize,
    /// the sequence was well formed up to `end` (false: a field header was malformed there)
    pub well_formed: bool,
}

/// Walk a sequence of extension fields in `bytes[start..]`.
/// `mac_cutoff`: stop when at most that many bytes remain (NTPv4 legacy MAC).
pub fn walk_fields(bytes: &[u8], start: usize, v5: bool, mac_cutoff: usize) -> (Vec<RawEf>, usize, bool) {
    let mut fields = vec![];
    let mut off = start;
    loop {
        let remaining = bytes.len().saturating_sub(off);
        if remaining == 0 || remaining <= mac_cutoff {
            return (fields, off, true);
        }
        if remaining < 4 {
            return (fields, off, false);
        }
        let type_id = be16(bytes, off) as u16;
        let len = be16(bytes, off + 2);
        let wire_len = up4(len);
        if len < 4 || (!v5 && len % 4 != 0) || off + wire_len > bytes.len() {
            return (fields, off, false);
        }
        fields.push(RawEf { off, type_id, len, wire_len });
        off += wire_len;
    }
}

pub fn walk(bytes: &[u8]) -> Walk {
    let version = version_of(bytes);
    if bytes.len() < HEADER || !(version == 4 || version == 5) {
        return Walk { version, fields: vec![], end: bytes.len().min(HEADER), well_formed: bytes.len() >= HEADER };
    }
    let v5 = version == 5;
    let (fields, end, well_formed) = walk_fields(bytes, HEADER, v5, if v5 { 0 } else { V4_MAC_MAX });
    Walk { version, fields, end, well_formed }
}

/// Where nonce and ciphertext sit inside an NTS Authenticator field.
#[derive(Clone, Debug, PartialEq)]
pub struct AuthLayout {
    pub ef_off: usize,
    pub ef_wire_len: usize,
    pub nonce: std::ops::Range<usize>,
    pub ct: std::ops::Range<usize>,
}

pub fn auth_layout(bytes: &[u8], ef: &RawEf) -> Option<AuthLayout> {
    let body_start = ef.off + 4;
    let body_end = ef.off + ef.len;
    if body_end - body_start < 4 {
        return None;
    }
    let nl = be16(bytes, body_start);
    let cl = be16(bytes, body_start + 2);
    let n0 = body_start + 4;
    let c0 = n0 + up4(nl);
    if n0 + nl > body_end || c0 + cl > body_end {
        return None;
    }
    Some(AuthLayout { ef_off: ef.off, ef_wire_len: ef.wire_len, nonce: n0..n0 + nl, ct: c0..c0 + cl })
}

#[derive(Clone, Copy, Debug, PartialEq)]
pub enum Region {
    Header,
    /// type/length bytes of an extension field before the authenticator
    PreFraming,
    /// body bytes of an extension field before the authenticator
    PreBody,
    /// the authenticator's type, length, nonce-length and ciphertext-length bytes
    AuthHeader,
    Nonce,
    Ciphertext,
    /// padding after nonce / after ciphertext inside the authenticator field
    AuthPadding,
    /// anything after the authenticator field
    After,
    /// the packet has no authenticator at all
    NoAuth,
}

impl Region {
    /// C25: a change here must make authentication fail.
    pub fn protected(self) -> bool {
        matches!(self, Region::Header | Region::PreFraming | Region::PreBody | Region::Nonce | Region::Ciphertext)
    }
    /// the change cannot alter how the field sequence is framed
    pub fn framing_intact(self) -> bool {
        matches!(self, Region::PreBody | Region::Nonce | Region::Ciphertext | Region::After)
    }
}

/// Region map of a GENUINE NTS packet (the harness built / captured it, so its
/// first top-level authenticator is the real one).
#[derive(Clone, Debug)]
pub struct RegionMap {
    pub walk: Walk,
    pub auth_idx: Option<usize>,
    pub auth: Option<AuthLayout>,
}

impl RegionMap {
    pub fn of(bytes: &[u8]) -> RegionMap {
        let walk = walk(bytes);
        let auth_idx = walk.fields.iter().position(|f| f.type_id == T_AUTH);
        let auth = auth_idx.and_then(|i| auth_layout(bytes, &walk.fields[i]));
        RegionMap { walk, auth_idx, auth }
    }

    pub fn region(&self, pos: usize) -> Region {
        let (Some(ai), Some(a)) = (self.auth_idx, &self.auth) else {
            return Region::NoAuth;
        };
        if pos < HEADER {
            return Region::Header;
        }
        if pos < a.ef_off {
            for f in &self.walk.fields[..ai] {
                if pos >= f.off && pos < f.off + f.wire_len {
                    return if pos < f.off + 4 { Region::PreFraming } else { Region::PreBody };
                }
            }
            return Region::PreFraming;
        }
        if pos < a.ef_off + 8 {
            return Region::AuthHeader;
        }
        if a.nonce.contains(&pos) {
            return Region::Nonce;
        }
        if a.ct.contains(&pos) {
            return Region::Ciphertext;
        }
        if pos < a.ef_off + a.ef_wire_len {
            return Region::AuthPadding;
        }
        Region::After
    }
}

/// Result of the harness's own authentication of a packet under a given key.
#[derive(Clone, Debug, Default)]
pub struct OwnAuth {
    /// an authenticator field is visible at top level
    pub has_auth_field: bool,
    /// it verified under the key
    pub verified: bool,
    /// (type, body) of the fields inside the ciphertext
    pub encrypted: Vec<(u16, Vec<u8>)>,
    /// (type, body) of the fields before the authenticator
    pub authenticated: Vec<(u16, Vec<u8>)>,
}

/// Authenticate `bytes` under (alg,key) the way RFC 8915 §5.6 describes, with
/// the `aes-siv` crate directly.
pub fn own_authenticate(bytes: &[u8], alg: u16, key: &[u8]) -> OwnAuth {
    let mut out = OwnAuth::default();
    let w = walk(bytes);
    let Some(ai) = w.fields.iter().position(|f| f.type_id == T_AUTH) else {
        return out;
    };
    out.has_auth_field = true;
    let Some(a) = auth_layout(bytes, &w.fields[ai]) else {
        return out;
    };
    let Some(pt) = siv_decrypt(alg, key, &bytes[a.nonce.clone()], &bytes[..a.ef_off], &bytes[a.ct.clone()]) else {
        return out;
    };
    out.verified = true;
    let v5 = w.version == 5;
    let (inner, _, _) = walk_fields(&pt, 0, v5, 0);
    for f in inner {
        out.encrypted.push((f.type_id, f.body(&pt).to_vec()));
    }
    for f in &w.fields[..ai] {
        out.authenticated.push((f.type_id, f.body(bytes).to_vec()));
    }
    out
}

// ------------------------------------------------------------------ builder

/// Append one extension field. `min_len`: RFC 7822 minimum (16 / 28) or 0.
pub fn put_ef(out: &mut Vec<u8>, type_id: u16, body: &[u8], min_len: usize, v5: bool) {
    let mut len = (4 + body.len()).max(min_len);
    if !v5 {
        len = up4(len);
    }
    out.extend_from_slice(&type_id.to_be_bytes());
    out.extend_from_slice(&(len as u16).to_be_bytes());
    out.extend_from_slice(body);
    let target = out.len() - 4 - body.len() + up4(len);
    out.resize(target, 0);
}

/// Append a field with an explicit (possibly lying) length and raw body bytes, no padding logic.
pub fn put_raw_ef(out: &mut Vec<u8>, type_id: u16, declared_len: u16, raw_body: &[u8]) {
    out.extend_from_slice(&type_id.to_be_bytes());
    out.extend_from_slice(&declared_len.to_be_bytes());
    out.extend_from_slice(raw_body);
}

/// Append an NTS Authenticator and Encrypted Extension Fields field computed over
/// everything already in `out` (RFC 8915 §5.6). Returns false if the key is unusable.
pub fn put_auth(out: &mut Vec<u8>, alg: u16, key: &[u8], nonce: &[u8], plaintext: &[u8]) -> bool {
    put_auth_padded(out, alg, key, nonce, plaintext, 0)
}

/// As [`put_auth`], with `extra_pad` zero bytes of padding after the ciphertext inside the field.
pub fn put_auth_padded(out: &mut Vec<u8>, alg: u16, key: &[u8], nonce: &[u8], plaintext: &[u8], extra_pad: usize) -> bool {
    let Some(ct) = siv_encrypt(alg, key, nonce, out, plaintext) else {
        return false;
    };
    let mut body = Vec::with_capacity(4 + up4(nonce.len()) + up4(ct.len()));
    body.extend_from_slice(&(nonce.len() as u16).to_be_bytes());
    body.extend_from_slice(&(ct.len() as u16).to_be_bytes());
    body.extend_from_slice(nonce);
    body.resize(4 + up4(nonce.len()), 0);
    body.extend_from_slice(&ct);
    let l = body.len();
    body.resize(up4(l) + extra_pad, 0);
    out.extend_from_slice(&T_AUTH.to_be_bytes());
    out.extend_from_slice(&((4 + body.len()) as u16).to_be_bytes());
    out.extend_from_slice(&body);
    true
}


/// Append an authenticator field from ready-made nonce and tag||ciphertext bytes.
pub fn put_auth_raw(out: &mut Vec<u8>, nonce: &[u8], ct: &[u8], extra_pad: usize) {
    let mut body = Vec::with_capacity(4 + up4(nonce.len()) + up4(ct.len()) + extra_pad);
    body.extend_from_slice(&(nonce.len() as u16).to_be_bytes());
    body.extend_from_slice(&(ct.len() as u16).to_be_bytes());
    body.extend_from_slice(nonce);
    body.resize(4 + up4(nonce.len()), 0);
    body.extend_from_slice(ct);
    let l = body.len();
    body.resize(up4(l) + extra_pad, 0);
    out.extend_from_slice(&T_AUTH.to_be_bytes());
    out.extend_from_slice(&((4 + body.len()) as u16).to_be_bytes());
    out.extend_from_slice(&body);
}

/// RFC 8915: every NTS authenticator field of a packet has to verify over all bytes that precede
/// it. Returns (authenticator fields visible at top level, how many of them verify under the key).
pub fn authenticators(bytes: &[u8], alg: u16, key: &[u8]) -> (usize, usize) {
    let w = walk(bytes);
    let mut n = 0;
    let mut ok = 0;
    for f in w.fields.iter().filter(|f| f.type_id == T_AUTH) {
        n += 1;
        if let Some(a) = auth_layout(bytes, f) {
            if siv_decrypt(alg, key, &bytes[a.nonce.clone()], &bytes[..a.ef_off], &bytes[a.ct.clone()]).is_some() {
                ok += 1;
            }
        }
    }
    (n, ok)
}

pub fn v4_client_header(poll: u8, transmit: [u8; 8]) -> Vec<u8> {
    let mut h = vec![0u8; HEADER];
    h[0] = (4 << 3) | 3;
    h[2] = poll;
    h[40..48].copy_from_slice(&transmit);
    h
}

pub fn v5_client_header(poll: u8, client_cookie: [u8; 8]) -> Vec<u8> {
    let mut h = vec![0u8; HEADER];
    h[0] = (5 << 3) | 3;
    h[2] = poll;
    h[24..32].copy_from_slice(&client_cookie);
    h
}

// ------------------------------------------------------------------ responses

#[derive(Clone, Copy, Debug, PartialEq)]
pub enum RespKind {
    /// stratum != 0, server mode: a client would take it as a time sample
    Time,
    NtsNak,
    Deny,
    Rate,
    OtherKiss,
    /// not a server-mode packet of a known version
    Other,
}

pub fn classify_response(bytes: &[u8]) -> RespKind {
    if bytes.len() < HEADER {
        return RespKind::Other;
    }
    let version = version_of(bytes);
    let mode = bytes[0] & 7;
    if mode != 4 {
        return RespKind::Other;
    }
    let stratum = bytes[1];
    match version {
        3 | 4 => {
            if stratum != 0 {
                RespKind::Time
            } else {
                match &bytes[12..16] {
                    b"NTSN" => RespKind::NtsNak,
                    b"DENY" => RespKind::Deny,
                    b"RATE" => RespKind::Rate,
                    _ => RespKind::OtherKiss,
                }
            }
        }
        5 => {
            if stratum != 0 {
                RespKind::Time
            } else if bytes[15] & 0b100 != 0 {
                RespKind::NtsNak
            } else if bytes[2] == 0x7f {
                RespKind::Deny
            } else {
                // v5 kiss without authnak / never-poll: a rate request (poll raised) or nothing specific
                RespKind::Rate
            }
        }
        _ => RespKind::Other,
    }
}

/// bytes the client must find back in a response to its request
pub fn origin_of_request(req: &[u8]) -> [u8; 8] {
    let mut o = [0u8; 8];
    if req.len() >= HEADER {
        if version_of(req) == 5 {
            o.copy_from_slice(&req[24..32]);
        } else {
            o.copy_from_slice(&req[40..48]);
        }
    }
    o
}

pub fn origin_of_response(resp: &[u8]) -> [u8; 8] {
    let mut o = [0u8; 8];
    if resp.len() >= HEADER {
        // v4: origin timestamp, v5: client cookie - both at 24..32
        o.copy_from_slice(&resp[24..32]);
    }
    o
}

pub fn find_sub(hay: &[u8], needle: &[u8]) -> bool {
    !needle.is_empty() && hay.len() >= needle.len() && hay.windows(needle.len()).any(|w| w == needle)
}
