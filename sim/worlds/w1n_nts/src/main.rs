fn main() {
    let ks = ntp_proto::KeySetProvider::new(1);
    println!("{:?}", ks.get().verif_view().n_keys);
}
