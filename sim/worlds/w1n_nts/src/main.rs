//! W1n — NTS packet / cookie / keyset world (DESIGN.md §4 "W1", NTS part):
//! hand-driven and real NTS client sessions talking over `simkit::net::SimNet` to
//! server nodes running the REAL `ntp_proto::Server` fed by a REAL
//! `KeySetProvider` that rotates at simulated times. Decides C19, C23, C25, C26.

#![allow(dead_code)]

mod adv;
mod enum25;
mod node;
mod req;
mod wire;
mod world;

use simkit::batch::{cli_main, Level, Property, WorldDef};

fn run() {
    if simkit::focus() == "C25" {
        enum25::run()
    } else {
        world::run()
    }
}

fn main() {
    let assumptions: &'static [&'static str] = &[
        "NTS sessions are minted in-crate (random session keys + real KeySet::encode_cookie) instead of by a TLS key exchange (that is world W3)",
        "the server's rate limiter is configured off (cache size 0); the daemon's socket loop is replaced by direct calls of Server::handle with a reply buffer",
        "AES-SIV itself (aes-siv crate) is trusted: the harness's independent authenticator check uses the same primitive through its own framing code",
    ];
    let p = |id, quick_runs, thorough_runs, rule| Property {
        id,
        level: Level::Exploration,
        quick_runs,
        thorough_runs,
        quick_wall_s: 75.0,
        thorough_wall_s: 720.0,
        event_cap: 20_000,
        enumerate: None,
        rule,
        assumptions,
    };
    let mut c25 = p(
        "C25",
        0,
        0,
        "one run = one (genuine in-flight NTS packet k, byte position) pair: all 8 single-bit flips and a set of single-byte overwrites at that position are delivered to the real receiver (server keyset for requests, s2c key for responses); the harness's own extension-field walker classifies the position (header / field before the authenticator / nonce / ciphertext = protected; authenticator header and padding, anything after = unprotected)",
    );
    c25.level = Level::FaultEnumeration;
    c25.enumerate = Some(enum25::space);
    c25.thorough_wall_s = 1500.0;
    cli_main(WorldDef {
        name: "w1n",
        run,
        properties: vec![
            p("C19", 200_000, 1_500_000, "one run = one swarm-configured history of 1-4 NTS sessions (v4/v5, both AEADs, 0-7 placeholders, extra fields, stock and hand-built layouts) against 1-2 real servers with key rotations, partitions and network damage; every server answer is judged against the request's ground truth at delivery time"),
            p("C23", 200_000, 1_500_000, "as C19 with the damage and adversary rates turned up; every datagram is delivered to the receiving node's real receive path (server keyset / NTS session key / no key) under catch_unwind, extended datagrams additionally un-truncated (<= 4096 bytes) to NtpPacket::deserialize in the receiver's key context"),
            c25,
            p("C26", 200_000, 1_500_000, "as C19 with stale_key_count in {0,1,2,5}, clients partitioned for 0..history+3 rotations presenting old cookies, a cookie ledger decoded against the real key set after every rotation, per-position cookie tampering and foreign key sets"),
        ],
        real_components: &[
            "ntp_proto::Server::handle (policy, NTS decode, NAK/DENY/time responses, cookie generation)",
            "ntp_proto::KeySetProvider::rotate / KeySet::{encode_cookie,decode_cookie}",
            "ntp_proto::NtpPacket::{deserialize,serialize,nts_poll_message,nts_poll_message_v5,nts_timestamp_response}, extension-field codec, AES-SIV cipher wrappers",
            "ntp_proto::NtpSource (NTS and plain) receive path: handle_timer / handle_incoming",
        ],
        stub_components: &[
            "ntpd ServerTask / SourceTask socket loops -> direct calls with a reply buffer (request-sized or 4096)",
            "NTS key exchange -> sessions minted in-crate",
            "kernel clock -> simntp::SimClock",
        ],
    })
}
