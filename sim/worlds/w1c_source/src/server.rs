//! Server side: honest/flaky nodes running the REAL `ntp_proto::Server`, and a
//! byzantine responder that builds answers by hand.

use std::net::{IpAddr, Ipv4Addr};
use std::sync::atomic::{AtomicU64, Ordering};
use std::sync::Arc;

use ntp_proto::verif::ts_from_fixed;
use ntp_proto::{
    FilterAction, FilterList, IpSubnet, KeySetProvider, NtpClock, NtpDuration, NtpLeapIndicator, NtpManager,
    NtpTimestamp, NtpVersion, Server, ServerAction, ServerConfig, ServerReason, ServerResponse, ServerStatHandler,
    SourceType, SynchronizationConfig,
};
use simkit::net::{Datagram, SimNet};
use simkit::{chance, choose, ev, exec, fault, weighted};
use simntp::{SimClock, SimClockError};

use crate::client::{Clk, Meta};
use crate::wire::{Answer, Hdr};

#[derive(Clone)]
pub struct SrvClock {
    base: SimClock,
    proc_ticks: Arc<AtomicU64>,
}

impl NtpClock for SrvClock {
    type Error = SimClockError;
    fn now(&self) -> Result<NtpTimestamp, Self::Error> {
        Ok(ts_from_fixed(self.base.raw_now().wrapping_add(self.proc_ticks.load(Ordering::Relaxed))))
    }
    fn set_frequency(&self, _f: f64) -> Result<NtpTimestamp, Self::Error> {
        self.now()
    }
    fn get_frequency(&self) -> Result<f64, Self::Error> {
        Ok(0.0)
    }
    fn step_clock(&self, _o: NtpDuration) -> Result<NtpTimestamp, Self::Error> {
        self.now()
    }
    fn disable_ntp_algorithm(&self) -> Result<(), Self::Error> {
        Ok(())
    }
    fn error_estimate_update(&self, _e: NtpDuration, _m: NtpDuration) -> Result<(), Self::Error> {
        Ok(())
    }
    fn status_update(&self, _l: NtpLeapIndicator) -> Result<(), Self::Error> {
        Ok(())
    }
}

struct NoStats;
impl ServerStatHandler for NoStats {
    fn register(&mut self, _v: u8, _nts: bool, _r: ServerReason, _resp: ServerResponse) {}
}

pub const BYZ_KINDS: usize = 17;
pub const K_GOOD: usize = 0;
pub const K_SILENCE: usize = 1;
pub const K_RATE: usize = 2;
pub const K_DENY: usize = 3;
pub const K_RSTR: usize = 4;
pub const K_NTSN: usize = 5;
pub const K_UNKNOWN: usize = 6;
pub const K_BAD_ORIGIN: usize = 7;
pub const K_BAD_MODE: usize = 8;
pub const K_BAD_STRATUM: usize = 9;
pub const K_WRONG_VERSION: usize = 10;
pub const K_MARKER_NONMATCHING: usize = 11;
pub const K_MARKER_UNUSABLE: usize = 12;
pub const K_POLL_REQUEST: usize = 13;
pub const K_DOUBLE: usize = 14;
pub const K_COMBO_V5: usize = 15;
pub const K_WEIRD_TS: usize = 16;

pub enum Kind {
    Real { server: Box<Server<SrvClock>>, sclk: SrvClock, _mgr: NtpManager, keyset: Arc<ntp_proto::KeySet> },
    Byz,
}

pub struct Srv {
    pub idx: usize,
    pub kind: Kind,
    pub clk: Clk,
    pub drop_p: f64,
    pub silent_until: u64,
    pub silence_p: f64,
    pub weights: [u32; BYZ_KINDS],
    pub echo_marker: bool,
    pub speaks_v5: bool,
    pub huge_polls: bool,
    pub prev_ident: Vec<Option<[u8; 8]>>,
    pub stratum: u8,
    /// real servers only: how an NTS request is treated [serve, authenticated RATE, authenticated DENY, NTS NAK]
    pub nts_weights: [u32; 4],
    /// largest poll exponent the byzantine responder asks for
    pub max_poll_request: i8,
}

fn ticks(ns: u64) -> u64 {
    (((ns as u128) << 32) / 1_000_000_000u128) as u64
}

impl Srv {
    pub fn new_real(idx: usize, epoch_u: i128, freq: f64, v5: bool, v5_only: bool, nsrc: usize) -> Srv {
        let clk = Clk::new(&format!("s{idx}"), epoch_u, freq);
        let sclk = SrvClock {
            base: clk.c.clone(),
            proc_ticks: Arc::new(AtomicU64::new(0)),
        };
        let mgr = NtpManager::new(SynchronizationConfig::default(), Arc::from(Vec::<IpAddr>::new()));
        // make it a synchronised stratum-1 server
        mgr.update_used_sources([(ntp_proto::ClockId::new(), SourceType::Pps)].into_iter());
        let all: FilterList = FilterList {
            filter: vec![
                IpSubnet { addr: IpAddr::V4(Ipv4Addr::new(0, 0, 0, 0)), mask: 0 },
            ],
            action: FilterAction::Ignore,
        };
        let cfg = ServerConfig {
            denylist: FilterList { filter: vec![], action: FilterAction::Ignore },
            allowlist: all,
            // the rate limiter reads the real monotonic clock: keep it off in this world
            rate_limiting_cache_size: 0,
            rate_limiting_cutoff: std::time::Duration::from_secs(0),
            require_nts: None,
            accepted_versions: if v5_only {
                vec![NtpVersion::V5]
            } else if v5 {
                vec![NtpVersion::V3, NtpVersion::V4, NtpVersion::V5]
            } else {
                vec![NtpVersion::V3, NtpVersion::V4]
            },
        };
        let keyset = KeySetProvider::new(1).get();
        let server = mgr.new_server(cfg, sclk.clone(), keyset.clone());
        Srv {
            idx,
            kind: Kind::Real { server: Box::new(server), sclk, _mgr: mgr, keyset },
            clk,
            drop_p: 0.0,
            silent_until: 0,
            silence_p: 0.0,
            weights: [0; BYZ_KINDS],
            echo_marker: false,
            speaks_v5: v5,
            huge_polls: false,
            prev_ident: vec![None; nsrc],
            stratum: 1,
            nts_weights: [1, 0, 0, 0],
            max_poll_request: i8::MAX,
        }
    }

    pub fn new_byz(idx: usize, epoch_u: i128, freq: f64, nsrc: usize) -> Srv {
        let mut weights = [0u32; BYZ_KINDS];
        weights[K_GOOD] = 6;
        Srv {
            idx,
            kind: Kind::Byz,
            clk: Clk::new(&format!("b{idx}"), epoch_u, freq),
            drop_p: 0.0,
            silent_until: 0,
            silence_p: 0.0,
            weights,
            echo_marker: false,
            speaks_v5: true,
            huge_polls: false,
            prev_ident: vec![None; nsrc],
            stratum: 2,
            nts_weights: [1, 0, 0, 0],
            max_poll_request: i8::MAX,
        }
    }

    pub fn keyset(&self) -> Option<Arc<ntp_proto::KeySet>> {
        match &self.kind {
            Kind::Real { keyset, .. } => Some(keyset.clone()),
            Kind::Byz => None,
        }
    }

    pub fn is_byz(&self) -> bool {
        matches!(self.kind, Kind::Byz)
    }

    fn proc_ns() -> u64 {
        [10_000u64, 0, 1_000_000, 300_000_000, 2_000_000_000][weighted("srv.proc", &[6, 2, 2, 1, 1])]
    }

    pub fn on_request(&mut self, d: &Datagram<Meta>, net: &mut SimNet<Meta>, now: u64) {
        let j = self.idx;
        if now < self.silent_until {
            fault("server-silent");
            ev!("srv{j} silent: request dropped");
            return;
        }
        if self.silence_p > 0.0 && chance("srv.go-silent", self.silence_p) {
            // a silent period long enough to make sources unreachable
            let polls = 1 + choose("srv.silent.len", 12);
            let h = Hdr::read(&d.bytes);
            let exp = h.map(|h| h.poll.clamp(0, 17)).unwrap_or(4) as u32;
            self.silent_until = now + polls * (1u64 << exp) * 1_100_000_000;
            fault("server-silent");
            ev!("srv{j} goes silent until {}", self.silent_until);
            return;
        }
        let proc = Self::proc_ns();
        let t2 = self.clk.raw();
        let req_pristine = d.mutation.is_none();
        let nts_req = d.meta.authenticated;
        let resp_meta = |note: &'static str, wellformed: bool, honest_ts: bool| Meta {
            src: d.meta.src,
            srv: j,
            req_seq: d.meta.req_seq,
            is_request: false,
            wellformed,
            honest_ts,
            // an answer to an intact NTS request is built with the session's s2c key
            authenticated: nts_req && req_pristine && note != "nts-nak",
            note,
        };
        let nts_w = self.nts_weights;
        match &mut self.kind {
            Kind::Real { server, sclk, keyset, .. } => {
                sclk.proc_ticks.store(ticks(proc), Ordering::Relaxed);
                if nts_req && req_pristine {
                    let k = weighted("srv.nts.kind", &nts_w);
                    if k != 0 {
                        // a key-holding server that answers with an (authenticated) kiss of its choosing
                        let note = ["", "nts-rate", "nts-deny", "nts-nak"][k];
                        fault(["", "kiss-rate-authenticated", "kiss-deny-authenticated", "kiss-ntsn"][k]);
                        let msg = &d.bytes[..d.bytes.len().min(1024)];
                        let built = exec::catch(|| {
                            let (pkt, cookie) = ntp_proto::NtpPacket::deserialize(msg, keyset.as_ref()).ok()?;
                            let cookie = cookie?;
                            let resp = match k {
                                1 => ntp_proto::NtpPacket::nts_rate_limit_response(pkt),
                                2 => ntp_proto::NtpPacket::nts_deny_response(pkt),
                                _ => ntp_proto::NtpPacket::nts_nak_response(pkt),
                            };
                            let mut buf = [0u8; 1024];
                            let mut cur = std::io::Cursor::new(&mut buf[..]);
                            let cipher: Option<&dyn ntp_proto::Cipher> = if k == 3 { None } else { Some(cookie.s2c.as_ref()) };
                            resp.serialize(&mut cur, &cipher, None).ok()?;
                            let n = cur.position() as usize;
                            Some(buf[..n].to_vec())
                        });
                        match built {
                            Ok(Some(bytes)) => {
                                ev!("srv{j} answers NTS request with [{note}] {} bytes", bytes.len());
                                net.send(now + proc, j as u32, d.from, bytes, resp_meta(note, true, false));
                            }
                            other => {
                                ev!("srv{j} could not build [{note}]: {other:?}");
                            }
                        }
                        return;
                    }
                }
                let ip = IpAddr::V4(Ipv4Addr::new(10, 0, 1, (d.from % 250) as u8));
                let mut buf = [0u8; 1024];
                let msg = &d.bytes[..d.bytes.len().min(1024)];
                let out = exec::catch(|| match server.handle(ip, ts_from_fixed(t2), msg, &mut buf, &mut NoStats) {
                    ServerAction::Respond { message } => Some(message.to_vec()),
                    ServerAction::Ignore => None,
                });
                match out {
                    Err(msg) => {
                        // server robustness is world w1s' business; here it only ends the exchange
                        simkit::probe("real-server-panicked");
                        ev!("srv{j} PANIC {msg}");
                    }
                    Ok(None) => {
                        ev!("srv{j} ignores request ({} bytes)", d.bytes.len());
                    }
                    Ok(Some(bytes)) => {
                        if chance("srv.flaky-drop", self.drop_p) {
                            fault("server-flaky-drop");
                            ev!("srv{j} flaky: answer not sent");
                            return;
                        }
                        ev!("srv{j} answers {} bytes t2={t2}", bytes.len());
                        net.send(now + proc, j as u32, d.from, bytes, resp_meta(if nts_req && !req_pristine { "real-to-mutated" } else { "real" }, true, true));
                    }
                }
            }
            Kind::Byz => {
                let Some(req) = Hdr::read(&d.bytes) else { return };
                if req.version == 5 && !self.speaks_v5 {
                    ev!("byz{j} (v4 only) ignores v5 request");
                    return;
                }
                let t3 = t2.wrapping_add(ticks(proc));
                let prev = self.prev_ident[d.meta.src];
                self.prev_ident[d.meta.src] = Some(req.request_ident());
                let mut kind = weighted("byz.kind", &self.weights);
                let mut out: Vec<(Answer, &'static str, bool)> = Vec::new();
                let n = if kind == K_DOUBLE { 2 } else { 1 };
                for k in 0..n {
                    if n == 2 {
                        kind = weighted("byz.kind2", &self.weights);
                        if kind == K_DOUBLE {
                            kind = K_GOOD;
                        }
                        if k == 0 {
                            fault("byz-double-answer");
                        }
                    }
                    if let Some(a) = self.byz_answer(kind, &req, prev, t2, t3) {
                        out.push(a);
                    }
                }
                for (k, (a, note, honest)) in out.into_iter().enumerate() {
                    let bytes = a.build();
                    ev!("byz{j} answers [{note}] v{} st={} poll={} mode={}", a.version, a.stratum, a.poll, a.mode);
                    net.send(now + proc + k as u64 * 1000, j as u32, d.from, bytes, resp_meta(note, true, honest));
                }
            }
        }
    }

    fn byz_answer(&self, kind: usize, req: &Hdr, prev: Option<[u8; 8]>, t2: u64, t3: u64) -> Option<(Answer, &'static str, bool)> {
        let ident = req.request_ident();
        let good = Answer {
            version: req.version,
            li: 0,
            mode: 4,
            stratum: self.stratum,
            poll: req.poll,
            refid: *b"GPS\0",
            marker: self.echo_marker && req.has_marker(),
            ident,
            rx: t2,
            tx: t3,
            authnak: false,
        };
        let v5 = req.version == 5;
        let base = good.clone();
        let kiss = move |refid: &[u8; 4]| Answer {
            stratum: 0,
            refid: *refid,
            poll: if v5 { req.poll.min(0) } else { req.poll },
            rx: 0,
            tx: 0,
            ..base.clone()
        };
        Some(match kind {
            K_GOOD => (good, "good", true),
            K_SILENCE => {
                fault("byz-silence");
                return None;
            }
            K_RATE => {
                fault("kiss-rate");
                let mut a = kiss(b"RATE");
                if v5 {
                    a.poll = req.poll.saturating_add(1 + choose("byz.rate.by", 3) as i8).min(126);
                    if a.poll <= req.poll {
                        return None;
                    }
                }
                (a, "kiss-rate", false)
            }
            K_DENY | K_RSTR => {
                fault(if kind == K_DENY { "kiss-deny" } else { "kiss-rstr" });
                let mut a = kiss(if kind == K_DENY { b"DENY" } else { b"RSTR" });
                if v5 {
                    a.poll = i8::MAX;
                }
                (a, if kind == K_DENY { "kiss-deny" } else { "kiss-rstr" }, false)
            }
            K_NTSN => {
                fault("kiss-ntsn");
                let mut a = kiss(b"NTSN");
                a.authnak = v5;
                (a, "kiss-ntsn", false)
            }
            K_UNKNOWN => {
                fault("kiss-unknown");
                let codes: [&[u8; 4]; 5] = [b"STEP", b"INIT", b"XXXX", b"\0\0\0\0", b"RATf"];
                (kiss(codes[choose("byz.kisscode", 5) as usize]), "kiss-unknown", false)
            }
            K_BAD_ORIGIN => {
                fault("forge-origin");
                let mut a = good;
                match choose("byz.origin", 4) {
                    0 => a.ident[choose("byz.origin.byte", 8) as usize] ^= 1 << choose("byz.origin.bit", 8),
                    1 => a.ident = prev.unwrap_or([0; 8]),
                    2 => a.ident = [0; 8],
                    _ => a.ident = simkit::choose_u64("byz.origin.rand").to_be_bytes(),
                }
                if a.ident == ident {
                    return None;
                }
                (a, "bad-origin", true)
            }
            K_BAD_MODE => {
                fault("bad-mode");
                let mut a = good;
                a.mode = if v5 { 3 } else { [3u8, 5, 1, 2, 0, 6, 7][choose("byz.mode", 7) as usize] };
                (a, "bad-mode", true)
            }
            K_BAD_STRATUM => {
                fault("bad-stratum");
                let mut a = good;
                a.stratum = [17u8, 255, 100, 18][choose("byz.stratum", 4) as usize];
                (a, "bad-stratum", true)
            }
            K_WRONG_VERSION => {
                fault("wrong-version");
                let mut a = good;
                a.version = if v5 {
                    [4u8, 3, 6][choose("byz.version5", 3) as usize]
                } else {
                    [5u8, 3, 2, 6, 1][choose("byz.version4", 5) as usize]
                };
                (a, "wrong-version", true)
            }
            K_MARKER_NONMATCHING => {
                fault("marker-on-nonmatching");
                if v5 {
                    return None;
                }
                let mut a = good;
                a.marker = true;
                a.ident = prev.unwrap_or([0x55; 8]);
                if a.ident == ident {
                    return None;
                }
                (a, "marker-nonmatching", true)
            }
            K_MARKER_UNUSABLE => {
                fault("marker-on-unusable");
                if v5 {
                    return None;
                }
                let mut a = match choose("byz.markerkind", 3) {
                    0 => kiss(b"RATE"),
                    1 => kiss(b"XXXX"),
                    _ => {
                        let mut a = good;
                        a.stratum = 200;
                        a
                    }
                };
                a.marker = true;
                (a, "marker-unusable", false)
            }
            K_POLL_REQUEST => {
                fault("v5-poll-request");
                let mut a = good;
                a.poll = if self.huge_polls && chance("byz.hugepoll", 0.3) {
                    [32i8, 40, 63, 100, 126, 127][choose("byz.hugepoll.v", 6) as usize]
                } else {
                    match choose("byz.pollreq", 4) {
                        0 => req.poll.saturating_add(1 + choose("byz.pollreq.up", 4) as i8),
                        1 => (req.poll - 1 - choose("byz.pollreq.down", 4) as i8).max(-6),
                        2 => choose("byz.pollreq.abs", 22) as i8,
                        _ => [31i8, 24, -128, -1][choose("byz.pollreq.edge", 4) as usize],
                    }
                };
                a.poll = a.poll.min(self.max_poll_request);
                (a, "poll-request", true)
            }
            K_COMBO_V5 => {
                if !v5 {
                    return None;
                }
                fault("kiss-combo-v5");
                let mut a = kiss(b"\0\0\0\0");
                a.authnak = true;
                a.poll = if chance("byz.combo.deny", 0.5) { i8::MAX } else { req.poll.saturating_add(2).min(126) };
                (a, "kiss-combo", false)
            }
            K_WEIRD_TS => {
                fault("byz-timestamps");
                let mut a = good;
                match choose("byz.ts", 4) {
                    0 => {
                        a.rx = simkit::choose_u64("byz.ts.rx");
                        a.tx = simkit::choose_u64("byz.ts.tx");
                    }
                    1 => a.tx = a.rx.wrapping_sub(ticks(3_000_000_000)),
                    2 => {
                        a.rx = 0;
                        a.tx = 0;
                    }
                    _ => {
                        a.rx = a.rx.wrapping_add(1 << 63);
                        a.tx = a.tx.wrapping_add(1 << 63);
                    }
                }
                (a, "weird-timestamps", false)
            }
            _ => (good, "good", true),
        })
    }
}
