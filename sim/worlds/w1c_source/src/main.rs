fn main() {}
