//! W1c — plain NTP client-source world (DESIGN.md §4 "W1", client half).
//!
//! 1-3 client nodes, each with 1-3 real `ntp_proto::NtpSource` state machines
//! (behind the real `TwoWaySourceControllerWrapper` with a recording inner
//! controller) talking over `simkit::net::SimNet` to honest servers (the real
//! `ntp_proto::Server`), flaky servers and a byzantine responder that builds
//! answers by hand, plus an on-path adversary replaying old answers.
//! Decides C05, C08, C09, C10, C11, C12.

mod client;
mod glue;
mod model;
mod rec;
mod server;
mod wire;
mod world;

use simkit::batch::{cli_main, Level, Property, WorldDef};

fn main() {
    let p = |id, rule| Property {
        id,
        level: Level::Exploration,
        quick_runs: 300_000,
        thorough_runs: 6_000_000,
        quick_wall_s: 60.0,
        thorough_wall_s: 900.0,
        event_cap: 12_000,
        enumerate: None,
        rule,
        assumptions: &[
            "in ~85% of the runs ntpd's SourceTask::run glue (send-timestamp bookkeeping that defines T1, <48-byte drop, action dispatch) is mirrored in the world so that a read-only probe can compare the source's private state before/after every call; in ~15% of the runs the REAL SourceTask::run drives the source over a simulated socket (hook H15) and the monitors work at wire / measurement / MsgForSystem level",
            "client and server clocks are SimClock instances behind the NtpClock trait; T1..T4 are read from them at the simulated send/delivery instants",
            "the source controller behind the real TwoWaySourceControllerWrapper is a recording shim (optionally delegating to the real Kalman source filter); the clock controller loop is not run",
            "NTS sources use sessions minted in-crate against the server's key set (no key exchange) and only meet authenticated answers built by the real packet code plus network faults; forged unauthenticated traffic to NTS sources is world w1n/w1x territory (C07)",
        ],
    };
    cli_main(WorldDef {
        name: "w1c",
        run: world::run,
        properties: vec![
            p("C05", "one run = a swarm-configured history of polls between 1-6 real sources and honest/flaky/byzantine servers with era-straddling clocks; every InternalMeasurement handed to the inner controller is recomputed in i128 from the four ground-truth timestamps"),
            p("C08", "as C05; every delivered datagram is classified by an independent 48-byte header reader against the model of the pending request; a measurement implies a fresh matching usable answer, at most one per request; non-matching answers change nothing"),
            p("C09", "as C05 with a byzantine responder sending matching RATE/DENY/RSTR/NTSN/unknown kisses between normal answers and silence; poll floor after RATE, deny memory and demobilisation, no effect of NTSN/unknown"),
            p("C10", "as C05 with random PollIntervalLimits (0<=min<=initial<=max<=17), scripted or real filter poll desire, RATE kisses and NTPv5 poll requests; poll field and SetTimer of every poll checked"),
            p("C11", "as C05; an 8-bit shift-register model fed with polls and accepted answers predicts the exact action list of every handle_timer call and observe().unanswered_polls"),
            p("C12", "as C05 with sources in V4 / V5 / auto-upgrade mode against v4-only, v5-capable, legacy and byzantine servers; the four-state machine of the statement predicts version and upgrade marker of every poll; answers of an unexpected version change nothing"),
        ],
        real_components: &[
            "ntp_proto::NtpSource::{handle_timer,handle_incoming} (plain sources, all protocol-version modes)",
            "ntp_proto::TwoWaySourceControllerWrapper::handle_measurement (offset/delay arithmetic)",
            "ntp_proto::Server::handle (honest and flaky servers; v4-only and v5-capable)",
            "ntp_proto packet codec (client requests, server answers)",
            "ntp_proto Kalman source filter (desired poll interval) in a share of the runs",
            "ntpd::daemon::ntp_source::SourceTask::run (real task, simulated socket via hook H15) in ~15% of the runs",
        ],
        stub_components: &[
            "ntpd SourceTask::run glue -> ~40 mirrored lines (send timestamp, <48 byte drop, action dispatch) in the probe-equipped mode",
            "UDP sockets -> simkit::net::SimNet; kernel clocks -> simntp::SimClock",
            "clock controller loop (TimeSyncControllerWrapper::run) not run; inner source controller is a recorder",
        ],
    })
}
