//! Small reference models written from the property statements (C08-C12).

/// Version-negotiation state machine of the C12 statement.
#[derive(Clone, Copy, Debug, PartialEq, Eq)]
pub enum VState {
    V4,
    Upgrading { tries_left: u8 },
    /// switched to v5 after a marker answer, no matching v5 answer yet;
    /// `missed`: v5 polls sent since; `by_usable`: the marker answer itself was usable
    Upgraded { missed: u32, by_usable: bool },
    V5,
}

impl VState {
    pub fn expects(&self, version: u8) -> bool {
        match self {
            // NTPv3 answers are header-compatible answers to an NTPv4 association
            VState::V4 => version == 4 || version == 3,
            VState::Upgrading { .. } => version == 4,
            VState::Upgraded { .. } | VState::V5 => version == 5,
        }
    }
    /// (version, upgrade marker) the next poll must carry
    pub fn poll_shape(&self) -> (u8, bool) {
        match self {
            VState::V4 => (4, false),
            VState::Upgrading { .. } => (4, true),
            VState::Upgraded { .. } | VState::V5 => (5, false),
        }
    }
    /// transition on a matching answer of the expected version
    pub fn on_matching(self, marker: bool, usable: bool) -> VState {
        match self {
            VState::Upgrading { tries_left } => {
                if marker {
                    VState::Upgraded { missed: 0, by_usable: usable }
                } else if tries_left <= 1 {
                    VState::V4
                } else {
                    VState::Upgrading { tries_left: tries_left - 1 }
                }
            }
            VState::Upgraded { .. } => VState::V5,
            s => s,
        }
    }
}

#[derive(Clone, Debug)]
pub struct Req {
    pub seq: u64,
    pub ident: [u8; 8],
    pub version: u8,
    pub poll: i8,
    pub sent_ns: u64,
    pub t1_raw: u64,
    pub measured: u32,
}

#[derive(Clone, Debug)]
pub struct Model {
    pub min: i8,
    pub max: i8,
    /// 8-bit reach register of the C11 statement
    pub reg: u8,
    pub tries: u64,
    pub deny: bool,
    pub ever_usable: bool,
    pub polls_since_usable: u32,
    pub v: VState,
    pub last: Option<Req>,
    /// the most recent request has not yet been consumed by a usable answer
    pub pending_open: bool,
    /// lower bound on every future poll exponent implied by RATE answers so far (C09)
    pub rate_floor: i8,
    /// largest poll exponent asked for by an accepted NTPv5 answer so far (C10)
    pub max_v5_req: i8,
    pub next_seq: u64,
}

pub const POLL_WINDOW_NS: u64 = 5_000_000_000;

impl Model {
    pub fn new(min: i8, max: i8, v: VState) -> Model {
        Model {
            min,
            max,
            reg: 0,
            tries: 0,
            deny: false,
            ever_usable: false,
            polls_since_usable: 0,
            v,
            last: None,
            pending_open: false,
            rate_floor: min,
            max_v5_req: i8::MIN,
            next_seq: 0,
        }
    }

    /// C11: must the next timer reset / demobilise instead of polling?
    pub fn unreachable(&self) -> bool {
        self.tries >= 3 && self.reg == 0
    }

    pub fn on_poll(&mut self, req: Req) {
        self.reg <<= 1;
        self.tries += 1;
        self.polls_since_usable = self.polls_since_usable.saturating_add(1);
        self.last = Some(req);
        self.pending_open = true;
    }

    pub fn on_usable(&mut self) {
        self.reg |= 1;
        self.deny = false;
        self.ever_usable = true;
        self.polls_since_usable = 0;
        self.pending_open = false;
        if let Some(l) = self.last.as_mut() {
            l.measured += 1;
        }
    }

    /// Does a datagram with identifier bytes `ident` arriving at `now_ns` answer the pending request?
    pub fn matches(&self, ident: &[u8; 8], now_ns: u64) -> bool {
        match &self.last {
            Some(l) => self.pending_open && &l.ident == ident && now_ns.saturating_sub(l.sent_ns) <= POLL_WINDOW_NS,
            None => false,
        }
    }

    pub fn expected_unanswered(&self) -> Option<u32> {
        if self.ever_usable {
            Some(self.polls_since_usable.min(8))
        } else if self.tries >= 8 {
            Some(8)
        } else {
            None
        }
    }
}
