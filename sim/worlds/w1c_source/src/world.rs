//! One simulated run of the w1c world: swarm configuration, the discrete-event
//! loop (timers, datagram deliveries, environment faults) and teardown.

use ntp_proto::ProtocolVersion;
use simkit::net::{Datagram, NetCfg, SimNet};
use simkit::{chance, choose, ev, exec, fault, probe, weighted};

use crate::client::{net_id_of_src, random_limits, Meta, Node, Src};
use crate::server::*;

const SEC: i128 = 1 << 32;

#[derive(Debug)]
enum Env {
    ClientJump { node: usize, fixed: i64 },
    ServerJump { srv: usize, fixed: i64 },
    Heal,
}

pub fn swarm_epoch() -> i128 {
    match weighted("cfg.epoch", &[5, 3, 2, 1]) {
        0 => 0xE000_0000i128 << 32,
        1 => {
            fault("era-wrap");
            (1i128 << 64) - [20i128, 3000, 200_000, 1][choose("cfg.epoch.before", 4) as usize] * SEC
        }
        2 => (1i128 << 64) + choose("cfg.epoch.after", 5000) as i128 * SEC,
        _ => 100 * SEC,
    }
}

fn swarm_separation(clean: bool) -> i128 {
    let sign = if chance("cfg.sep.neg", 0.5) { -1 } else { 1 };
    let w: [u32; 7] = if clean { [6, 3, 2, 1, 0, 0, 0] } else { [6, 3, 2, 2, 2, 1, 1] };
    let mag = match weighted("cfg.sep", &w) {
        0 => choose("cfg.sep.small", 2_000_000) as i128, // < 0.5 ms
        1 => 37 * SEC / 10,
        2 => 5000 * SEC,
        3 => (SEC << 30) * 9 / 10,
        4 => {
            fault("wide-offset");
            (SEC << 30) * 13 / 10
        }
        5 => {
            fault("unrepresentable-offset");
            (SEC << 31) + 1000 * SEC
        }
        _ => {
            fault("whole-era-offset");
            SEC << 32
        }
    };
    sign * mag
}

fn swarm_freq() -> f64 {
    [0.0, 20e-6, -50e-6, 100e-6][choose("cfg.freq", 4) as usize]
}

pub fn run() {
    simntp::reset_hooks();
    let focus = simkit::focus();
    let clean = !chance("cfg.faulty", 0.75);

    exec::block_on(async move {
        // a share of the runs drives the sources through the REAL ntpd SourceTask (hook H15)
        if chance("cfg.glue", if focus == "C05" { 0.4 } else { 0.15 }) {
            probe("real-source-task-mode");
            crate::glue::run(focus, clean).await;
            return;
        }
        // ---- topology ---------------------------------------------------------
        let n_nodes = 1 + weighted("cfg.nodes", &[5, 3, 2]);
        let n_srv = 1 + weighted("cfg.servers", &[3, 4, 2, 1]);
        let mut nodes: Vec<Node> = Vec::new();
        let base_epoch = swarm_epoch();
        for n in 0..n_nodes {
            let e = base_epoch + if n == 0 { 0 } else { swarm_separation(clean) / 1024 };
            nodes.push(Node::new(n, e, swarm_freq()));
        }
        let mut plan: Vec<(usize, usize)> = Vec::new(); // (node, server) per source
        for n in 0..n_nodes {
            let k = 1 + weighted("cfg.srcs", &[5, 3, 2]);
            for _ in 0..k {
                plan.push((n, choose("cfg.src.srv", n_srv as u64) as usize));
            }
        }
        let nsrc = plan.len();

        let mut srvs: Vec<Srv> = Vec::new();
        for j in 0..n_srv {
            let epoch = base_epoch + swarm_separation(clean);
            let freq = swarm_freq();
            // kinds: 0 real v4+v5, 1 real v4 only, 2 byzantine/legacy, 3 real flaky, 4 real v5 only
            let kw: [u32; 5] = match focus {
                "C09" => [2, 1, 6, 1, 0],
                "C12" => [3, 3, 4, 2, 1],
                "C10" => [3, 1, 5, 1, 0],
                "C11" => [3, 2, 3, 4, 0],
                _ => [4, 2, 4, 2, 0],
            };
            let kind = weighted("cfg.srv.kind", &kw);
            let mut s = match kind {
                0 => Srv::new_real(j, epoch, freq, true, false, nsrc),
                1 => Srv::new_real(j, epoch, freq, false, false, nsrc),
                3 => Srv::new_real(j, epoch, freq, chance("cfg.srv.flaky.v5", 0.5), false, nsrc),
                4 => Srv::new_real(j, epoch, freq, true, true, nsrc),
                _ => Srv::new_byz(j, epoch, freq, nsrc),
            };
            if !s.is_byz() && !clean && chance("cfg.srv.ntskiss", if focus == "C09" { 0.6 } else { 0.3 }) {
                s.nts_weights = [6, 1 + choose("cfg.srv.nts.rate", 3) as u32, choose("cfg.srv.nts.deny", 2) as u32, choose("cfg.srv.nts.nak", 3) as u32];
            }
            if kind == 3 && !clean {
                s.drop_p = [0.1, 0.3, 0.6, 0.9][choose("cfg.srv.drop", 4) as usize];
                s.silence_p = [0.0, 0.03, 0.1][choose("cfg.srv.silence", 3) as usize];
            }
            if s.is_byz() {
                s.echo_marker = chance("cfg.byz.echo", 0.4);
                s.speaks_v5 = !chance("cfg.byz.v4only", 0.3);
                s.stratum = [2u8, 1, 15, 16][choose("cfg.byz.stratum", 4) as usize];
                if !clean {
                    s.silence_p = [0.0, 0.02, 0.08][choose("cfg.byz.silence", 3) as usize];
                    s.huge_polls = chance("cfg.byz.hugepolls", 0.15);
                    for k in 1..BYZ_KINDS {
                        let p = match (focus, k) {
                            ("C09", K_RATE | K_DENY | K_RSTR | K_NTSN | K_UNKNOWN | K_COMBO_V5 | K_SILENCE) => 0.7,
                            ("C12", K_WRONG_VERSION | K_MARKER_NONMATCHING | K_MARKER_UNUSABLE | K_SILENCE) => 0.7,
                            ("C10", K_RATE | K_POLL_REQUEST) => 0.8,
                            ("C08", K_BAD_ORIGIN | K_DOUBLE | K_BAD_MODE | K_BAD_STRATUM | K_WRONG_VERSION) => 0.7,
                            ("C05", K_WEIRD_TS) => 0.6,
                            ("C11", K_SILENCE | K_DENY | K_RSTR) => 0.6,
                            _ => 0.3,
                        };
                        if chance("cfg.byz.enable", p) {
                            s.weights[k] = 1 + choose("cfg.byz.weight", 3) as u32;
                        }
                    }
                }
            }
            ev!(
                "cfg srv{j} kind={kind} byz={} sep={} s drop={} silence={} echo={} v5={} weights={:?}",
                s.is_byz(),
                ((epoch - base_epoch) / SEC),
                s.drop_p,
                s.silence_p,
                s.echo_marker,
                s.speaks_v5,
                s.weights
            );
            srvs.push(s);
        }

        let mut net: SimNet<Meta> = SimNet::new(if clean { NetCfg::clean() } else { NetCfg::swarm() });
        let real_filter_run = chance("cfg.realfilter", if focus == "C10" { 0.5 } else { 0.25 });
        let lateness = !clean && chance("cfg.lateness", 0.3);
        let jumps_p = if clean { 0.0 } else { [0.0, 0.05, 0.2][choose("cfg.jumps", 3) as usize] };
        let replay_p = if clean { 0.0 } else { [0.0, 0.1, 0.4][choose("cfg.replay", 3) as usize] };
        let script_p = [0.0, 0.1, 0.4][choose("cfg.script", 3) as usize];
        let partition_p = if clean { 0.0 } else { [0.0, 0.0, 0.03][choose("cfg.partition", 3) as usize] };

        let mut srcs: Vec<Src> = Vec::new();
        for (i, (n, j)) in plan.iter().enumerate() {
            let (cfg, _, _) = random_limits();
            let mw: [u32; 3] = match focus {
                "C12" => [2, 2, 6],
                _ => [3, 2, 4],
            };
            let mode = match weighted("cfg.src.mode", &mw) {
                0 => ProtocolVersion::V4,
                1 => ProtocolVersion::V5,
                _ => ProtocolVersion::v4_upgrading_to_v5_with_default_tries(),
            };
            let mut mode = mode;
            let mut nts_keyset = None;
            if let Some(ks) = srvs[*j].keyset() {
                if chance("cfg.src.nts", if focus == "C09" { 0.4 } else { 0.2 }) {
                    // key exchange negotiates exactly one version
                    mode = if srvs[*j].speaks_v5 && chance("cfg.src.nts.v5", 0.5) { ProtocolVersion::V5 } else { ProtocolVersion::V4 };
                    nts_keyset = Some(ks);
                }
            }
            let mut s = Src::new(i, *n, *j, cfg, mode, real_filter_run, lateness);
            s.nts_keyset = nts_keyset;
            s.spawn(&nodes, 0);
            // sources do not all start at the same instant
            s.timer_at = Some(choose("cfg.src.start", 3_000_000_000));
            srcs.push(s);
        }
        ev!("cfg nodes={n_nodes} servers={n_srv} sources={nsrc} clean={clean} realfilter={real_filter_run} jumps={jumps_p} replay={replay_p}");

        let mut envq: Vec<(u64, u64, Env)> = Vec::new();
        let mut env_seq = 0u64;
        let max_ops = 60 + choose("cfg.ops", 500);
        let mut ops = 0u64;
        let mut now: u64 = 0;
        const HORIZON: u64 = 4_000_000_000_000_000_000; // ~126 years of simulated time

        loop {
            if ops >= max_ops || simkit::out_of_budget() {
                break;
            }
            // ---- next event time ------------------------------------------------
            let mut t_next: Option<u64> = net.next_time();
            for s in &srcs {
                for t in [s.timer_at, s.respawn_at].into_iter().flatten() {
                    t_next = Some(t_next.map_or(t, |x| x.min(t)));
                }
            }
            if let Some(t) = envq.iter().map(|e| e.0).min() {
                t_next = Some(t_next.map_or(t, |x| x.min(t)));
            }
            let Some(t) = t_next else { break };
            if t > HORIZON {
                probe("horizon-reached");
                break;
            }
            if t > now {
                tokio::time::advance(std::time::Duration::from_nanos(t - now)).await;
                now = t;
                simkit::set_now_ns(now);
                let real = exec::elapsed_ns();
                if real != now {
                    simkit::abort(format!("w1c: simulated clock {real} != event time {now}"));
                    break;
                }
            }
            // ---- everything due now: pick one (seeded tie-break) -------------------
            #[derive(Clone, Copy)]
            enum Due {
                Timer(usize),
                Respawn(usize),
                Net,
                Env(usize),
            }
            let mut due: Vec<Due> = Vec::new();
            if net.next_time().is_some_and(|x| x <= now) {
                due.push(Due::Net);
            }
            for (i, s) in srcs.iter().enumerate() {
                if s.timer_at.is_some_and(|x| x <= now) {
                    due.push(Due::Timer(i));
                }
                if s.respawn_at.is_some_and(|x| x <= now) {
                    due.push(Due::Respawn(i));
                }
            }
            for (k, e) in envq.iter().enumerate() {
                if e.0 <= now {
                    due.push(Due::Env(k));
                }
            }
            if due.is_empty() {
                continue;
            }
            let pick = due[choose("ev.tie", due.len() as u64) as usize];
            ops += 1;
            match pick {
                Due::Timer(i) => {
                    srcs[i].on_timer(&nodes, &mut net, now);
                    // environment reactions to a poll being in flight
                    if srcs[i].ns.is_some() {
                        let node = srcs[i].node;
                        let j = srcs[i].srv;
                        if chance("env.client-jump", jumps_p) {
                            let mut fixed = [3i64 << 20, 7 << 32, -(5i64 << 30), 3600 << 32, -(90i64 << 32)][choose("env.cjump", 5) as usize];
                            if real_filter_run {
                                fixed = fixed.abs();
                            }
                            env_seq += 1;
                            envq.push((now + choose("env.cjump.at", 1_500_000_000), env_seq, Env::ClientJump { node, fixed }));
                        }
                        if chance("env.server-jump", jumps_p / 2.0) {
                            let fixed = [1i64 << 22, 30 << 32, -(2i64 << 32)][choose("env.sjump", 3) as usize];
                            env_seq += 1;
                            envq.push((now + choose("env.sjump.at", 1_500_000_000), env_seq, Env::ServerJump { srv: j, fixed }));
                        }
                        if chance("env.replay", replay_p) && !srcs[i].history.is_empty() {
                            let h = &srcs[i].history;
                            // most often the newest recorded answer (the one most likely to be mistaken for fresh)
                            let k = if chance("env.replay.old", 0.4) { choose("env.replay.idx", h.len() as u64) as usize } else { h.len() - 1 };
                            let (bytes, mut meta) = h[k].clone();
                            meta.note = "replay";
                            fault("replay");
                            net.inject(
                                now + choose("env.replay.at", 6_000_000_000),
                                Datagram {
                                    id: 0,
                                    from: j as u32,
                                    to: net_id_of_src(i),
                                    bytes,
                                    original: None,
                                    mutation: None,
                                    duplicate: true,
                                    sent_ns: now,
                                    meta,
                                },
                            );
                        }
                        if chance("env.script", script_p) {
                            let lim = srcs[i].cfg.poll_interval_limits;
                            let (lo, hi) = (lim.min.as_log(), lim.max.as_log());
                            let p = lo + choose("env.script.p", (hi - lo) as u64 + 1) as i8;
                            srcs[i].set_scripted_poll(p);
                            ev!("src{i} filter now desires poll {p}");
                        }
                        if chance("env.partition", partition_p) {
                            net.partition(net_id_of_src(i), j as u32);
                            let exp = srcs[i].model.last.as_ref().map(|l| l.poll.clamp(0, 17)).unwrap_or(4) as u32;
                            env_seq += 1;
                            envq.push((now + (1 + choose("env.partition.len", 12)) * (1u64 << exp) * 1_050_000_000, env_seq, Env::Heal));
                        }
                    }
                }
                Due::Respawn(i) => {
                    probe("source-respawned-after-reset");
                    srcs[i].spawn(&nodes, now);
                }
                Due::Net => {
                    let Some((_, d)) = net.pop_due(now) else { continue };
                    if d.meta.is_request && (d.to as usize) < srvs.len() && d.from >= 1000 {
                        srvs[d.to as usize].on_request(&d, &mut net, now);
                    } else if d.to >= 1000 {
                        let i = (d.to - 1000) as usize;
                        if i < srcs.len() {
                            let j = srcs[i].srv;
                            let su = if d.meta.srv < srvs.len() { Some(srvs[d.meta.srv].clk.approx_u(now)) } else { None };
                            let _ = j;
                            srcs[i].on_datagram(&nodes, su, &d, now);
                            if !d.meta.is_request && d.meta.note != "replay" {
                                let h = &mut srcs[i].history;
                                if h.len() >= 12 {
                                    h.remove(0);
                                }
                                h.push((d.bytes.clone(), d.meta.clone()));
                            }
                        }
                    }
                }
                Due::Env(k) => {
                    let (_, _, e) = envq.remove(k);
                    match e {
                        Env::ClientJump { node, fixed } => {
                            fault("client-clock-jump");
                            ev!("env client{node} clock jumps by {fixed}");
                            nodes[node].clk.jump(fixed);
                        }
                        Env::ServerJump { srv, fixed } => {
                            fault("server-clock-jump");
                            ev!("env srv{srv} clock jumps by {fixed}");
                            srvs[srv].clk.jump(fixed);
                        }
                        Env::Heal => {
                            ev!("env partitions healed");
                            net.heal_all();
                        }
                    }
                }
            }
        }
        ev!("end ops={ops} now={now} sent={} delivered={}", net.sent, net.delivered);
        // orderly teardown: sources first (they hold channels into the wrappers)
        drop(srcs);
        drop(srvs);
        drop(nodes);
    });
    ntp_proto::verif::clear();
}
