//! Independent 48-byte NTP header reader and hand-written answer builders
//! (deliberately not using the repo's codec: the oracles must not share the
//! implementation's parser, and the byzantine responder must be able to emit
//! things the codec would never produce).

pub const UPGRADE_MARKER: [u8; 8] = *b"NTP5DRFT";
pub const DRAFT_ID: &[u8] = b"draft-ietf-ntp-ntpv5-09";

#[derive(Clone, Copy, Debug, PartialEq, Eq)]
pub struct Hdr {
    pub li: u8,
    pub version: u8,
    pub mode: u8,
    pub stratum: u8,
    pub poll: i8,
    /// v3/v4: reference id; v5: timescale, era, flags
    pub b12_16: [u8; 4],
    /// v3/v4: reference timestamp; v5: server cookie
    pub b16_24: [u8; 8],
    /// v3/v4: origin timestamp; v5: client cookie
    pub b24_32: [u8; 8],
    pub rx: u64,
    pub tx: u64,
    pub len: usize,
}

impl Hdr {
    pub fn read(b: &[u8]) -> Option<Hdr> {
        if b.len() < 48 {
            return None;
        }
        Some(Hdr {
            li: b[0] >> 6,
            version: (b[0] >> 3) & 7,
            mode: b[0] & 7,
            stratum: b[1],
            poll: b[2] as i8,
            b12_16: b[12..16].try_into().unwrap(),
            b16_24: b[16..24].try_into().unwrap(),
            b24_32: b[24..32].try_into().unwrap(),
            rx: u64::from_be_bytes(b[32..40].try_into().unwrap()),
            tx: u64::from_be_bytes(b[40..48].try_into().unwrap()),
            len: b.len(),
        })
    }

    /// identifier a client request carries (what the answer must echo in bytes 24..32)
    pub fn request_ident(&self) -> [u8; 8] {
        if self.version == 5 {
            self.b24_32
        } else {
            self.tx.to_be_bytes()
        }
    }

    pub fn has_marker(&self) -> bool {
        self.version == 4 && self.b16_24 == UPGRADE_MARKER
    }

    pub fn v5_authnak(&self) -> bool {
        self.b12_16[3] & 0b100 != 0
    }
}

#[derive(Clone, Debug)]
pub struct Answer {
    pub version: u8,
    pub li: u8,
    pub mode: u8,
    pub stratum: u8,
    pub poll: i8,
    pub refid: [u8; 4],
    pub marker: bool,
    pub ident: [u8; 8],
    pub rx: u64,
    pub tx: u64,
    /// v5 only
    pub authnak: bool,
}

impl Answer {
    pub fn build(&self) -> Vec<u8> {
        let mut b = Vec::with_capacity(80);
        b.push((self.li << 6) | ((self.version & 7) << 3) | (self.mode & 7));
        b.push(self.stratum);
        b.push(self.poll as u8);
        b.push((-20i8) as u8);
        if self.version == 5 {
            // root delay / dispersion (time32), timescale UTC, era 0, flags
            b.extend_from_slice(&[0, 0, 0x10, 0]);
            b.extend_from_slice(&[0, 0, 0x20, 0]);
            b.push(0);
            b.push(0);
            b.push(0);
            b.push(0b001 | if self.authnak { 0b100 } else { 0 });
            // server cookie
            b.extend_from_slice(&[0x5a, 0x11, 0x22, 0x33, 0x44, 0x55, 0x66, 0x77]);
            b.extend_from_slice(&self.ident);
            b.extend_from_slice(&self.rx.to_be_bytes());
            b.extend_from_slice(&self.tx.to_be_bytes());
            // draft identification extension field: type 0xF5FF, length 4 + 23, padded to 28
            b.extend_from_slice(&[0xF5, 0xFF]);
            b.extend_from_slice(&((4 + DRAFT_ID.len()) as u16).to_be_bytes());
            b.extend_from_slice(DRAFT_ID);
            while b.len() % 4 != 0 {
                b.push(0);
            }
        } else {
            b.extend_from_slice(&[0, 0, 0x01, 0]);
            b.extend_from_slice(&[0, 0, 0x02, 0]);
            b.extend_from_slice(&self.refid);
            if self.marker {
                b.extend_from_slice(&UPGRADE_MARKER);
            } else {
                b.extend_from_slice(&self.rx.to_be_bytes());
            }
            b.extend_from_slice(&self.ident);
            b.extend_from_slice(&self.rx.to_be_bytes());
            b.extend_from_slice(&self.tx.to_be_bytes());
        }
        b
    }
}

/// How the statement classifies an answer that matches the pending request and
/// has the expected version.
#[derive(Clone, Copy, Debug, PartialEq, Eq)]
pub enum Class {
    Usable,
    Rate,
    Deny,
    Ntsn,
    UnknownKiss,
    /// NTPv5 answers combining kiss indications (authnak + poll change): statement silent on precedence
    AmbiguousKiss,
    BadStratum,
    BadMode,
}

/// Classification of a matching answer. `req_poll`: poll exponent of the request it answers.
pub fn classify(h: &Hdr, req_poll: i8) -> Class {
    if h.stratum == 0 {
        if h.version == 5 {
            let rate = h.poll > req_poll && h.poll != i8::MAX;
            let deny = h.poll == i8::MAX;
            let nak = h.v5_authnak();
            return match (rate, deny, nak) {
                (true, false, false) => Class::Rate,
                (false, true, false) => Class::Deny,
                (false, false, true) => Class::Ntsn,
                (false, false, false) => Class::UnknownKiss,
                _ => Class::AmbiguousKiss,
            };
        }
        return match &h.b12_16 {
            b"RATE" => Class::Rate,
            b"DENY" | b"RSTR" => Class::Deny,
            b"NTSN" => Class::Ntsn,
            _ => Class::UnknownKiss,
        };
    }
    if h.stratum > 16 {
        return Class::BadStratum;
    }
    if h.mode != 4 {
        return Class::BadMode;
    }
    Class::Usable
}
