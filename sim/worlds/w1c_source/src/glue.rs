//! "Real glue" mode (hook H15): the REAL `ntpd` `SourceTask::run` loop drives the real
//! `NtpSource` over a simulated connected UDP socket. The source is owned by the task, so
//! the monitors work at wire / measurement / `MsgForSystem` level: what is sent and when,
//! which datagrams yield which measurements, and how the task ends.

use std::collections::HashMap;
use std::net::SocketAddr;
use std::sync::{Arc, Mutex, RwLock};

use ntp_proto::{ClockId, ObservableSourceState, ProtocolVersion, SourceConfig, TimeSyncController};
use ntpd::verif::source as shim;
use simkit::net::{Datagram, NetCfg, SimNet};
use simkit::{chance, check, choose, ev, exec, fault, probe, weighted};

use crate::client::{net_id_of_src, random_limits, srv_ip, Meta, Node};
use crate::model::{Model, Req, VState};
use crate::rec::{set_next_handle, RecHandle, RecM, RecShared};
use crate::server::*;
use crate::wire::{classify, Class, Hdr};

struct GSrc {
    idx: usize,
    srv: usize,
    cfg: SourceConfig,
    mode: ProtocolVersion,
    peer: SocketAddr,
    id: ClockId,
    rec: RecHandle,
    rec_seen: usize,
    model: Model,
    handle: Option<tokio::task::JoinHandle<()>>,
    last_send: Option<(u64, i8)>,
    ended: bool,
    respawn_at: Option<u64>,
    history: Vec<(Vec<u8>, Meta)>,
}

fn vstate_of(p: ProtocolVersion) -> VState {
    match p {
        ProtocolVersion::V4 => VState::V4,
        ProtocolVersion::V4UpgradingToV5 { .. } => VState::Upgrading { tries_left: 8 },
        ProtocolVersion::UpgradedToV5 => VState::Upgraded { missed: 0, by_usable: true },
        ProtocolVersion::V5 => VState::V5,
    }
}

type Snapshots = Arc<RwLock<HashMap<ClockId, ObservableSourceState>>>;

/// Seconds between the NTP era-0 epoch (1900) and the unix epoch (1970).
const NTP_UNIX_OFFSET: i128 = 2_208_988_800;

/// The 64-bit NTP timestamp a packet stamped by the kernel at unix time (seconds, nanos) stands for:
/// era-unwrapped 32.32 value of that instant, folded into 64 bits (so it wraps at the era boundary).
fn ntp_of_unix(ts: (i64, u32)) -> u64 {
    let unwrapped: i128 = ((ts.0 as i128 + NTP_UNIX_OFFSET) << 32) + (((ts.1 as i128) << 32) / 1_000_000_000);
    unwrapped as u64
}

/// The node's clock as the kernel reports it on packets: era-unwrapped, as (unix seconds, nanoseconds).
fn kernel_clock(c: simntp::SimClock, epoch_u: i128, stepped: Arc<Mutex<i128>>) -> Box<dyn Fn() -> (i64, u32)> {
    Box::new(move || {
        simkit::set_now_ns(exec::elapsed_ns());
        let ns = simkit::now_ns();
        let raw = c.raw_now();
        let est: i128 = epoch_u + *stepped.lock().unwrap() + (((ns as u128) << 32) / 1_000_000_000u128) as i128;
        let unwrapped = est + (raw.wrapping_sub(est as u64) as i64) as i128;
        let secs = (unwrapped >> 32) - NTP_UNIX_OFFSET;
        let nanos = ((unwrapped & 0xffff_ffff) * 1_000_000_000) >> 32;
        (secs as i64, nanos as u32)
    })
}

/// The client clock as the task sees it. `SimClock` reads simkit's notion of "now", which the
/// multiplexer only refreshes when it polls one of its own children; the real task is scheduled by
/// tokio itself, so the simulated time is refreshed from the paused tokio clock on every read.
#[derive(Clone)]
struct LiveClock(simntp::SimClock);

impl ntp_proto::NtpClock for LiveClock {
    type Error = simntp::SimClockError;
    fn now(&self) -> Result<ntp_proto::NtpTimestamp, Self::Error> {
        simkit::set_now_ns(exec::elapsed_ns());
        self.0.now()
    }
    fn set_frequency(&self, f: f64) -> Result<ntp_proto::NtpTimestamp, Self::Error> {
        self.0.set_frequency(f)
    }
    fn get_frequency(&self) -> Result<f64, Self::Error> {
        self.0.get_frequency()
    }
    fn step_clock(&self, o: ntp_proto::NtpDuration) -> Result<ntp_proto::NtpTimestamp, Self::Error> {
        self.0.step_clock(o)
    }
    fn disable_ntp_algorithm(&self) -> Result<(), Self::Error> {
        self.0.disable_ntp_algorithm()
    }
    fn error_estimate_update(&self, e: ntp_proto::NtpDuration, m: ntp_proto::NtpDuration) -> Result<(), Self::Error> {
        self.0.error_estimate_update(e, m)
    }
    fn status_update(&self, l: ntp_proto::NtpLeapIndicator) -> Result<(), Self::Error> {
        self.0.status_update(l)
    }
}

impl GSrc {
    fn spawn(&mut self, node: &Node, tx: &tokio::sync::mpsc::Sender<shim::MsgForSystem>, snaps: &Snapshots) {
        let lim = self.cfg.poll_interval_limits;
        let (lo, hi) = (lim.min.as_log(), lim.max.as_log());
        let scripted = lo + choose("src.script0", (hi - lo) as u64 + 1) as i8;
        self.rec = Arc::new(Mutex::new(RecShared {
            measurements: Vec::new(),
            scripted_poll: Some(scripted),
        }));
        self.rec_seen = 0;
        set_next_handle(self.rec.clone());
        self.id = ClockId::new();
        let ctrl = node.wrapper.add_source(self.id, self.cfg);
        let (ns, actions) = node.mgr.new_source(self.peer, self.cfg, self.mode, ctrl, None, self.id);
        let channels = shim::SourceChannels {
            msg_for_system_sender: tx.clone(),
            source_snapshots: snaps.clone(),
        };
        self.handle = Some(shim::spawn_source_task(self.id, format!("src{}", self.idx), self.peer, LiveClock(node.clk.c.clone()), channels, ns, actions));
        self.model = Model::new(lo, hi, vstate_of(self.mode));
        self.last_send = None;
        self.ended = false;
        self.respawn_at = None;
        ev!("gsrc{} task spawned id={} mode={:?} limits=({lo},{hi}) scripted={scripted}", self.idx, self.id, self.mode);
    }

    fn on_send(&mut self, node: &Node, snaps: &Snapshots, bytes: &[u8], now: u64, latest: bool, kernel_ts: Option<(i64, u32)>) -> bool {
        let i = self.idx;
        let lim = self.cfg.poll_interval_limits;
        let (min, max) = (lim.min.as_log(), lim.max.as_log());
        if self.ended {
            simkit::violation("C11", "task-sends-after-ending", format!("gsrc{i}: datagram sent after the task reported its end"));
            return false;
        }
        check!(
            "C11",
            "unreachable-source-stops",
            !self.model.unreachable(),
            "gsrc{i} (real SourceTask): no usable answer in the last {} polls (tries {}) but the task sent another poll",
            self.model.polls_since_usable.min(8),
            self.model.tries
        );
        let Some(h) = Hdr::read(bytes) else {
            simkit::violation("C12", "poll-wellformed", format!("gsrc{i}: poll of {} bytes", bytes.len()));
            return false;
        };
        if let VState::Upgraded { missed, by_usable } = self.model.v {
            if missed >= 2 {
                probe("v5-fallback");
                self.model.v = VState::V4;
            } else if !by_usable && h.version == 4 {
                probe("v5-early-fallback-after-unusable-marker-answer");
                self.model.v = VState::V4;
            }
        }
        let (want_v, want_marker) = self.model.v.poll_shape();
        check!(
            "C12",
            "poll-version-and-marker",
            h.version == want_v && h.has_marker() == want_marker && h.mode == 3,
            "gsrc{i} (configured {:?}, real SourceTask): negotiation state {:?} requires a v{want_v} poll with upgrade marker {want_marker}, sent v{} marker {} mode {}",
            self.mode,
            self.model.v,
            h.version,
            h.has_marker(),
            h.mode
        );
        if let VState::Upgraded { missed, by_usable } = self.model.v {
            self.model.v = VState::Upgraded { missed: missed + 1, by_usable };
        }
        let upper = max.max(self.model.max_v5_req);
        check!(
            "C10",
            "poll-exponent-within-bounds",
            h.poll >= min && h.poll <= upper,
            "gsrc{i} (real SourceTask): poll exponent {} outside [{min}, max({max}, largest v5 request {})]",
            h.poll,
            self.model.max_v5_req
        );
        check!(
            "C09",
            "poll-not-faster-after-rate",
            h.poll >= self.model.rate_floor,
            "gsrc{i} (real SourceTask): poll exponent {} below the floor {} implied by earlier RATE answers",
            h.poll,
            self.model.rate_floor
        );
        if let Some((prev_ns, prev_poll)) = self.last_send {
            // the task re-arms its timer right after sending: the gap between two polls is the SetTimer
            // duration plus at most the runtime's 1 ms timer granularity
            if (0..=31).contains(&prev_poll) {
                let interval = (1u64 << prev_poll) as f64;
                let gap = (now - prev_ns) as f64 / 1e9;
                check!(
                    "C10",
                    "timer-jitter-on-the-wire",
                    gap >= 1.01 * interval - 1e-6 && gap <= 1.05 * interval + 0.0021,
                    "gsrc{i} (real SourceTask): poll with exponent {prev_poll} followed by the next poll after {gap} s = {} x the interval",
                    gap / interval
                );
            }
        }
        self.last_send = Some((now, h.poll));
        // T1: the kernel's send timestamp when the socket provides one, else the clock read at the send
        let t1 = match kernel_ts {
            Some(ts) => {
                if ts.0 >= 2_085_978_496 {
                    probe("glue-kernel-timestamp-in-era-1");
                }
                ntp_of_unix(ts)
            }
            None => node.clk.raw(),
        };
        let seq = self.model.next_seq;
        self.model.next_seq += 1;
        self.model.on_poll(Req {
            seq,
            ident: h.request_ident(),
            version: h.version,
            poll: h.poll,
            sent_ns: now,
            t1_raw: t1,
            measured: 0,
        });
        ev!("gsrc{i} send seq={seq} v{} marker={} poll={} t1={t1}", h.version, h.has_marker(), h.poll);
        if latest {
            // (if the task went on to take an answer in the same instant the published state is one step ahead)
            self.check_snapshot(snaps, "send");
        }
        true
    }

    fn check_snapshot(&self, snaps: &Snapshots, what: &str) {
        let snap = snaps.read().unwrap().get(&self.id).cloned();
        if let (Some(ob), Some(exp)) = (snap, self.model.expected_unanswered()) {
            check!(
                "C11",
                "unanswered-polls-reported",
                ob.unanswered_polls == exp,
                "gsrc{} after {what}: published unanswered_polls={} but {} polls were sent since the last usable answer",
                self.idx,
                ob.unanswered_polls,
                self.model.polls_since_usable
            );
        }
    }

    fn take_new(&mut self) -> Vec<RecM> {
        let r = self.rec.lock().unwrap();
        let v = r.measurements[self.rec_seen..].to_vec();
        drop(r);
        self.rec_seen += v.len();
        v
    }

    /// judge what the task did with a datagram delivered at `at_ns` (client clock then: `t4`)
    fn after_delivery(&mut self, snaps: &Snapshots, d: &Datagram<Meta>, delivered: bool, at_ns: u64, t4: u64, quiet: bool) {
        let i = self.idx;
        let new_meas = self.take_new();
        let bytes = &d.bytes[..d.bytes.len().min(1024)];
        let Some(h) = Hdr::read(bytes) else {
            check!("C08", "short-datagram-ignored", new_meas.is_empty(), "gsrc{i}: {} byte datagram produced a measurement", bytes.len());
            return;
        };
        let matches = delivered && self.model.matches(&h.b24_32, at_ns);
        let expected_ver = self.model.v.expects(h.version);
        ev!(
            "gsrc{i} rx {} v{} st={} poll={} note={} dup={} delivered={delivered} match={matches} expver={expected_ver} -> meas={}",
            bytes.len(),
            h.version,
            h.stratum,
            h.poll,
            d.meta.note,
            d.duplicate,
            new_meas.len()
        );
        if !(matches && expected_ver) {
            check!(
                "C08",
                "nonmatching-answer-not-measured",
                new_meas.is_empty(),
                "gsrc{i} (real SourceTask): answer that does not match the pending request / expected version (note {}, delivered {delivered}) produced {} measurement(s)",
                d.meta.note,
                new_meas.len()
            );
            if !new_meas.is_empty() {
                self.model.on_usable();
            }
            return;
        }
        let req = self.model.last.clone().expect("matching implies a request");
        let class = classify(&h, req.poll);
        self.model.v = self.model.v.on_matching(h.has_marker(), class == Class::Usable);
        let lim = self.cfg.poll_interval_limits;
        match class {
            Class::Usable => {
                probe("glue-usable-answer");
                check!(
                    "C11",
                    "usable-answer-accepted",
                    !new_meas.is_empty(),
                    "gsrc{i} (real SourceTask): fresh matching usable answer (v{} stratum {}) produced no measurement",
                    h.version,
                    h.stratum
                );
                check!(
                    "C08",
                    "one-measurement-per-request",
                    new_meas.len() <= 1 && req.measured == 0,
                    "gsrc{i}: request seq {} produced {} measurement(s) now and {} before",
                    req.seq,
                    new_meas.len(),
                    req.measured
                );
                if let Some(m) = new_meas.first() {
                    self.model.on_usable();
                    if h.version == 5 && h.poll > self.model.max_v5_req {
                        self.model.max_v5_req = h.poll;
                    }
                    let w = |a: u64, b: u64| a.wrapping_sub(b) as i64 as i128;
                    let (t1, t2, t3) = (req.t1_raw, h.rx, h.tx);
                    let sum = w(t2, t1) + w(t3, t4);
                    let exp_delay = w(t4, t1) - w(t3, t2);
                    check!(
                        "C05",
                        "glue-localtime-is-t4",
                        m.localtime == t4,
                        "gsrc{i} (real SourceTask): measurement localtime {} but the datagram was handed to the socket at client time {t4}",
                        m.localtime
                    );
                    if sum <= i64::MAX as i128 && sum >= i64::MIN as i128 {
                        check!(
                            "C05",
                            "glue-offset-formula",
                            (m.offset as i128 - sum.div_euclid(2)).abs() <= 1,
                            "gsrc{i} (real SourceTask): T1={t1} (clock when the poll hit the socket) T2={t2} T3={t3} T4={t4}: expected offset {}, fed {}",
                            sum.div_euclid(2),
                            m.offset
                        );
                    }
                    if exp_delay <= i64::MAX as i128 && exp_delay >= i64::MIN as i128 {
                        check!(
                            "C05",
                            "glue-delay-formula",
                            m.delay as i128 == exp_delay,
                            "gsrc{i} (real SourceTask): T1={t1} T2={t2} T3={t3} T4={t4}: expected delay {exp_delay}, fed {}",
                            m.delay
                        );
                    }
                }
            }
            other => {
                check!(
                    "C08",
                    "only-usable-answers-measured",
                    new_meas.is_empty(),
                    "gsrc{i} (real SourceTask): {other:?} answer produced {} measurement(s)",
                    new_meas.len()
                );
                match other {
                    Class::Rate => {
                        probe("glue-kiss-rate");
                        let mf = self.model.rate_floor;
                        self.model.rate_floor = mf.max(mf.saturating_add(1).min(lim.max.as_log())).max(req.poll);
                    }
                    Class::Deny => {
                        probe("glue-kiss-deny");
                        self.model.deny = true;
                    }
                    _ => {}
                }
                if !new_meas.is_empty() {
                    self.model.on_usable();
                }
            }
        }
        if quiet {
            // (with a poll sent in the same instant the published state is already one step ahead)
            self.check_snapshot(snaps, "answer");
        }
    }

    fn on_msg(&mut self, msg: &shim::MsgForSystem, now: u64) {
        let i = self.idx;
        let what = match msg {
            shim::MsgForSystem::MustDemobilize(_) => "MustDemobilize",
            shim::MsgForSystem::NetworkIssue(_) => "NetworkIssue",
            shim::MsgForSystem::Unreachable(_) => "Unreachable",
        };
        ev!("gsrc{i} task reports {what}");
        probe("glue-task-ended");
        let want = if self.model.deny { "MustDemobilize" } else { "Unreachable" };
        check!(
            "C11",
            "task-ends-only-when-unreachable",
            self.model.unreachable() && what == want,
            "gsrc{i} (real SourceTask): reported {what}; model: tries {}, reach {:08b}, deny seen {} (expected {})",
            self.model.tries,
            self.model.reg,
            self.model.deny,
            if self.model.unreachable() { want } else { "to keep polling" }
        );
        if what == "MustDemobilize" {
            check!(
                "C09",
                "denied-unreachable-demobilises",
                self.model.deny && self.model.unreachable(),
                "gsrc{i} (real SourceTask): demobilised with deny seen {} unreachable {}",
                self.model.deny,
                self.model.unreachable()
            );
        }
        self.ended = true;
        if what == "Unreachable" {
            self.respawn_at = Some(now + 1_000_000_000 + choose("src.respawn", 30) * 1_000_000_000);
        }
    }
}

pub async fn run(focus: &'static str, clean: bool) {
    let notify = Arc::new(tokio::sync::Notify::new());
    let consumed = Arc::new(tokio::sync::Notify::new());
    shim::hub_reset(notify.clone(), consumed.clone());
    let node = Node::new(0, crate::world::swarm_epoch(), 0.0);
    let mut nodes = [node];
    let stepped: Arc<Mutex<i128>> = Arc::new(Mutex::new(0));
    // what the simulated kernel stamps on packets (the daemon's timestamp-mode): index 0 = none
    let kernel_mode = [shim::KernelTimestamps::None, shim::KernelTimestamps::Recv, shim::KernelTimestamps::All][weighted("cfg.kernel-ts", &[2, 3, 3])];
    shim::hub_set_kernel_timestamps(kernel_mode, kernel_clock(nodes[0].clk.c.clone(), nodes[0].clk.epoch_u, stepped.clone()));
    let n_srv = 1 + weighted("cfg.servers", &[3, 4, 2]);
    let nsrc = 1 + weighted("cfg.srcs", &[4, 3, 2]);
    let mut srvs: Vec<Srv> = Vec::new();
    for j in 0..n_srv {
        let epoch = nodes[0].clk.epoch_u + [0i128, 37 << 30, -(5000i128 << 32), 1i128 << 61][choose("cfg.sep", 4) as usize];
        let kind = weighted("cfg.srv.kind", &[4, 2, 4, 2]);
        let mut s = match kind {
            0 => Srv::new_real(j, epoch, 0.0, true, false, nsrc),
            1 => Srv::new_real(j, epoch, 0.0, false, false, nsrc),
            3 => Srv::new_real(j, epoch, 0.0, true, false, nsrc),
            _ => Srv::new_byz(j, epoch, 0.0, nsrc),
        };
        if kind == 3 && !clean {
            s.drop_p = [0.1, 0.3, 0.6, 0.9][choose("cfg.srv.drop", 4) as usize];
            s.silence_p = [0.0, 0.03, 0.1][choose("cfg.srv.silence", 3) as usize];
        }
        // the real task sleeps on tokio's timer wheel, which cannot hold deadlines beyond ~2 years
        // (re-arming a Sleep 2^31 s ahead corrupts the wheel of tokio 1.5x under a paused clock)
        s.max_poll_request = 20;
        if s.is_byz() {
            s.echo_marker = chance("cfg.byz.echo", 0.4);
            s.speaks_v5 = !chance("cfg.byz.v4only", 0.3);
            if !clean {
                s.silence_p = [0.0, 0.02, 0.08][choose("cfg.byz.silence", 3) as usize];
                for k in 1..BYZ_KINDS {
                    // no probe in this mode: leave out the answers whose treatment the statement leaves open
                    if k == K_COMBO_V5 {
                        continue;
                    }
                    if chance("cfg.byz.enable", 0.35) {
                        s.weights[k] = 1 + choose("cfg.byz.weight", 3) as u32;
                    }
                }
            }
        }
        ev!("cfg(glue) srv{j} kind={kind} byz={} weights={:?}", s.is_byz(), s.weights);
        srvs.push(s);
    }
    // datagram damage is left to the probe-equipped mode; here: loss, duplication, delay, reordering, replay
    let mut cfg = if clean { NetCfg::clean() } else { NetCfg::swarm() };
    cfg.bitflip_p = 0.0;
    cfg.byteset_p = 0.0;
    cfg.truncate_p = 0.0;
    cfg.extend_p = 0.0;
    let mut net: SimNet<Meta> = SimNet::new(cfg);
    let replay_p = if clean { 0.0 } else { [0.0, 0.1, 0.4][choose("cfg.replay", 3) as usize] };
    let jumps_p = if clean { 0.0 } else { [0.0, 0.05, 0.2][choose("cfg.jumps", 3) as usize] };
    let _ = focus;

    let (tx, mut rx) = tokio::sync::mpsc::channel::<shim::MsgForSystem>(32);
    let snaps: Snapshots = Arc::new(RwLock::new(HashMap::new()));
    let mut srcs: Vec<GSrc> = Vec::new();
    for i in 0..nsrc {
        let (cfg, _, _) = random_limits();
        let mode = match weighted("cfg.src.mode", &[3, 2, 4]) {
            0 => ProtocolVersion::V4,
            1 => ProtocolVersion::V5,
            _ => ProtocolVersion::v4_upgrading_to_v5_with_default_tries(),
        };
        let srv = choose("cfg.src.srv", n_srv as u64) as usize;
        let mut g = GSrc {
            idx: i,
            srv,
            cfg,
            mode,
            // one distinct peer address per source, so sockets can be told apart
            peer: SocketAddr::new(srv_ip(srv), 2000 + i as u16),
            id: ClockId::SYSTEM,
            rec: Arc::new(Mutex::new(RecShared::default())),
            rec_seen: 0,
            model: Model::new(0, 0, VState::V4),
            handle: None,
            last_send: None,
            ended: false,
            respawn_at: None,
            history: Vec::new(),
        };
        g.spawn(&nodes[0], &tx, &snaps);
        srcs.push(g);
    }
    ev!("cfg(glue) servers={n_srv} sources={nsrc} clean={clean} replay={replay_p} jumps={jumps_p} kernel-ts={kernel_mode:?}");

    let max_ops = 40 + choose("cfg.ops", 300);
    let mut ops = 0u64;
    let mut jump_at: Vec<(u64, i64)> = Vec::new();
    loop {
        let now = exec::elapsed_ns();
        simkit::set_now_ns(now);
        if ops >= max_ops || simkit::out_of_budget() || now > 3_000_000_000_000_000_000 {
            break;
        }
        // ---- what the tasks did ------------------------------------------------
        let mut progressed = false;
        macro_rules! handle_outbound {
            ($o:expr, $latest:expr) => {{
                let o: shim::Outbound = $o;
                progressed = true;
                ops += 1;
                let at = (o.at - exec::start_instant()).as_nanos() as u64;
                if at != now {
                    simkit::abort(format!("w1c glue: datagram sent at {at} seen at {now}"));
                    return;
                }
                if let Some(i) = srcs.iter().position(|s| s.peer == o.peer) {
                    if srcs[i].on_send(&nodes[0], &snaps, &o.bytes, now, $latest, o.kernel_ts) {
                        let j = srcs[i].srv;
                        let seq = srcs[i].model.next_seq - 1;
                        net.send(
                            now,
                            net_id_of_src(i),
                            j as u32,
                            o.bytes,
                            Meta { src: i, srv: j, req_seq: seq, is_request: true, wellformed: true, honest_ts: false, authenticated: false, note: "poll" },
                        );
                        if chance("env.client-jump", jumps_p) {
                            let fixed = [3i64 << 20, 7 << 32, -(5i64 << 30), 3600 << 32][choose("env.cjump", 4) as usize];
                            jump_at.push((now + choose("env.cjump.at", 1_500_000_000), fixed));
                        }
                        if chance("env.replay", replay_p) && !srcs[i].history.is_empty() {
                            let hlen = srcs[i].history.len();
                            let k = if chance("env.replay.old", 0.4) { choose("env.replay.idx", hlen as u64) as usize } else { hlen - 1 };
                            let (bytes, mut meta) = srcs[i].history[k].clone();
                            meta.note = "replay";
                            fault("replay");
                            net.inject(
                                now + choose("env.replay.at", 6_000_000_000),
                                Datagram { id: 0, from: j as u32, to: net_id_of_src(i), bytes, original: None, mutation: None, duplicate: true, sent_ns: now, meta },
                            );
                        }
                    }
                }
            }};
        }
        for o in shim::hub_take_outbox() {
            handle_outbound!(o, true);
        }
        while let Ok(msg) = rx.try_recv() {
            progressed = true;
            ops += 1;
            let id = match &msg {
                shim::MsgForSystem::MustDemobilize(id) | shim::MsgForSystem::NetworkIssue(id) | shim::MsgForSystem::Unreachable(id) => *id,
            };
            if let Some(s) = srcs.iter_mut().find(|s| s.id == id) {
                s.on_msg(&msg, now);
            }
        }
        for s in srcs.iter_mut() {
            if s.respawn_at.is_some_and(|t| t <= now) {
                progressed = true;
                probe("source-respawned-after-reset");
                s.spawn(&nodes[0], &tx, &snaps);
            }
        }
        if let Some(k) = jump_at.iter().position(|(t, _)| *t <= now) {
            let (_, fixed) = jump_at.remove(k);
            fault("client-clock-jump");
            ev!("env client clock jumps by {fixed}");
            nodes[0].clk.jump(fixed);
            *stepped.lock().unwrap() += fixed as i128;
            progressed = true;
        }
        // ---- one due datagram ---------------------------------------------------
        if let Some((_, d)) = net.pop_due(now) {
            ops += 1;
            if d.meta.is_request && (d.to as usize) < srvs.len() {
                srvs[d.to as usize].on_request(&d, &mut net, now);
            } else if d.to >= 1000 && ((d.to - 1000) as usize) < srcs.len() {
                let i = (d.to - 1000) as usize;
                let clock_t4 = nodes[0].clk.raw();
                // the datagram reaches the socket the task currently has open (a fresh one per poll);
                // answers arriving after the task closed it vanish, as on a real host
                let sock = if srcs[i].ended { None } else { shim::hub_socket_for(srcs[i].peer) };
                let delivered = match sock {
                    Some(sock) => shim::hub_deliver(sock, d.bytes.clone()),
                    None => false,
                };
                // let the task take and process it (same simulated instant), then look at what it did.
                // The task may instead re-arm first (its timer is due in the same instant and its select!
                // picks that branch): the poll opens a fresh socket and the datagram vanishes with the old one.
                let consumed_before = shim::hub_last_consumed_seq();
                while delivered && shim::hub_last_consumed_seq() == consumed_before && shim::hub_socket_for(srcs[i].peer) == sock {
                    // (other wake-ups - a permit left over from an earlier send, another source polling - : wait again)
                    tokio::select! {
                        biased;
                        _ = consumed.notified() => {}
                        _ = notify.notified() => {}
                        _ = tokio::time::sleep(std::time::Duration::from_millis(1)) => { probe("glue-settle-timeout"); break; }
                    }
                }
                let consumed_seq = shim::hub_last_consumed_seq();
                let taken = delivered && consumed_seq != consumed_before;
                if delivered && !taken {
                    probe("glue-datagram-lost-with-closed-socket");
                }
                // polls the task sent before it took the datagram are judged first
                let (earlier, later): (Vec<_>, Vec<_>) = shim::hub_take_outbox().into_iter().partition(|o| taken && o.seq < consumed_seq);
                for o in earlier {
                    handle_outbound!(o, false);
                }
                let quiet = later.is_empty();
                // T4: the kernel's receive timestamp when the socket provides one, else the clock at delivery
                let t4 = match (taken, kernel_mode, shim::hub_last_consumed_ts()) {
                    (true, shim::KernelTimestamps::Recv | shim::KernelTimestamps::All, Some(ts)) => {
                        if ts.0 >= 2_085_978_496 {
                            probe("glue-kernel-timestamp-in-era-1");
                        }
                        ntp_of_unix(ts)
                    }
                    _ => clock_t4,
                };
                srcs[i].after_delivery(&snaps, &d, taken, now, t4, quiet);
                for o in later {
                    handle_outbound!(o, true);
                }
                if d.meta.note != "replay" {
                    let hst = &mut srcs[i].history;
                    if hst.len() >= 12 {
                        hst.remove(0);
                    }
                    hst.push((d.bytes.clone(), d.meta.clone()));
                }
            }
            continue;
        }
        if progressed {
            continue;
        }
        // ---- wait for the next thing: a network delivery, a respawn, a clock jump, or a task acting ----
        let mut t_next: Option<u64> = net.next_time();
        for t in srcs.iter().filter_map(|s| s.respawn_at).chain(jump_at.iter().map(|j| j.0)) {
            t_next = Some(t_next.map_or(t, |x| x.min(t)));
        }
        let all_ended = srcs.iter().all(|s| s.ended && s.respawn_at.is_none());
        if all_ended && t_next.is_none() {
            break;
        }
        let wait = t_next.map(|t| t.saturating_sub(now).max(1)).unwrap_or(u64::MAX / 8);
        tokio::select! {
            biased;
            _ = notify.notified() => {}
            m = rx.recv() => {
                if let Some(msg) = m {
                    let id = match &msg {
                        shim::MsgForSystem::MustDemobilize(id) | shim::MsgForSystem::NetworkIssue(id) | shim::MsgForSystem::Unreachable(id) => *id,
                    };
                    let now = exec::elapsed_ns();
                    simkit::set_now_ns(now);
                    ops += 1;
                    if let Some(s) = srcs.iter_mut().find(|s| s.id == id) {
                        s.on_msg(&msg, now);
                    }
                }
            }
            _ = tokio::time::sleep(std::time::Duration::from_nanos(wait)) => {}
        }
    }
    ev!("end(glue) ops={ops} sent={} delivered={}", net.sent, net.delivered);
    for s in srcs.iter_mut() {
        if let Some(h) = s.handle.take() {
            if h.is_finished() {
                if let Err(e) = h.await {
                    if e.is_panic() {
                        simkit::violation("C11", "source-task-panicked", format!("gsrc{}: the real SourceTask panicked: {e}", s.idx));
                    }
                }
            } else {
                h.abort();
                let _ = h.await;
            }
        }
    }
    drop(srcs);
    drop(srvs);
    shim::hub_clear();
}
