//! Client side: the real `NtpSource` state machines, the mirrored SourceTask glue
//! and the monitors for C05, C08-C12.

use std::net::{IpAddr, Ipv4Addr, SocketAddr};
use std::sync::{Arc, Mutex};

use ntp_proto::verif::source::SourceStateView;
use ntp_proto::verif::ts_from_fixed;
use ntp_proto::{
    AlgorithmConfig, ClockId, NtpManager, NtpSource, NtpSourceAction, NtpTimestamp, PollInterval, PollIntervalLimits,
    ProtocolVersion, SourceConfig, SourceController, SynchronizationConfig, TimeSyncController,
    TimeSyncControllerWrapper, TwoWaySourceControllerWrapper,
};
use simkit::net::{Datagram, SimNet};
use simkit::{chance, check, choose, ev, exec, fault, probe};
use simntp::SimClock;

use crate::model::{Model, Req, VState};
use crate::rec::{set_next_handle, RecHandle, RecSC, RecShared, RecTSC};
use crate::wire::{classify, Class, Hdr};

pub type Two = TwoWaySourceControllerWrapper<RecSC>;

/// A simulated settable clock plus the part of its true (era-unwrapped) value the
/// simulator needs to decide whether differences between two clocks are representable.
pub struct Clk {
    pub c: SimClock,
    pub epoch_u: i128,
    pub stepped: i128,
}

impl Clk {
    pub fn new(name: &str, epoch_u: i128, freq: f64) -> Clk {
        Clk {
            c: SimClock::new(name, epoch_u as u64, freq, 0.0),
            epoch_u,
            stepped: 0,
        }
    }
    pub fn raw(&self) -> u64 {
        self.c.raw_now()
    }
    pub fn jump(&mut self, fixed: i64) {
        self.c.meddle_step(fixed);
        self.stepped += fixed as i128;
    }
    /// approximate true value (exact up to frequency error) at simulated time `ns`
    pub fn approx_u(&self, ns: u64) -> i128 {
        self.epoch_u + self.stepped + (((ns as u128) << 32) / 1_000_000_000u128) as i128
    }
}

#[derive(Clone, Debug)]
pub struct Meta {
    pub src: usize,
    pub srv: usize,
    pub req_seq: u64,
    pub is_request: bool,
    /// the sender guarantees this datagram is syntactically valid as sent
    pub wellformed: bool,
    /// T2/T3 inside are readings of the server's simulated clock
    pub honest_ts: bool,
    /// built with the session's server-to-client key (NTS) by a party holding it
    pub authenticated: bool,
    pub note: &'static str,
}

pub struct Node {
    pub clk: Clk,
    pub mgr: NtpManager,
    pub wrapper: TimeSyncControllerWrapper<RecTSC>,
}

impl Node {
    pub fn new(idx: usize, epoch_u: i128, freq: f64) -> Node {
        let clk = Clk::new(&format!("c{idx}"), epoch_u, freq);
        let sync = SynchronizationConfig::default();
        let ip: IpAddr = IpAddr::V4(Ipv4Addr::new(10, 0, 1, idx as u8 + 1));
        Node {
            mgr: NtpManager::new(sync, Arc::from(vec![ip])),
            wrapper: TimeSyncControllerWrapper::<RecTSC>::new(clk.c.clone(), sync, AlgorithmConfig::default()).expect("wrapper"),
            clk,
        }
    }
}

pub struct Src {
    pub idx: usize,
    pub node: usize,
    pub srv: usize,
    pub cfg: SourceConfig,
    pub mode: ProtocolVersion,
    pub ns: Option<NtpSource<Two>>,
    pub rec: RecHandle,
    pub rec_seen: usize,
    pub last_send_ts: Option<NtpTimestamp>,
    pub timer_at: Option<u64>,
    pub respawn_at: Option<u64>,
    pub model: Model,
    pub gen_no: u32,
    pub real_filter: bool,
    pub history: Vec<(Vec<u8>, Meta)>,
    pub lateness: bool,
    /// `Some`: an NTS source whose session is minted against this server key set
    pub nts_keyset: Option<Arc<ntp_proto::KeySet>>,
}

pub fn net_id_of_src(i: usize) -> u32 {
    1000 + i as u32
}

pub fn srv_ip(j: usize) -> IpAddr {
    IpAddr::V4(Ipv4Addr::new(10, 0, 2, j as u8 + 1))
}

fn vstate_of(p: ProtocolVersion) -> VState {
    match p {
        ProtocolVersion::V4 => VState::V4,
        // the statement: eight matching answers without the marker end the upgrade attempt
        ProtocolVersion::V4UpgradingToV5 { .. } => VState::Upgrading { tries_left: 8 },
        ProtocolVersion::UpgradedToV5 => VState::Upgraded { missed: 0, by_usable: true },
        ProtocolVersion::V5 => VState::V5,
    }
}

fn same_vstate(real: ProtocolVersion, m: VState) -> bool {
    match (real, m) {
        (ProtocolVersion::V4, VState::V4) => true,
        (ProtocolVersion::V4UpgradingToV5 { tries_left: a }, VState::Upgrading { tries_left: b }) => a == b,
        (ProtocolVersion::UpgradedToV5, VState::Upgraded { .. }) => true,
        (ProtocolVersion::V5, VState::V5) => true,
        _ => false,
    }
}

impl Src {
    pub fn new(idx: usize, node: usize, srv: usize, cfg: SourceConfig, mode: ProtocolVersion, real_filter: bool, lateness: bool) -> Src {
        Src {
            idx,
            node,
            srv,
            cfg,
            mode,
            ns: None,
            rec: Arc::new(Mutex::new(RecShared::default())),
            rec_seen: 0,
            last_send_ts: None,
            timer_at: None,
            respawn_at: None,
            model: Model::new(cfg.poll_interval_limits.min.as_log(), cfg.poll_interval_limits.max.as_log(), vstate_of(mode)),
            gen_no: 0,
            real_filter,
            history: Vec::new(),
            lateness,
            nts_keyset: None,
        }
    }

    fn limits(&self) -> PollIntervalLimits {
        self.cfg.poll_interval_limits
    }

    /// (Re)create the real source, as the daemon's spawner would.
    pub fn spawn(&mut self, nodes: &[Node], now: u64) {
        let node = &nodes[self.node];
        let lim = self.limits();
        let scripted = if self.real_filter {
            None
        } else {
            Some(lim.min.as_log() + choose("src.script0", (lim.max.as_log() - lim.min.as_log()) as u64 + 1) as i8)
        };
        self.rec = Arc::new(Mutex::new(RecShared {
            measurements: Vec::new(),
            scripted_poll: scripted,
        }));
        self.rec_seen = 0;
        set_next_handle(self.rec.clone());
        let id = ClockId::new();
        let ctrl = node.wrapper.add_source(id, self.cfg);
        let nts = self.nts_keyset.as_ref().map(|ks| {
            let n = 1 + choose("src.nts.cookies", 8) as usize;
            ntp_proto::verif::source::mint_nts_session(ks, 17 + self.idx as u8, n)
        });
        let (ns, actions) = node.mgr.new_source(SocketAddr::new(srv_ip(self.srv), 123), self.cfg, self.mode, ctrl, nts, id);
        self.ns = Some(ns);
        self.gen_no += 1;
        self.last_send_ts = None;
        self.model = Model::new(lim.min.as_log(), lim.max.as_log(), vstate_of(self.mode));
        self.timer_at = None;
        self.respawn_at = None;
        ev!(
            "src{} spawn gen={} mode={:?} nts={} limits=({},{}) scripted={scripted:?}",
            self.idx,
            self.gen_no,
            self.mode,
            self.nts_keyset.is_some(),
            lim.min.as_log(),
            lim.max.as_log()
        );
        for a in actions {
            match a {
                NtpSourceAction::SetTimer(d) => self.timer_at = Some(now + d.as_nanos() as u64),
                other => simkit::violation("C11", "startup-actions", format!("source startup returned {other:?}")),
            }
        }
    }

    pub fn set_scripted_poll(&mut self, p: i8) {
        let mut r = self.rec.lock().unwrap();
        if r.scripted_poll.is_some() {
            r.scripted_poll = Some(p);
        }
    }

    fn check_observe(&self, what: &str) {
        let Some(ns) = self.ns.as_ref() else { return };
        let ob = ns.observe(format!("src{}", self.idx), ClockId::SYSTEM);
        if let Some(exp) = self.model.expected_unanswered() {
            check!(
                "C11",
                "unanswered-polls-reported",
                ob.unanswered_polls == exp,
                "src{} after {what}: observe().unanswered_polls={} but {} polls were sent since the last usable answer (model reg {:08b}, tries {})",
                self.idx,
                ob.unanswered_polls,
                self.model.polls_since_usable,
                self.model.reg,
                self.model.tries
            );
        }
    }

    fn die(&mut self, why: &str) {
        ev!("src{} ends: {why}", self.idx);
        self.ns = None;
        self.timer_at = None;
    }

    // -----------------------------------------------------------------------
    // timer
    // -----------------------------------------------------------------------
    pub fn on_timer(&mut self, nodes: &[Node], net: &mut SimNet<Meta>, now: u64) {
        self.timer_at = None;
        let i = self.idx;
        let lim = self.limits();
        let (min, max) = (lim.min.as_log(), lim.max.as_log());
        let Some(ns) = self.ns.as_mut() else { return };
        let before = ns.verif_state();
        let desired_before = ns.verif_controller().desired_poll_interval().as_log();
        let res = exec::catch(|| ns.handle_timer().collect::<Vec<NtpSourceAction>>());
        let actions = match res {
            Ok(a) => a,
            Err(msg) => {
                simkit::violation("C11", "source-crashed", format!("src{i} handle_timer panicked: {msg}"));
                self.die("panic");
                return;
            }
        };
        let after = self.ns.as_ref().unwrap().verif_state();
        let shape: Vec<&'static str> = actions
            .iter()
            .map(|a| match a {
                NtpSourceAction::Send(_) => "Send",
                NtpSourceAction::SetTimer(_) => "SetTimer",
                NtpSourceAction::Reset => "Reset",
                NtpSourceAction::Demobilize => "Demobilize",
            })
            .collect();
        ev!("src{i} timer -> {shape:?} tries={} reach={:08b}", after.tries, after.reach);

        if self.model.unreachable() {
            probe("unreachable-at-timer");
            let want = if self.model.deny { "Demobilize" } else { "Reset" };
            check!(
                "C11",
                "unreachable-source-stops",
                shape == [want],
                "src{i}: no usable answer in the last {} polls (tries {}, deny seen {}): expected exactly [{want}], got {shape:?}",
                self.model.polls_since_usable.min(8),
                self.model.tries,
                self.model.deny
            );
            if self.model.deny {
                probe("deny-then-unreachable");
                check!(
                    "C09",
                    "denied-unreachable-demobilises",
                    shape == ["Demobilize"],
                    "src{i}: unauthenticated DENY/RSTR seen since the last usable answer and source unreachable: expected [Demobilize], got {shape:?}"
                );
            } else {
                check!(
                    "C09",
                    "no-demobilise-without-deny",
                    !shape.contains(&"Demobilize"),
                    "src{i}: demobilised although no DENY/RSTR was seen since the last usable answer: {shape:?}"
                );
            }
            let reset = shape == ["Reset"];
            self.die(want);
            if reset {
                // the daemon's spawner re-resolves and starts a fresh source a little later
                self.respawn_at = Some(now + 1_000_000_000 + choose("src.respawn", 30) * 1_000_000_000);
            }
            return;
        }

        if self.nts_keyset.is_some() && before.nts_cookies == Some(0) {
            // an NTS source without cookies cannot poll: it must ask for a new key exchange
            probe("nts-out-of-cookies");
            check!(
                "C11",
                "nts-without-cookies-resets",
                shape == ["Reset"],
                "src{i}: NTS source without cookies returned {shape:?}"
            );
            self.die("out of cookies");
            self.respawn_at = Some(now + 1_000_000_000 + choose("src.respawn", 30) * 1_000_000_000);
            return;
        }

        // reachable (or still starting up): the source must keep polling
        check!(
            "C11",
            "reachable-source-keeps-polling",
            shape == ["Send", "SetTimer"],
            "src{i}: tries {} reach model {:08b} (usable answers keep arriving or still starting up) but timer returned {shape:?}",
            self.model.tries,
            self.model.reg
        );
        check!(
            "C09",
            "no-demobilise-while-reachable",
            !shape.contains(&"Demobilize"),
            "src{i}: demobilised while reachable / starting up (deny seen {}): {shape:?}",
            self.model.deny
        );
        if shape != ["Send", "SetTimer"] {
            self.die("unexpected actions");
            return;
        }
        let (bytes, timer) = match (&actions[0], &actions[1]) {
            (NtpSourceAction::Send(b), NtpSourceAction::SetTimer(d)) => (b.clone(), *d),
            _ => unreachable!(),
        };
        let Some(h) = Hdr::read(&bytes) else {
            simkit::violation("C12", "poll-wellformed", format!("src{i}: poll of {} bytes", bytes.len()));
            self.die("short poll");
            return;
        };

        // ---- C12: version and marker of the poll -------------------------------
        if let VState::Upgraded { missed, by_usable } = self.model.v {
            if missed >= 2 {
                probe("v5-fallback");
                self.model.v = VState::V4;
            } else if !by_usable && h.version == 4 {
                // the marker came on an unusable answer: the statement does not say whether the
                // polls missed before it count; accept the early fallback and follow it
                probe("v5-early-fallback-after-unusable-marker-answer");
                self.model.v = VState::V4;
            }
        }
        let (want_v, want_marker) = self.model.v.poll_shape();
        check!(
            "C12",
            "poll-version-and-marker",
            h.version == want_v && h.has_marker() == want_marker && h.mode == 3,
            "src{i} (configured {:?}): negotiation state {:?} requires a v{want_v} poll with upgrade marker {want_marker}, sent v{} marker {} mode {}",
            self.mode,
            self.model.v,
            h.version,
            h.has_marker(),
            h.mode
        );
        check!(
            "C12",
            "negotiation-state-after-timer",
            same_vstate(after.protocol_version, self.model.v),
            "src{i}: after timer the source is in {:?}, the statement's machine in {:?}",
            after.protocol_version,
            self.model.v
        );
        if let VState::Upgraded { missed, by_usable } = self.model.v {
            self.model.v = VState::Upgraded { missed: missed + 1, by_usable };
        }

        // ---- C10: poll exponent and timer ---------------------------------------
        let upper = max.max(self.model.max_v5_req);
        check!(
            "C10",
            "poll-exponent-within-bounds",
            h.poll >= min && h.poll <= upper,
            "src{i}: poll exponent {} outside [{min}, max({max}, largest v5 request {})] (desired {desired_before}, remote min {})",
            h.poll,
            self.model.max_v5_req,
            before.remote_min_poll
        );
        let interval = 2f64.powi(h.poll.clamp(0, 127) as i32);
        let ratio = timer.as_secs_f64() / interval;
        if h.poll <= 31 {
            check!(
                "C10",
                "timer-jitter",
                (1.01 - 1e-8..=1.05 + 1e-8).contains(&ratio),
                "src{i}: poll exponent {} but SetTimer({:?}) = {ratio} x the interval",
                h.poll,
                timer
            );
        } else {
            probe("poll-exponent-above-31");
            check!(
                "C10",
                "timer-jitter-huge-poll",
                (1.01 - 1e-8..=1.05 + 1e-8).contains(&ratio),
                "src{i}: server-requested poll exponent {} but SetTimer({:?}) = {ratio:e} x the interval",
                h.poll,
                timer
            );
        }
        if self.real_filter {
            check!(
                "C10",
                "filter-desire-within-limits",
                desired_before >= min && desired_before <= max,
                "src{i}: filter desires poll {desired_before} outside [{min},{max}]"
            );
        }
        if h.poll > min {
            probe("poll-above-min");
        }

        // ---- C09: never faster than a RATE allowed ----------------------------
        check!(
            "C09",
            "poll-not-faster-after-rate",
            h.poll >= self.model.rate_floor,
            "src{i}: poll exponent {} below the floor {} implied by earlier RATE answers",
            h.poll,
            self.model.rate_floor
        );

        // ---- glue: send-timestamp bookkeeping (defines T1), then the network ----
        let t1 = nodes[self.node].clk.raw();
        self.last_send_ts = Some(ts_from_fixed(t1));
        let seq = self.model.next_seq;
        self.model.next_seq += 1;
        self.model.on_poll(Req {
            seq,
            ident: h.request_ident(),
            version: h.version,
            poll: h.poll,
            sent_ns: now,
            t1_raw: t1,
            measured: 0,
        });
        ev!("src{i} send seq={seq} v{} marker={} poll={} t1={t1} timer={:?}", h.version, h.has_marker(), h.poll, timer);
        net.send(
            now,
            net_id_of_src(i),
            self.srv as u32,
            bytes,
            Meta {
                src: i,
                srv: self.srv,
                req_seq: seq,
                is_request: true,
                wellformed: true,
                honest_ts: false,
                authenticated: self.nts_keyset.is_some(),
                note: "poll",
            },
        );
        let mut late = 0u64;
        if self.lateness && chance("src.timer-late", 0.15) {
            fault("timer-late");
            late = [500_000u64, 1_000_000, 800_000_000, 6_000_000_000][choose("src.late", 4) as usize];
        }
        let dn = timer.as_nanos().min(u64::MAX as u128 / 4) as u64;
        self.timer_at = Some(now.saturating_add(dn).saturating_add(late));
        self.check_observe("timer");
    }

    // -----------------------------------------------------------------------
    // incoming datagram
    // -----------------------------------------------------------------------
    pub fn on_datagram(&mut self, nodes: &[Node], srv_approx_u: Option<i128>, d: &Datagram<Meta>, now: u64) {
        let i = self.idx;
        if self.ns.is_none() {
            ev!("src{i} rx while down: dropped");
            return;
        }
        // glue: recv into a 1024 byte buffer, drop datagrams shorter than a header
        let bytes: &[u8] = &d.bytes[..d.bytes.len().min(1024)];
        if bytes.len() < 48 {
            ev!("src{i} rx {} bytes: too short, dropped by glue", bytes.len());
            probe("short-datagram-dropped");
            return;
        }
        let Some(send_ts) = self.last_send_ts else {
            ev!("src{i} rx before first send: dropped by glue");
            return;
        };
        let t4 = nodes[self.node].clk.raw();
        let h = Hdr::read(bytes).unwrap();
        let ns = self.ns.as_mut().unwrap();
        let before = ns.verif_state();
        let res = exec::catch(|| ns.handle_incoming(bytes, send_ts, ts_from_fixed(t4)).collect::<Vec<NtpSourceAction>>());
        let actions = match res {
            Ok(a) => a,
            Err(msg) => {
                simkit::violation("C08", "source-crashed-on-datagram", format!("src{i} handle_incoming panicked: {msg}"));
                self.die("panic");
                return;
            }
        };
        let after = self.ns.as_ref().unwrap().verif_state();
        let new_meas: Vec<crate::rec::RecM> = {
            let r = self.rec.lock().unwrap();
            r.measurements[self.rec_seen..].to_vec()
        };
        self.rec_seen += new_meas.len();
        let changed = before != after || !new_meas.is_empty() || !actions.is_empty();
        let matches = self.model.matches(&h.b24_32, now);
        let expected_ver = self.model.v.expects(h.version);
        let pristine = d.mutation.is_none();
        let certain = ((h.version == 3 || h.version == 4) && bytes.len() == 48) || (pristine && d.meta.wellformed);
        ev!(
            "src{i} rx {} from={} v{} mode={} st={} poll={} match={matches} expver={expected_ver} note={} mut={:?} dup={} -> meas={} changed={changed}",
            bytes.len(),
            d.from,
            h.version,
            h.mode,
            h.stratum,
            h.poll,
            d.meta.note,
            d.mutation,
            d.duplicate,
            new_meas.len()
        );

        let is_nts = self.nts_keyset.is_some();
        if is_nts {
            // Only answers built by a holder of the session keys (or the unauthenticated NTS NAK the
            // statement talks about) are judged here; what an NTS source does with other
            // unauthenticated traffic is property C07 (worlds w1n / w1x).
            let judged = pristine && (d.meta.authenticated || d.meta.note == "nts-nak");
            if !judged {
                if changed {
                    probe("nts-source-changed-by-unauthenticated-datagram");
                    self.die("model out of sync (C07 territory)");
                }
                return;
            }
        } else {
            check!(
                "C09",
                "plain-source-never-acts-on-answer",
                actions.is_empty(),
                "src{i}: handle_incoming on an unauthenticated source returned {actions:?}"
            );
        }
        let demobilize_now = actions.len() == 1 && matches!(actions[0], NtpSourceAction::Demobilize);

        if !(matches && expected_ver) {
            if matches {
                probe("matching-answer-of-unexpected-version");
                check!(
                    "C12",
                    "unexpected-version-no-effect",
                    !changed,
                    "src{i} in {:?}: matching v{} answer (not the expected version) had an effect: {before:?} -> {after:?}, measurements {}",
                    self.model.v,
                    h.version,
                    new_meas.len()
                );
            } else {
                check!(
                    "C08",
                    "nonmatching-answer-no-effect",
                    !changed,
                    "src{i}: answer not matching the pending request (pending open {}, note {}, dup {}, age {:?} ns) had an effect: {before:?} -> {after:?}, measurements {}",
                    self.model.pending_open,
                    d.meta.note,
                    d.duplicate,
                    self.model.last.as_ref().map(|l| now - l.sent_ns),
                    new_meas.len()
                );
            }
            if !new_meas.is_empty() {
                // keep the C11 model aligned with what the source believes
                self.model.on_usable();
            }
            self.check_observe("non-matching answer");
            return;
        }

        if !certain && !changed {
            probe("matching-but-unparseable");
            return;
        }
        let req = self.model.last.clone().expect("matching implies a request");
        let class = classify(&h, req.poll);
        let marker = h.has_marker();
        let v_next = self.model.v.on_matching(marker, class == Class::Usable);
        if v_next != self.model.v {
            probe("negotiation-transition");
        }
        check!(
            "C12",
            "negotiation-state-after-answer",
            same_vstate(after.protocol_version, v_next),
            "src{i}: matching v{} answer (marker {marker}, {class:?}) in state {:?}: statement says {:?}, source is in {:?}",
            h.version,
            self.model.v,
            v_next,
            after.protocol_version
        );
        self.model.v = v_next;
        let lim = self.limits();

        match class {
            Class::Usable => {
                probe("usable-answer");
                if certain {
                    check!(
                        "C11",
                        "usable-answer-accepted",
                        !new_meas.is_empty(),
                        "src{i}: fresh matching usable answer (v{} stratum {}) produced no measurement; state {before:?} -> {after:?}",
                        h.version,
                        h.stratum
                    );
                }
                check!(
                    "C08",
                    "one-measurement-per-request",
                    new_meas.len() <= 1 && (new_meas.is_empty() || req.measured == 0),
                    "src{i}: request seq {} produced {} measurement(s) now and {} before",
                    req.seq,
                    new_meas.len(),
                    req.measured
                );
                if !new_meas.is_empty() {
                    self.model.on_usable();
                    if h.version == 5 {
                        probe("usable-answer-v5");
                        if h.poll > self.model.max_v5_req {
                            self.model.max_v5_req = h.poll;
                        }
                        if h.poll > lim.max.as_log() {
                            probe("v5-poll-request-above-max");
                        }
                    }
                    check!(
                        "C08",
                        "accepted-request-consumed",
                        !after.pending && after.reach & 1 == 1 && !after.deny_seen,
                        "src{i}: after an accepted answer: {after:?}"
                    );
                    self.check_c05(nodes, srv_approx_u, d, &h, &req, t4, &new_meas[0], now);
                    if self.real_filter {
                        let des = self.ns.as_ref().unwrap().verif_controller();
                        let p = des.desired_poll_interval().as_log();
                        check!(
                            "C10",
                            "filter-desire-within-limits",
                            p >= lim.min.as_log() && p <= lim.max.as_log(),
                            "src{i}: after a measurement the filter desires poll {p} outside {:?}",
                            lim
                        );
                    }
                }
            }
            Class::Rate => {
                probe("kiss-rate");
                self.no_measurement(&new_meas, "RATE kiss");
                let floor = (before.remote_min_poll.saturating_add(1)).min(lim.max.as_log()).max(req.poll);
                check!(
                    "C09",
                    "rate-raises-remote-minimum",
                    after.remote_min_poll >= floor && after.remote_min_poll >= before.remote_min_poll,
                    "src{i}: valid RATE for a poll sent with exponent {} (remote minimum {} before, limits max {}): remote minimum now {}, expected at least {floor}",
                    req.poll,
                    before.remote_min_poll,
                    lim.max.as_log(),
                    after.remote_min_poll
                );
                let mut b = before.without_version();
                let mut a = after.without_version();
                b.remote_min_poll = 0;
                a.remote_min_poll = 0;
                check!("C09", "rate-changes-only-poll-floor", a == b, "src{i}: RATE changed more than the poll floor: {before:?} -> {after:?}");
                let mf = self.model.rate_floor;
                self.model.rate_floor = mf.max(mf.saturating_add(1).min(lim.max.as_log())).max(req.poll);
            }
            Class::Deny if is_nts => {
                probe("kiss-deny-authenticated");
                self.no_measurement(&new_meas, "authenticated DENY/RSTR kiss");
                check!(
                    "C09",
                    "nts-deny-demobilises-immediately",
                    demobilize_now,
                    "src{i}: authenticated DENY/RSTR on an NTS source returned {actions:?}"
                );
                self.die("authenticated deny");
                return;
            }
            Class::Deny => {
                probe("kiss-deny");
                self.no_measurement(&new_meas, "DENY/RSTR kiss");
                check!(
                    "C09",
                    "deny-marks-unauthenticated-source",
                    after.deny_seen,
                    "src{i}: valid DENY/RSTR not remembered: {after:?}"
                );
                let mut b = before.without_version();
                let mut a = after.without_version();
                b.deny_seen = true;
                a.deny_seen = true;
                check!("C09", "deny-only-marks", a == b, "src{i}: unauthenticated DENY/RSTR changed more than the deny mark: {before:?} -> {after:?}");
                self.model.deny = true;
            }
            Class::Ntsn | Class::UnknownKiss => {
                probe(if class == Class::Ntsn { "kiss-ntsn" } else { "kiss-unknown" });
                self.no_measurement(&new_meas, "NTSN/unknown kiss");
                check!(
                    "C09",
                    "ntsn-unknown-kiss-no-effect",
                    before.without_version() == after.without_version(),
                    "src{i}: {class:?} changed the source: {before:?} -> {after:?}"
                );
            }
            Class::AmbiguousKiss => {
                probe("kiss-ambiguous-v5");
                self.no_measurement(&new_meas, "ambiguous v5 kiss");
                // follow the implementation for the parts the statement leaves open
                if after.deny_seen {
                    self.model.deny = true;
                }
                if after.remote_min_poll > before.remote_min_poll {
                    // treated as RATE: the floor may only rise
                    self.model.rate_floor = self.model.rate_floor.max(req.poll);
                }
            }
            Class::BadStratum | Class::BadMode => {
                probe(if class == Class::BadStratum { "answer-bad-stratum" } else { "answer-bad-mode" });
                self.no_measurement(&new_meas, "answer with stratum > 16 or non-server mode");
                check!(
                    "C08",
                    "unusable-answer-no-effect",
                    before.without_version() == after.without_version(),
                    "src{i}: {class:?} answer changed the source: {before:?} -> {after:?}"
                );
            }
        }
        if class != Class::Usable && !new_meas.is_empty() {
            self.model.on_usable();
        }
        if is_nts {
            check!(
                "C09",
                "nts-acts-only-on-authenticated-deny",
                actions.is_empty(),
                "src{i}: NTS source returned {actions:?} for a {class:?} answer"
            );
            if class == Class::Rate {
                probe("kiss-rate-authenticated");
            }
        }
        self.check_observe("answer");
    }

    fn no_measurement(&self, new_meas: &[crate::rec::RecM], what: &str) {
        check!(
            "C08",
            "only-usable-answers-measured",
            new_meas.is_empty(),
            "src{}: {what} produced {} measurement(s)",
            self.idx,
            new_meas.len()
        );
    }

    #[allow(clippy::too_many_arguments)]
    fn check_c05(&self, nodes: &[Node], srv_approx_u: Option<i128>, d: &Datagram<Meta>, h: &Hdr, req: &Req, t4: u64, m: &crate::rec::RecM, now: u64) {
        let i = self.idx;
        let (t1, t2, t3) = (req.t1_raw, h.rx, h.tx);
        check!(
            "C05",
            "localtime-is-t4",
            m.localtime == t4,
            "src{i}: measurement localtime {} but the answer was received at client time {t4}",
            m.localtime
        );
        // honest server timestamps: the true (era-unwrapped) differences must be representable,
        // otherwise the statement does not apply
        if d.meta.honest_ts && d.mutation.is_none() {
            if let Some(su) = srv_approx_u {
                let cu = nodes[self.node].clk.approx_u(now);
                let sep = (su - cu).abs();
                let slack: i128 = 1 << 46; // 4.5 h of drift / latency
                if sep + slack >= (1i128 << 63) {
                    probe("true-difference-unrepresentable");
                    return;
                }
            }
        }
        let w = |a: u64, b: u64| a.wrapping_sub(b) as i64 as i128;
        let d21 = w(t2, t1);
        let d34 = w(t3, t4);
        let d41 = w(t4, t1);
        let d32 = w(t3, t2);
        let sum = d21 + d34;
        let exp_off = sum.div_euclid(2);
        let got_off = m.offset as i128;
        let ok_off = (got_off - exp_off).abs() <= 1;
        if sum > i64::MAX as i128 || sum < i64::MIN as i128 {
            probe("offset-sum-exceeds-64-bits");
            check!(
                "C05",
                "offset-formula-wide",
                ok_off,
                "src{i}: T1={t1} T2={t2} T3={t3} T4={t4}: (T2-T1)={d21} and (T3-T4)={d34} are each representable, their mean {exp_off} too, but the offset fed to the filter is {got_off}"
            );
        } else {
            if (t1 >> 32) > (t4 >> 32) || (t2 >> 32).abs_diff(t1 >> 32) > (1 << 31) {
                probe("era-wrap-in-exchange");
            }
            check!(
                "C05",
                "offset-formula",
                ok_off,
                "src{i}: T1={t1} T2={t2} T3={t3} T4={t4}: expected offset ((T2-T1)+(T3-T4))/2 = {exp_off}, fed {got_off}"
            );
        }
        let exp_delay = d41 - d32;
        if exp_delay > i64::MAX as i128 || exp_delay < i64::MIN as i128 {
            probe("delay-exceeds-64-bits");
        } else {
            check!(
                "C05",
                "delay-formula",
                m.delay as i128 == exp_delay,
                "src{i}: T1={t1} T2={t2} T3={t3} T4={t4}: expected delay (T4-T1)-(T3-T2) = {exp_delay}, fed {}",
                m.delay
            );
        }
    }
}

pub fn random_limits() -> (SourceConfig, i8, i8) {
    // 0 <= min <= initial <= max <= 17; index 0 = the defaults (4, 10)
    let (min, max) = match choose("cfg.limits.kind", 4) {
        0 => (4i8, 10i8),
        1 => {
            let min = choose("cfg.limits.min", 18) as i8;
            let max = min + choose("cfg.limits.span", (17 - min) as u64 + 1) as i8;
            (min, max)
        }
        2 => {
            let v = choose("cfg.limits.eq", 18) as i8;
            (v, v)
        }
        _ => (0, 17),
    };
    let initial = min + choose("cfg.limits.initial", (max - min) as u64 + 1) as i8;
    let cfg = SourceConfig {
        poll_interval_limits: PollIntervalLimits {
            min: PollInterval::from_byte(min as u8),
            max: PollInterval::from_byte(max as u8),
        },
        initial_poll_interval: PollInterval::from_byte(initial as u8),
    };
    (cfg, min, max)
}

#[allow(dead_code)]
pub fn view_str(v: &SourceStateView) -> String {
    format!("{v:?}")
}
