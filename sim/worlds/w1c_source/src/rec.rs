//! Recording source controller behind the REAL `TwoWaySourceControllerWrapper`,
//! constructed through a tiny `InternalTimeSyncController` wrapped in the real
//! `TimeSyncControllerWrapper`. Every `InternalMeasurement` the wrapper computes
//! is recorded; optionally it is also fed to the real Kalman source filter so
//! that `desired_poll_interval()` is the real filter's.

use std::cell::RefCell;
use std::sync::{Arc, Mutex};

use ntp_proto::verif::{
    dur_to_fixed, ts_to_fixed, InternalMeasurement, InternalSourceController, InternalStateUpdate,
    InternalTimeSyncController,
};
use ntp_proto::{
    AlgorithmConfig, ClockId, KalmanClockController, KalmanControllerMessage, KalmanSourceMessage, NtpClock,
    NtpDuration, ObservableSourceTimedata, PollInterval, SourceConfig, SynchronizationConfig,
};
use simntp::SimClock;

#[derive(Clone, Copy, Debug)]
pub struct RecM {
    pub delay: i64,
    pub offset: i64,
    pub localtime: u64,
}

#[derive(Debug, Default)]
pub struct RecShared {
    pub measurements: Vec<RecM>,
    /// `Some(p)`: desired poll exponent is scripted by the world; `None`: real Kalman filter decides
    pub scripted_poll: Option<i8>,
}

pub type RecHandle = Arc<Mutex<RecShared>>;

thread_local! {
    static NEXT: RefCell<Option<RecHandle>> = const { RefCell::new(None) };
}

/// The handle the next `add_source` call will attach to its recorder.
pub fn set_next_handle(h: RecHandle) {
    NEXT.with(|n| *n.borrow_mut() = Some(h));
}

type KCtl = KalmanClockController<SimClock>;
type KSrc = <KCtl as InternalTimeSyncController>::NtpSourceController;
type KOne = <KCtl as InternalTimeSyncController>::OneWaySourceController;

pub struct RecSC {
    real: KSrc,
    sh: RecHandle,
}

impl InternalSourceController for RecSC {
    type ControllerMessage = KalmanControllerMessage;
    type SourceMessage = KalmanSourceMessage;
    type MeasurementDelay = NtpDuration;

    fn handle_message(&mut self, message: Self::ControllerMessage) {
        self.real.handle_message(message);
    }

    fn handle_measurement(&mut self, m: InternalMeasurement<NtpDuration>) -> Option<Self::SourceMessage> {
        let real_filter = {
            let mut sh = self.sh.lock().unwrap();
            sh.measurements.push(RecM {
                delay: dur_to_fixed(m.delay),
                offset: dur_to_fixed(m.offset),
                localtime: ts_to_fixed(m.localtime),
            });
            sh.scripted_poll.is_none()
        };
        if real_filter {
            // the clock controller loop is not run in this world: drop the filter's message
            let _ = self.real.handle_measurement(m);
        }
        None
    }

    fn desired_poll_interval(&self) -> PollInterval {
        match self.sh.lock().unwrap().scripted_poll {
            Some(p) => PollInterval::from_byte(p as u8),
            None => self.real.desired_poll_interval(),
        }
    }

    fn observe(&self) -> ObservableSourceTimedata {
        self.real.observe()
    }
}

pub struct RecTSC {
    inner: KCtl,
}

impl InternalTimeSyncController for RecTSC {
    type Clock = SimClock;
    type AlgorithmConfig = AlgorithmConfig;
    type ControllerMessage = KalmanControllerMessage;
    type SourceMessage = KalmanSourceMessage;
    type NtpSourceController = RecSC;
    type OneWaySourceController = KOne;

    fn new(clock: SimClock, sync: SynchronizationConfig, algo: AlgorithmConfig) -> Result<Self, <SimClock as NtpClock>::Error> {
        Ok(RecTSC {
            inner: KCtl::new(clock, sync, algo)?,
        })
    }

    fn take_control(&mut self) -> Result<(), <SimClock as NtpClock>::Error> {
        Ok(())
    }

    fn add_source(&mut self, id: ClockId, cfg: SourceConfig) -> RecSC {
        let sh = NEXT.with(|n| n.borrow_mut().take()).expect("w1c: set_next_handle before add_source");
        RecSC {
            real: self.inner.add_source(id, cfg),
            sh,
        }
    }

    fn add_one_way_source(&mut self, id: ClockId, cfg: SourceConfig, noise: f64, acc: f64, period: Option<f64>) -> KOne {
        self.inner.add_one_way_source(id, cfg, noise, acc, period)
    }

    fn remove_source(&mut self, id: ClockId) {
        self.inner.remove_source(id);
    }

    fn source_update(&mut self, id: ClockId, usable: bool) {
        self.inner.source_update(id, usable);
    }

    fn source_message(&mut self, id: ClockId, message: KalmanSourceMessage) -> InternalStateUpdate<KalmanControllerMessage> {
        self.inner.source_message(id, message)
    }

    fn time_update(&mut self) -> InternalStateUpdate<KalmanControllerMessage> {
        self.inner.time_update()
    }
}
