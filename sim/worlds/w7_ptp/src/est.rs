//! Estimator-direct part of W7: a seeded operation history on the REAL
//! `EstimatorState` (through the by-value `verif::Estimator` handle), including
//! the duplicate-id operations that the controller API cannot produce.
//! Oracles: C42 (unrelated estimates intact, bad ids fail with the documented
//! error, time never moves backwards, no panic).

use simkit::{chance, check, choose, ev, exec, probe, uniform, weighted};
use statime_algo::verif::{EstView, Estimator};
use statime_algo::{AlgoError, KalmanStorage, NoAllocKalmanStorage, StdKalmanStorage};
use statime_base::{ClockId, Direction, DirectedLinkId, Duration, LinkId};

use crate::clock::{SimClock, dur_ns, secs, true_ts, ts_lt};
use crate::view::{Comp, est_eq, others_intact};

pub fn run() {
    if choose("cfg.storage", 4) == 3 {
        probe("storage-noalloc");
        go::<NoAllocKalmanStorage<SimClock, 256>>()
    } else {
        go::<StdKalmanStorage<SimClock>>()
    }
}

struct Model {
    ints: Vec<ClockId>,
    exts: Vec<ClockId>,
    links: Vec<LinkId>,
    gone_clocks: Vec<ClockId>,
    gone_links: Vec<LinkId>,
    cnames: Vec<ClockId>,
    lnames: Vec<LinkId>,
}

impl Model {
    fn cname(&self, id: ClockId) -> String {
        match self.cnames.iter().position(|c| *c == id) {
            Some(i) => format!("c{i}"),
            None => "c?".into(),
        }
    }
    fn lname(&self, id: LinkId) -> String {
        match self.lnames.iter().position(|l| *l == id) {
            Some(i) => format!("l{i}({}-{})", self.cname(id.first_clock()), self.cname(id.second_clock())),
            None => "l?".into(),
        }
    }
    fn comp(&self, c: Comp) -> String {
        match c {
            Comp::Offset(id) => format!("offset of {}", self.cname(id)),
            Comp::Freq(id) => format!("frequency of {}", self.cname(id)),
            Comp::Delay(id) => format!("delay of {}", self.lname(id)),
        }
    }
    fn new_clock_id(&mut self) -> ClockId {
        let id = ClockId::new();
        self.cnames.push(id);
        id
    }
    fn err(&self, e: &AlgoError) -> String {
        match e {
            AlgoError::UnknownClock(c) => format!("UnknownClock({})", self.cname(*c)),
            AlgoError::ClockAlreadyExists(c) => format!("ClockAlreadyExists({})", self.cname(*c)),
            AlgoError::UnknownLink(l) => format!("UnknownLink({})", self.lname(*l)),
            AlgoError::LinkAlreadyExists(l) => format!("LinkAlreadyExists({})", self.lname(*l)),
            AlgoError::LinkNotExternal(l) => format!("LinkNotExternal({})", self.lname(*l)),
            AlgoError::BothClocksExternal(a, b) => format!("BothClocksExternal({},{})", self.cname(*a), self.cname(*b)),
            AlgoError::ClocksEqual(c) => format!("ClocksEqual({})", self.cname(*c)),
            AlgoError::NonMonotonicTimeProgression { from, to } => format!("NonMonotonicTimeProgression(from {:.9} to {:.9})", secs(*from), secs(*to)),
            AlgoError::CannotRemoveSystemClock(c) => format!("CannotRemoveSystemClock({})", self.cname(*c)),
            AlgoError::MatrixError(m) => format!("MatrixError({m:?})"),
            AlgoError::ClockError(c) => format!("ClockError({c:?})"),
            AlgoError::NotEnoughMeasurements(l) => format!("NotEnoughMeasurements({})", self.lname(*l)),
            AlgoError::ClockInUse(c, l) => format!("ClockInUse({},{})", self.cname(*c), self.lname(*l)),
        }
    }
    /// Pick a clock id: mostly one the estimator knows, sometimes a removed one, sometimes a brand-new one.
    fn pick_clock(&mut self, label: &'static str) -> ClockId {
        let known: Vec<ClockId> = self.ints.iter().chain(self.exts.iter()).copied().collect();
        match weighted(label, &[6, 1, 1]) {
            0 if !known.is_empty() => known[choose("pick.known", known.len() as u64) as usize],
            1 if !self.gone_clocks.is_empty() => self.gone_clocks[choose("pick.gone", self.gone_clocks.len() as u64) as usize],
            _ => self.new_clock_id(),
        }
    }
}

struct Expect {
    ok: bool,
    errs: Vec<AlgoError>,
}

fn go<S: KalmanStorage<SimClock>>() {
    let mut t_ns: u64 = 0;
    let mut est: Estimator<S> = Estimator::empty(true_ts(0));
    let mut m = Model {
        ints: vec![],
        exts: vec![],
        links: vec![],
        gone_clocks: vec![],
        gone_links: vec![],
        cnames: vec![],
        lnames: vec![],
    };
    let n_ops = 10 + choose("cfg.nops", 190);
    ev!("estimator-direct world, {n_ops} ops");

    for _ in 0..n_ops {
        if simkit::out_of_budget() {
            break;
        }
        let before: EstView = est.view();
        // (description, expectation, touched clock, touched link, result)
        let kind = weighted("op", &[6, 4, 3, 2, 2, 4, 3, 4, 3]);
        let mut touched_clock: Option<ClockId> = None;
        let mut touched_link: Option<LinkId> = None;
        let mut structural = true;
        let mut clause: &'static str = "bad-id-operation-fails";
        let what: String;
        let expect: Expect;
        let res: Result<Result<Estimator<S>, AlgoError>, String>;
        match kind {
            // ---- measurement (not structural) -------------------------------------
            0 => {
                structural = false;
                let use_known = !m.links.is_empty() && !chance("meas.unregistered", 0.15);
                let (lid, delay_link) = if use_known {
                    (m.links[choose("meas.link", m.links.len() as u64) as usize], true)
                } else {
                    let a = m.pick_clock("meas.a");
                    let b = m.pick_clock("meas.b");
                    match LinkId::new(a, b) {
                        Some(l) => {
                            m.lnames.push(l);
                            (l, chance("meas.delaylink", 0.2))
                        }
                        None => continue,
                    }
                };
                let dir = if chance("meas.rev", 0.5) { Direction::Reverse } else { Direction::Forward };
                let value = uniform("meas.val", -0.01, 0.01);
                let unc = [1e-6, 1e-9, 1e-3, 1.0][choose("meas.unc", 4) as usize];
                what = format!("measurement({} {:?} {value:e} +- {unc:e} delay_link={delay_link})", m.lname(lid), dir);
                expect = Expect { ok: true, errs: vec![] };
                res = exec::catch(|| est.measurement(DirectedLinkId::new(lid, dir), value, unc, delay_link));
            }
            // ---- time progression ---------------------------------------------------
            1 => {
                structural = false;
                clause = "backwards-time-rejected";
                let mode = weighted("time.mode", &[6, 1, 2]);
                let target = match mode {
                    0 => {
                        t_ns += [1_000_000u64, 1_000, 125_000_000, 1_000_000_000, 16_000_000_000, 300_000_000_000][choose("time.step", 6) as usize];
                        true_ts(t_ns)
                    }
                    1 => true_ts(t_ns),
                    _ => {
                        simkit::fault("time-backwards");
                        let back = [1u64, 1_000, 1_000_000_000, 1 << 40][choose("time.back", 4) as usize];
                        true_ts(t_ns) - dur_ns(back)
                    }
                };
                simkit::set_now_ns(t_ns);
                what = format!("progress_time({:.9})", secs(target));
                let backwards = ts_lt(target, before.time);
                expect = if backwards {
                    Expect {
                        ok: false,
                        errs: vec![AlgoError::NonMonotonicTimeProgression { from: before.time, to: target }],
                    }
                } else {
                    Expect { ok: true, errs: vec![] }
                };
                res = exec::catch(|| est.progress_time(target));
                if let Ok(Ok(e)) = &res {
                    let after = e.view();
                    check!(
                        "C42",
                        "time-non-decreasing",
                        !ts_lt(after.time, before.time) && after.time == target,
                        "{what}: estimator time went from {:.9} to {:.9}",
                        secs(before.time),
                        secs(after.time)
                    );
                }
            }
            // ---- add internal clock (fresh or duplicate id) ------------------------------
            2 => {
                let dup = (!m.ints.is_empty() || !m.exts.is_empty()) && chance("addclock.dup", 0.25);
                let id = if dup {
                    let known: Vec<ClockId> = m.ints.iter().chain(m.exts.iter()).copied().collect();
                    known[choose("addclock.which", known.len() as u64) as usize]
                } else {
                    if m.ints.len() >= 5 {
                        continue;
                    }
                    m.new_clock_id()
                };
                let off = (uniform("addclock.off", -1.0, 1.0), [1e-3, 1.0, 1e18, 1e-9][choose("addclock.offu", 4) as usize]);
                let fr = (uniform("addclock.freq", -1e-4, 1e-4), [1e-6, 5e-4, 1e-9][choose("addclock.frequ", 3) as usize]);
                let wander = [1e-8, 0.0, 1e-6][choose("addclock.wander", 3) as usize];
                what = format!("add_clock({} off={:e}+-{:e} freq={:e}+-{:e})", m.cname(id), off.0, off.1, fr.0, fr.1);
                expect = if m.ints.contains(&id) || m.exts.contains(&id) {
                    probe("duplicate-clock-id");
                    Expect { ok: false, errs: vec![AlgoError::ClockAlreadyExists(id)] }
                } else {
                    Expect { ok: true, errs: vec![] }
                };
                touched_clock = Some(id);
                res = exec::catch(|| est.add_clock(id, off, fr, wander));
                if let Ok(Ok(_)) = &res {
                    m.ints.push(id);
                    m.gone_clocks.retain(|c| *c != id);
                }
            }
            // ---- add external clock (fresh or duplicate id) ---------------------------
            3 => {
                let dup = (!m.ints.is_empty() || !m.exts.is_empty()) && chance("addext.dup", 0.3);
                let id = if dup {
                    let known: Vec<ClockId> = m.ints.iter().chain(m.exts.iter()).copied().collect();
                    known[choose("addext.which", known.len() as u64) as usize]
                } else {
                    if m.exts.len() >= 4 {
                        continue;
                    }
                    m.new_clock_id()
                };
                what = format!("add_external_clock({})", m.cname(id));
                expect = if m.ints.contains(&id) || m.exts.contains(&id) {
                    probe("duplicate-clock-id");
                    Expect { ok: false, errs: vec![AlgoError::ClockAlreadyExists(id)] }
                } else {
                    Expect { ok: true, errs: vec![] }
                };
                res = exec::catch(|| est.add_external_clock(id));
                if let Ok(Ok(_)) = &res {
                    m.exts.push(id);
                    m.gone_clocks.retain(|c| *c != id);
                }
            }
            // ---- remove internal clock -------------------------------------------------------
            4 => {
                let id = m.pick_clock("rmclock.id");
                what = format!("remove_clock({})", m.cname(id));
                expect = if m.ints.contains(&id) {
                    Expect { ok: true, errs: vec![] }
                } else {
                    probe("unknown-clock-id");
                    Expect { ok: false, errs: vec![AlgoError::UnknownClock(id)] }
                };
                touched_clock = Some(id);
                res = exec::catch(|| est.remove_clock(id));
                if let Ok(Ok(_)) = &res {
                    m.ints.retain(|c| *c != id);
                    m.gone_clocks.push(id);
                }
            }
            // ---- add link (fresh / duplicate / unknown clocks) --------------------------------
            5 => {
                let dup = !m.links.is_empty() && chance("addlink.dup", 0.25);
                let lid = if dup {
                    m.links[choose("addlink.which", m.links.len() as u64) as usize]
                } else {
                    if m.links.len() >= 6 {
                        continue;
                    }
                    let a = m.pick_clock("addlink.a");
                    let b = m.pick_clock("addlink.b");
                    match LinkId::new(a, b) {
                        Some(l) => {
                            m.lnames.push(l);
                            l
                        }
                        None => continue,
                    }
                };
                let delay = (uniform("addlink.delay", 0.0, 1e-3), [1e-6, 1e-4, 1e-9][choose("addlink.du", 3) as usize]);
                let decay = [0.0, 1e-3, 0.1][choose("addlink.decay", 3) as usize];
                what = format!("add_link({} delay={:e}+-{:e})", m.lname(lid), delay.0, delay.1);
                let known = |c: ClockId| m.ints.contains(&c) || m.exts.contains(&c);
                let mut errs = vec![];
                if !known(lid.first_clock()) {
                    errs.push(AlgoError::UnknownClock(lid.first_clock()));
                }
                if !known(lid.second_clock()) {
                    errs.push(AlgoError::UnknownClock(lid.second_clock()));
                }
                if m.links.contains(&lid) {
                    probe("duplicate-link-id");
                    errs.push(AlgoError::LinkAlreadyExists(lid));
                }
                if errs.iter().any(|e| matches!(e, AlgoError::UnknownClock(_))) {
                    probe("unknown-clock-id");
                }
                expect = Expect { ok: errs.is_empty(), errs };
                touched_link = Some(lid);
                res = exec::catch(|| est.add_link(lid, delay, decay));
                if let Ok(Ok(_)) = &res {
                    m.links.push(lid);
                    m.gone_links.retain(|l| *l != lid);
                }
            }
            // ---- remove link ----------------------------------------------------------------
            6 => {
                let lid = match weighted("rmlink.which", &[6, 2, 1]) {
                    0 if !m.links.is_empty() => m.links[choose("rmlink.live", m.links.len() as u64) as usize],
                    1 if !m.gone_links.is_empty() => m.gone_links[choose("rmlink.gone", m.gone_links.len() as u64) as usize],
                    _ => {
                        let a = m.pick_clock("rmlink.a");
                        let b = m.pick_clock("rmlink.b");
                        match LinkId::new(a, b) {
                            Some(l) => {
                                m.lnames.push(l);
                                l
                            }
                            None => continue,
                        }
                    }
                };
                what = format!("remove_link({})", m.lname(lid));
                expect = if m.links.contains(&lid) {
                    Expect { ok: true, errs: vec![] }
                } else {
                    probe("unknown-link-id");
                    Expect { ok: false, errs: vec![AlgoError::UnknownLink(lid)] }
                };
                touched_link = Some(lid);
                res = exec::catch(|| est.remove_link(lid));
                if let Ok(Ok(_)) = &res {
                    m.links.retain(|l| *l != lid);
                    m.gone_links.push(lid);
                }
            }
            // ---- remove external clock ----------------------------------------------------------
            7 => {
                let id = m.pick_clock("rmext.id");
                what = format!("remove_external_clock({})", m.cname(id));
                expect = if m.exts.contains(&id) {
                    Expect { ok: true, errs: vec![] }
                } else {
                    probe("unknown-clock-id");
                    Expect { ok: false, errs: vec![AlgoError::UnknownClock(id)] }
                };
                res = exec::catch(|| est.remove_external_clock(id));
                if let Ok(Ok(_)) = &res {
                    m.exts.retain(|c| *c != id);
                    m.gone_clocks.push(id);
                }
            }
            // ---- absorb a steer (touches exactly one clock's estimate) ---------------------------------
            _ => {
                let id = m.pick_clock("absorb.id");
                let amount = uniform("absorb.amount", -1e-3, 1e-3);
                let which = choose("absorb.kind", 3);
                what = format!("absorb[{which}]({} {amount:e})", m.cname(id));
                expect = if m.ints.contains(&id) {
                    Expect { ok: true, errs: vec![] }
                } else {
                    Expect { ok: false, errs: vec![AlgoError::UnknownClock(id)] }
                };
                touched_clock = Some(id);
                res = exec::catch(|| match which {
                    0 => est.absorb_offset_change(id, amount),
                    1 => est.absorb_frequency_steer(id, amount * 1e-2),
                    _ => est.absorb_system_clock_offset_change(id, Duration::from_f64_seconds(amount.abs())),
                });
            }
        }

        let res = match res {
            Err(msg) => {
                let msg = crate::view::short_location(&msg);
                ev!("{what} -> PANIC {msg}");
                simkit::violation("C42", "estimator-never-panics", format!("{what} panicked: {msg}"));
                return;
            }
            Ok(r) => r,
        };
        match &res {
            Ok(_) => ev!("{what} -> ok"),
            Err(e) => ev!("{what} -> {}", m.err(e)),
        }

        if structural || !expect.ok {
            match &res {
                Ok(new) => {
                    check!(
                        "C42",
                        clause,
                        expect.ok,
                        "{what} succeeded although it should fail with one of [{}]",
                        expect.errs.iter().map(|e| m.err(e)).collect::<Vec<_>>().join(", ")
                    );
                    let after = new.view();
                    if structural {
                        let r = others_intact(&before, &after, touched_clock, touched_link, &|c| m.comp(c));
                        check!("C42", "unrelated-estimates-intact", r.estimates.is_ok(), "{what}: {}", r.estimates.clone().err().unwrap_or_default());
                        check!("C42", "unrelated-covariance-intact", r.covariance.is_ok(), "{what}: {}", r.covariance.clone().err().unwrap_or_default());
                        check!(
                            "C42",
                            "time-non-decreasing",
                            !ts_lt(after.time, before.time),
                            "{what}: estimator time went from {:.9} to {:.9}",
                            secs(before.time),
                            secs(after.time)
                        );
                    }
                }
                Err(e) => {
                    check!(
                        "C42",
                        clause,
                        !expect.ok && expect.errs.contains(e),
                        "{what} failed with {} but {}",
                        m.err(e),
                        if expect.ok {
                            "should have succeeded".to_string()
                        } else {
                            format!("the documented error is one of [{}]", expect.errs.iter().map(|e| m.err(e)).collect::<Vec<_>>().join(", "))
                        }
                    );
                    // the caller's copy must be what it was (operations consume a clone)
                    check!("C42", "failed-operation-leaves-estimator-unchanged", est_eq(&before, &est.view()), "{what}: estimator changed although the operation failed");
                }
            }
        } else if let Err(e) = &res {
            // measurement / absorb on a dangling reference: must be a clean error
            let fine = matches!(e, AlgoError::UnknownClock(_) | AlgoError::UnknownLink(_) | AlgoError::BothClocksExternal(_, _));
            check!("C42", "bad-id-operation-fails", fine, "{what} failed with unexpected {}", m.err(e));
        }
        if let Ok(new) = res {
            est = new;
        }
    }
    ev!("end t={:.9} clocks={} externals={} links={}", secs(est.view().time), m.ints.len(), m.exts.len(), m.links.len());
}
