//! Controller part of W7: the REAL `statime_algo::KalmanController` driven by a
//! seeded operation history over 1-4 internal `SimClock`s, 0-3 external clocks
//! and tracked / untracked links fed by simulated two-way exchanges.
//! Oracles: C42 (structural operations leave unrelated estimates intact, bad ids
//! fail with the documented error and change nothing, time never moves
//! backwards, no panic) and C43 (frequency query, frequency bound, estimate
//! follows the applied step / frequency change).

use std::rc::Rc;

use simkit::{Rng, chance, check, choose, ev, exec, fault, probe, weighted};
use statime_algo::verif::{FilterView, filter_config};
use statime_algo::{AlgoError, KalmanController, KalmanLink, KalmanStorage, Measurement, NoAllocKalmanStorage, StdKalmanStorage};
use statime_base::{ClockId, Direction, Duration, LeapStatus, LinkId, TAI, Timestamp};

use crate::clock::{Call, SimClock, secs, true_ts, ts_lt};
use crate::view::{Comp, beq, clock_est, flink_eq, fview_eq, others_intact};

pub fn run() {
    if choose("cfg.storage", 4) == 3 {
        probe("storage-noalloc");
        World::<NoAllocKalmanStorage<SimClock, 256>>::go()
    } else {
        World::<StdKalmanStorage<SimClock>>::go()
    }
}

type Ctl<S> = Rc<KalmanController<S, SimClock>>;
type Link<S> = KalmanLink<Ctl<S>, S, SimClock>;

#[derive(Clone, Copy, PartialEq, Debug)]
enum End {
    Int(usize),
    Ext(usize),
}

struct IntClock {
    id: ClockId,
    clock: SimClock,
    live: bool,
}

struct ExtClock {
    id: ClockId,
    /// ground-truth offset of the external reference (0 = truthful, else a falseticker)
    off: f64,
    live: bool,
}

struct LinkRec<S: KalmanStorage<SimClock>> {
    handle: Option<Link<S>>,
    id: LinkId,
    a: End,
    b: End,
    tracked: bool,
    external: bool,
    delay: f64,
    asym: f64,
    noise: f64,
}

struct Cfg {
    clean: bool,
    err_p: f64,
    tick_mode: u8,
    meddle: bool,
    outliers: bool,
}

struct World<S: KalmanStorage<SimClock>> {
    ctl: Ctl<S>,
    cfg: Cfg,
    ints: Vec<IntClock>,
    exts: Vec<ExtClock>,
    links: Vec<LinkRec<S>>,
    fresh: Vec<ClockId>,
    noise: Rng,
    dead: bool,
    /// the estimator left the representable range (a step saturated `Duration`): nothing meaningful can follow
    stop: bool,
    /// tame run: a link between two internal clocks is only measured once at least one of them has an
    /// offset uncertainty below 1e9 s (i.e. is tied, directly or indirectly, to an external reference)
    tame: bool,
    /// this run has fed the filter an exchange between two internal clocks that both still had the
    /// 1e18 s initial offset uncertainty (the ill-conditioned situation of known finding 2)
    untied_pair_measured: bool,
    /// an injected fault has made the filter's model and the real clocks inconsistent (a clock was stepped or
    /// steered in a call that then failed with an injected ClockError, so the filter never absorbed it; a
    /// clock was moved behind the controller's back; an outlier measurement or a now() glitch was fed in)
    desync: bool,
    query_finding_reported: bool,
}

/// |step| at or beyond this many seconds means `Duration::from_f64_seconds` saturated (range is +-2^63 s)
const SATURATED_S: f64 = 4.0e18;

const UNTIED_MARK: &str = " [after an exchange between two internal clocks that both still had the 1e18 s initial offset uncertainty]";

const MAX_FREQS: [f64; 4] = [500e-6, 100e-6, 1e-3, 20e-6];

fn new_sim_clock(name: usize, cfg: &Cfg) -> SimClock {
    let off = [0.0, 0.0031, -0.42, 2.5, -75.0, 1e-5][weighted("clk.off", &[3, 3, 2, 2, 1, 2])];
    let tf = [0.0, 12e-6, -35e-6, 180e-6, -90e-6][choose("clk.truefreq", 5) as usize];
    // every clock gets its own max_frequency so that mixing clocks up is visible
    let max = MAX_FREQS[name % 4];
    let c = SimClock::new(name, off, tf, max, cfg.tick_mode);
    // frequency the clock is already running with when the controller takes it over
    // (like a kernel frequency left behind by a previous daemon); may exceed max_frequency
    let preset = [0.0, 0.8, -0.5, 2.0, -3.0][weighted("clk.preset", &[5, 2, 2, 1, 1])] * max;
    if preset.abs() > max {
        fault("initial-frequency-beyond-max");
    }
    c.with(|s| {
        s.steer = preset;
        s.err_p = cfg.err_p
    });
    c
}

impl<S: KalmanStorage<SimClock>> World<S> {
    // ------------------------------------------------------------------ names
    fn cname(&self, id: ClockId) -> String {
        if let Some(i) = self.ints.iter().position(|c| c.id == id) {
            return format!("k{i}");
        }
        if let Some(i) = self.exts.iter().position(|c| c.id == id) {
            return format!("e{i}");
        }
        if let Some(i) = self.fresh.iter().position(|c| *c == id) {
            return format!("u{i}");
        }
        "?".into()
    }
    fn lname(&self, id: LinkId) -> String {
        match self.links.iter().position(|l| l.id == id) {
            Some(i) => format!("l{i}({}-{})", self.cname(id.first_clock()), self.cname(id.second_clock())),
            None => format!("l?({}-{})", self.cname(id.first_clock()), self.cname(id.second_clock())),
        }
    }
    fn comp(&self, c: Comp) -> String {
        match c {
            Comp::Offset(id) => format!("offset of {}", self.cname(id)),
            Comp::Freq(id) => format!("frequency of {}", self.cname(id)),
            Comp::Delay(id) => format!("delay of {}", self.lname(id)),
        }
    }
    fn err(&self, e: &AlgoError) -> String {
        match e {
            AlgoError::UnknownClock(c) => format!("UnknownClock({})", self.cname(*c)),
            AlgoError::ClockAlreadyExists(c) => format!("ClockAlreadyExists({})", self.cname(*c)),
            AlgoError::UnknownLink(l) => format!("UnknownLink({})", self.lname(*l)),
            AlgoError::LinkAlreadyExists(l) => format!("LinkAlreadyExists({})", self.lname(*l)),
            AlgoError::LinkNotExternal(l) => format!("LinkNotExternal({})", self.lname(*l)),
            AlgoError::BothClocksExternal(a, b) => format!("BothClocksExternal({},{})", self.cname(*a), self.cname(*b)),
            AlgoError::ClocksEqual(c) => format!("ClocksEqual({})", self.cname(*c)),
            AlgoError::NonMonotonicTimeProgression { from, to } => format!("NonMonotonicTimeProgression(from {:.9} to {:.9})", secs(*from), secs(*to)),
            AlgoError::CannotRemoveSystemClock(c) => format!("CannotRemoveSystemClock({})", self.cname(*c)),
            AlgoError::MatrixError(m) => format!("MatrixError({m:?})"),
            AlgoError::ClockError(c) => format!("ClockError({c:?})"),
            AlgoError::NotEnoughMeasurements(l) => format!("NotEnoughMeasurements({})", self.lname(*l)),
            AlgoError::ClockInUse(c, l) => format!("ClockInUse({},{})", self.cname(*c), self.lname(*l)),
        }
    }
    fn errs(&self, es: &[AlgoError]) -> String {
        es.iter().map(|e| self.err(e)).collect::<Vec<_>>().join(", ")
    }

    // --------------------------------------------------------------- id pools
    fn fresh_id(&mut self) -> ClockId {
        let id = ClockId::new();
        self.fresh.push(id);
        id
    }
    /// Mostly a live clock (internal or external), sometimes a removed one, sometimes a never-registered id.
    fn pick_clock(&mut self, label: &'static str) -> ClockId {
        let live: Vec<ClockId> = self.ints.iter().filter(|c| c.live).map(|c| c.id).chain(self.exts.iter().filter(|c| c.live).map(|c| c.id)).collect();
        let gone: Vec<ClockId> = self.ints.iter().filter(|c| !c.live).map(|c| c.id).chain(self.exts.iter().filter(|c| !c.live).map(|c| c.id)).collect();
        match weighted(label, &[8, 1, 1]) {
            0 if !live.is_empty() => live[choose("pick.live", live.len() as u64) as usize],
            1 if !gone.is_empty() => gone[choose("pick.gone", gone.len() as u64) as usize],
            _ => self.fresh_id(),
        }
    }
    fn is_live_int(&self, id: ClockId) -> bool {
        self.ints.iter().any(|c| c.live && c.id == id)
    }
    fn is_live_ext(&self, id: ClockId) -> bool {
        self.exts.iter().any(|c| c.live && c.id == id)
    }
    fn end_of(&self, id: ClockId) -> Option<End> {
        if let Some(i) = self.ints.iter().position(|c| c.id == id) {
            return Some(End::Int(i));
        }
        self.exts.iter().position(|c| c.id == id).map(End::Ext)
    }
    fn live_links(&self) -> Vec<usize> {
        self.links.iter().enumerate().filter(|(_, l)| l.handle.is_some()).map(|(i, _)| i).collect()
    }

    // ------------------------------------------------------------ ground truth
    fn reading(&self, e: End) -> Timestamp<TAI> {
        match e {
            End::Int(i) => self.ints[i].clock.reading(),
            End::Ext(j) => true_ts(simkit::now_ns()) + Duration::from_f64_seconds(self.exts[j].off),
        }
    }
    fn advance(&self, ns: u64) {
        simkit::set_now_ns(simkit::now_ns() + ns);
    }
    fn gauss(&mut self) -> f64 {
        // sum of 4 uniforms, centred: deterministic, no libm
        let mut s = 0.0;
        for _ in 0..4 {
            s += (self.noise.next_u64() >> 11) as f64 / (1u64 << 53) as f64;
        }
        (s - 2.0) * 1.7320508
    }

    // ------------------------------------------------------------------ panics
    fn crashed(&mut self, what: &str, msg: String) {
        let msg = crate::view::short_location(&msg);
        ev!("{what} -> PANIC {msg}");
        simkit::violation("C42", "estimator-never-panics", format!("{what} panicked: {msg}"));
        self.dead = true;
    }

    // ------------------------------------------------------- structural monitor
    /// Run one structural controller operation under the C42 monitors.
    /// `expect_errs`: the documented errors that apply to this call per the model
    /// (empty = the call must succeed, unless a ClockError was injected).
    fn structural<R>(
        &mut self,
        what: &str,
        expect_errs: Vec<AlgoError>,
        touched_clock: Option<ClockId>,
        touched_link: Option<LinkId>,
        op: impl FnOnce(&Ctl<S>) -> Result<R, AlgoError>,
    ) -> Option<R> {
        let before = self.ctl.verif_filter_view();
        let ids_before = self.ctl.verif_clock_ids();
        let ctl = self.ctl.clone();
        let res = match exec::catch(|| op(&ctl)) {
            Ok(r) => r,
            Err(msg) => {
                self.crashed(what, msg);
                return None;
            }
        };
        let after = self.ctl.verif_filter_view();
        let ids_after = self.ctl.verif_clock_ids();
        match res {
            Err(e) => {
                ev!("{what} -> {}", self.err(&e));
                let injected = matches!(e, AlgoError::ClockError(_));
                if injected {
                    probe("structural-op-hit-clock-error");
                } else {
                    check!(
                        "C42",
                        "bad-id-operation-fails",
                        expect_errs.contains(&e),
                        "{what} failed with {} but {}",
                        self.err(&e),
                        if expect_errs.is_empty() { "should have succeeded".to_string() } else { format!("the documented error is one of [{}]", self.errs(&expect_errs)) }
                    );
                }
                check!(
                    "C42",
                    "failed-operation-leaves-estimator-unchanged",
                    fview_eq(&before, &after) && ids_before == ids_after,
                    "{what} failed with {} but the controller's filter or clock list changed",
                    self.err(&e)
                );
                None
            }
            Ok(r) => {
                ev!("{what} -> ok");
                check!(
                    "C42",
                    "bad-id-operation-fails",
                    expect_errs.is_empty(),
                    "{what} succeeded although it should fail with one of [{}]",
                    self.errs(&expect_errs)
                );
                let r2 = others_intact(&before.est, &after.est, touched_clock, touched_link, &|c| self.comp(c));
                check!("C42", "unrelated-estimates-intact", r2.estimates.is_ok(), "{what}: {}", r2.estimates.clone().err().unwrap_or_default());
                check!("C42", "unrelated-covariance-intact", r2.covariance.is_ok(), "{what}: {}", r2.covariance.clone().err().unwrap_or_default());
                // filter-level link estimates (delay / noise, selection state) of all other links
                let mut bad: Option<String> = None;
                for lb in before.links.iter().filter(|l| Some(l.id) != touched_link) {
                    match after.links.iter().find(|l| l.id == lb.id) {
                        None => bad = Some(format!("{} vanished from the filter", self.lname(lb.id))),
                        Some(la) => {
                            if !flink_eq(lb, la) {
                                bad = Some(format!("{}: delay/noise {:?} active={} became {:?} active={}", self.lname(lb.id), lb.delay_noise, lb.active, la.delay_noise, la.active));
                            }
                        }
                    }
                }
                check!("C42", "unrelated-link-estimates-intact", bad.is_none(), "{what}: {}", bad.clone().unwrap_or_default());
                check!(
                    "C42",
                    "time-non-decreasing",
                    after.est.time == before.est.time,
                    "{what}: a structural operation moved the filter time from {:.9} to {:.9}",
                    secs(before.est.time),
                    secs(after.est.time)
                );
                Some(r)
            }
        }
    }

    // -------------------------------------------------------------- operations
    fn op_add_clock(&mut self) {
        if self.ints.iter().filter(|c| c.live).count() >= 4 {
            return;
        }
        let name = self.ints.len();
        let clock = new_sim_clock(name, &self.cfg);
        let wander = [1e-8, 1e-10, 1e-6][choose("addclock.wander", 3) as usize];
        // reserve the table slot first so that set_frequency/step logs can name it
        let c2 = clock.clone();
        let what = format!("add_clock(k{name} max_freq={:e})", MAX_FREQS[name % 4]);
        if let Some(id) = self.structural(&what, vec![], None, None, move |ctl| ctl.add_clock(c2, wander)) {
            self.ints.push(IntClock { id, clock, live: true });
            let v = self.ctl.verif_filter_view();
            let known = clock_est(&v.est, id).is_some();
            check!("C42", "added-clock-is-known", known, "{what}: the new clock is not part of the estimator state");
        }
    }

    fn op_remove_clock(&mut self) {
        let id = self.pick_clock("rmclock.id");
        let what = format!("remove_clock({})", self.cname(id));
        let mut errs = vec![];
        if self.ints[0].id == id {
            errs.push(AlgoError::CannotRemoveSystemClock(id));
        } else if !self.is_live_int(id) {
            probe("unknown-clock-id");
            errs.push(AlgoError::UnknownClock(id));
        } else {
            for l in self.links.iter().filter(|l| l.handle.is_some() && l.id.contains_clock(id)) {
                errs.push(AlgoError::ClockInUse(id, l.id));
            }
            if !errs.is_empty() {
                probe("remove-clock-in-use");
            }
        }
        if self.structural(&what, errs, Some(id), None, move |ctl| ctl.remove_clock(id)).is_some() {
            if let Some(c) = self.ints.iter_mut().find(|c| c.id == id) {
                c.live = false;
            }
            let listed = self.ctl.verif_clock_ids().contains(&id);
            let known = clock_est(&self.ctl.verif_filter_view().est, id).is_some();
            check!("C42", "removed-clock-is-gone", !listed && !known, "{what}: clock still listed={listed} / in the estimator={known}");
        }
    }

    fn op_add_external(&mut self) {
        if self.exts.iter().filter(|c| c.live).count() >= 3 {
            return;
        }
        let off = [0.0, 0.0, 2e-4, -0.05, 3.0][weighted("ext.off", &[4, 3, 1, 1, 1])];
        if off != 0.0 {
            fault("external-falseticker");
        }
        let what = format!("add_external_clock(e{} true_offset={off:e})", self.exts.len());
        if let Some(id) = self.structural(&what, vec![], None, None, |ctl| ctl.add_external_clock()) {
            self.exts.push(ExtClock { id, off, live: true });
        }
    }

    fn op_remove_external(&mut self) {
        let id = self.pick_clock("rmext.id");
        let what = format!("remove_external_clock({})", self.cname(id));
        let errs = if self.is_live_ext(id) {
            if self.links.iter().any(|l| l.handle.is_some() && l.id.contains_clock(id)) {
                probe("external-removed-with-live-link");
            }
            vec![]
        } else {
            probe("unknown-clock-id");
            vec![AlgoError::UnknownClock(id)]
        };
        if self.structural(&what, errs, Some(id), None, move |ctl| ctl.remove_external_clock(id)).is_some() {
            if let Some(c) = self.exts.iter_mut().find(|c| c.id == id) {
                c.live = false;
            }
        }
    }

    fn op_create_link(&mut self, tracked: bool) {
        if self.live_links().len() >= 6 {
            return;
        }
        let a = self.pick_clock("link.a");
        let b = if chance("link.same", 0.05) { a } else { self.pick_clock("link.b") };
        self.create_link(tracked, a, b);
    }

    fn create_link(&mut self, tracked: bool, a: ClockId, b: ClockId) {
        let decay = [1e-3, 0.0, 0.1][choose("link.decay", 3) as usize];
        let what = format!("create_{}_link({}, {})", if tracked { "tracked" } else { "untracked" }, self.cname(a), self.cname(b));
        let known = |w: &Self, c: ClockId| w.is_live_int(c) || w.is_live_ext(c);
        let mut errs = vec![];
        if !known(self, a) {
            errs.push(AlgoError::UnknownClock(a));
        }
        if !known(self, b) {
            errs.push(AlgoError::UnknownClock(b));
        }
        if self.is_live_ext(a) && self.is_live_ext(b) {
            errs.push(AlgoError::BothClocksExternal(a, b));
        }
        if a == b {
            errs.push(AlgoError::ClocksEqual(a));
        }
        if errs.iter().any(|e| matches!(e, AlgoError::UnknownClock(_))) {
            probe("unknown-clock-id");
        }
        let external = self.is_live_ext(a) || self.is_live_ext(b);
        let r = self.structural(&what, errs, None, None, move |ctl| {
            if tracked {
                KalmanController::create_tracked_link(ctl.clone(), a, b, decay)
            } else {
                KalmanController::create_untracked_link(ctl.clone(), a, b)
            }
        });
        if let Some(handle) = r {
            let id = handle.verif_link_id();
            let (ea, eb) = (self.end_of(a).expect("end a"), self.end_of(b).expect("end b"));
            let delay = [50e-6, 1e-6, 2e-3, 80e-3][choose("link.delay", 4) as usize];
            let asym = if self.cfg.clean { 0.0 } else { [0.0, 0.1, -0.5][choose("link.asym", 3) as usize] * delay };
            let noise = [1e-7, 1e-9, 1e-5, 1e-3][choose("link.noise", 4) as usize];
            let ok = id.first_clock() == a && id.second_clock() == b;
            check!("C42", "created-link-connects-requested-clocks", ok, "{what}: link id connects {} and {}", self.cname(id.first_clock()), self.cname(id.second_clock()));
            self.links.push(LinkRec {
                handle: Some(handle),
                id,
                a: ea,
                b: eb,
                tracked,
                external,
                delay,
                asym,
                noise,
            });
            ev!("  link l{} delay={delay:e} asym={asym:e} noise={noise:e} external={external}", self.links.len() - 1);
        }
    }

    fn op_drop_link(&mut self) {
        let live = self.live_links();
        if live.is_empty() {
            return;
        }
        let li = live[choose("drop.link", live.len() as u64) as usize];
        let id = self.links[li].id;
        let handle = self.links[li].handle.take();
        let what = format!("drop({})", self.lname(id));
        let r = self.structural(&what, vec![], None, Some(id), move |_ctl| {
            drop(handle);
            Ok(())
        });
        if r.is_some() {
            let v = self.ctl.verif_filter_view();
            let gone = !v.links.iter().any(|l| l.id == id) && !v.est.links.iter().any(|l| l.id == id);
            check!("C42", "dropped-link-is-gone", gone, "{what}: the link is still known to the filter/estimator");
        }
    }

    fn op_external_data(&mut self) {
        let live = self.live_links();
        if live.is_empty() {
            return;
        }
        let li = live[choose("extdata.link", live.len() as u64) as usize];
        let id = self.links[li].id;
        let usable = !chance("extdata.unusable", 0.15);
        let leap = [None, Some(LeapStatus::None), Some(LeapStatus::Leap59), Some(LeapStatus::Leap61)][weighted("extdata.leap", &[3, 4, 1, 1])];
        let root_delay = [0.0, 1e-4, 0.02][choose("extdata.rootdelay", 3) as usize];
        let what = format!("external_data_update({} usable={usable} leap={leap:?} root_delay={root_delay:e})", self.lname(id));
        let errs = if self.links[li].external { vec![] } else { vec![AlgoError::LinkNotExternal(id)] };
        let handle = self.links[li].handle.take().expect("live link");
        let h2 = &handle;
        // touches only this link's selection data: every estimate must stay intact
        self.structural(&what, errs, None, Some(id), move |_ctl| h2.external_data_update(Duration::from_f64_seconds(root_delay), leap, usable));
        self.links[li].handle = Some(handle);
    }

    fn op_time(&mut self) {
        let step = [1_000_000u64, 50_000, 125_000_000, 1_000_000_000, 16_000_000_000, 300_000_000_000][choose("time.step", 6) as usize];
        self.advance(step);
        // frequency wander of the real oscillators
        if !self.cfg.clean {
            for i in 0..self.ints.len() {
                let g = self.gauss();
                self.ints[i].clock.with(|c| c.true_freq += 1e-9 * g * (step as f64 * 1e-9).sqrt());
            }
        }
        ev!("time +{step} ns");
    }

    fn op_meddle(&mut self) {
        let live: Vec<usize> = self.ints.iter().enumerate().filter(|(_, c)| c.live).map(|(i, _)| i).collect();
        let i = live[choose("meddle.clock", live.len() as u64) as usize];
        self.desync = true;
        match weighted("meddle.kind", &[3, 3, 2, 2]) {
            0 => {
                let d = [1e-3, 5e-6, 0.25, 4.0, 30.0][choose("meddle.fwd", 5) as usize];
                fault("meddle-step-forward");
                self.ints[i].clock.meddle_step(Duration::from_f64_seconds(d));
                ev!("meddle: k{i} stepped by {d:e}");
            }
            1 => {
                let d = -[1e-3, 2e-9, 0.25, 40.0][choose("meddle.back", 4) as usize];
                fault("meddle-step-backward");
                self.ints[i].clock.meddle_step(Duration::from_f64_seconds(d));
                ev!("meddle: k{i} stepped by {d:e}");
            }
            2 => {
                let df = [50e-6, -200e-6, 2e-3][choose("meddle.freq", 3) as usize];
                fault("frequency-excursion");
                self.ints[i].clock.with(|c| {
                    c.reading();
                    c.true_freq += df
                });
                ev!("meddle: k{i} true frequency += {df:e}");
            }
            _ => {
                let g = -[1e-6, 1e-3, 10.0][choose("meddle.glitch", 3) as usize];
                self.ints[0].clock.with(|c| c.glitch = Some(Duration::from_f64_seconds(g)));
                ev!("meddle: next now() of k0 glitches by {g:e}");
            }
        }
    }

    /// One half of a two-way exchange on link `li` in direction `dir`, then the real `measurement` call.
    fn op_measure(&mut self, li: usize, dir: Direction) {
        if self.tame {
            if let (End::Int(a), End::Int(b)) = (self.links[li].a, self.links[li].b) {
                let v = self.ctl.verif_filter_view();
                let untied = |i: usize| clock_est(&v.est, self.ints[i].id).map(|e| !(e[1] < 1e9)).unwrap_or(false);
                if untied(a) && untied(b) {
                    // neither clock has any absolute reference yet (both carry the 1e18 s initial uncertainty)
                    ev!("(tame) no exchange on l{li}: neither end has a reference yet");
                    self.advance(1_000_000);
                    return;
                }
            }
        }
        let (from, to, sign) = match dir {
            Direction::Forward => (self.links[li].a, self.links[li].b, 1.0),
            Direction::Reverse => (self.links[li].b, self.links[li].a, -1.0),
        };
        let send = self.reading(from);
        let g = self.gauss().abs();
        let l = &self.links[li];
        let d = (l.delay + sign * l.asym / 2.0 + l.noise * g).max(0.0);
        self.advance((d * 1e9) as u64);
        let mut recv = self.reading(to);
        if self.cfg.outliers && chance("meas.outlier", 0.03) {
            fault("measurement-outlier");
            self.desync = true;
            recv = recv + Duration::from_f64_seconds([0.5, -0.5, 1e-3, 100.0][choose("meas.outlier.kind", 4) as usize]);
        }
        self.advance(choose("meas.proc", 200_000));
        let unc = Duration::from_f64_seconds([1e-7, 1e-9, 1e-5, 1e-3][choose("meas.unc", 4) as usize]);
        let m = Measurement {
            send_timestamp: send,
            recv_timestamp: recv,
            uncertainty: unc,
        };
        self.measurement(li, m, dir);
    }

    /// The real `KalmanLink::measurement` under the C42 time monitors and the C43 steering monitors.
    fn measurement(&mut self, li: usize, m: Measurement, dir: Direction) {
        let lid = self.links[li].id;
        let value = (m.recv_timestamp - m.send_timestamp).as_seconds();
        let what = format!("measurement({} {dir:?} {value:e} +- {:e})", self.lname(lid), m.uncertainty.as_seconds());
        let before = self.ctl.verif_filter_view();
        let f0 = self.ctl.verif_filter();
        let cfg = self.ctl.verif_filter_config();
        let ids = self.ctl.verif_clock_ids();
        let marks: Vec<usize> = self.ints.iter().map(|c| c.clock.n_calls()).collect();

        let handle = self.links[li].handle.take().expect("live link");
        let res = exec::catch(|| handle.measurement(m, dir));
        let res = match res {
            Ok(r) => {
                self.links[li].handle = Some(handle);
                r
            }
            Err(msg) => {
                std::mem::forget(handle);
                // diagnostics: the filter's link bookkeeping as it stood before the crashing call
                for l in &before.links {
                    ev!(
                        "  before crash: {} tracked={} active={} usable={} delay/noise={:?} root_delay={:e} last_offsets={:?} last_offset_uncertainty={:e}",
                        self.lname(l.id),
                        l.tracked,
                        l.active,
                        l.usable,
                        l.delay_noise,
                        l.root_delay,
                        l.last_offsets,
                        l.last_offset_uncertainty
                    );
                }
                self.crashed(&what, msg);
                return;
            }
        };
        let after = self.ctl.verif_filter_view();
        match &res {
            Ok(()) => ev!("{what} -> ok"),
            Err(e) => ev!("{what} -> {}", self.err(e)),
        }

        // what the clocks saw during the call
        let calls: Vec<Vec<Call>> = self.ints.iter().zip(&marks).map(|(c, n)| c.clock.calls_since(*n)).collect();
        let nows: Vec<Timestamp<TAI>> = calls[0].iter().filter_map(|c| if let Call::Now(t) = c { Some(*t) } else { None }).collect();
        let mut sys_steps = Duration::ZERO;
        for c in &calls[0] {
            if let Call::Step(d) = c {
                sys_steps = sys_steps + *d;
            }
        }
        let saturated = calls.iter().flatten().any(|c| matches!(c, Call::Step(d) if d.as_seconds().abs() >= SATURATED_S));
        if saturated {
            probe("step-saturated-duration-range");
            self.stop = true;
        }
        if let (End::Int(a), End::Int(b)) = (self.links[li].a, self.links[li].b) {
            let untied = |i: usize| clock_est(&before.est, self.ints[i].id).map(|e| !(e[1] < 1e9)).unwrap_or(false);
            if untied(a) && untied(b) {
                probe("untied-internal-pair-measured");
                self.untied_pair_measured = true;
            }
        }
        // Stable marker naming the ill-conditioned situation (used in violation details, so that the
        // numerical blow-up it causes is a class of its own and nothing else can hide behind it).
        let ill = if self.untied_pair_measured { UNTIED_MARK } else { "" };

        // ---- C43: the filter's estimates stay finite -------------------------------------------
        // (a non-finite estimate cannot "move by the applied step"; reported as its own clause instead of
        // as a failed equality, and nothing meaningful can follow it)
        let finite = |v: &FilterView| v.est.state.iter().all(|x| x.is_finite()) && (0..v.est.rows).all(|i| v.est.cov.get(i * v.est.rows + i).map(|x| x.is_finite()).unwrap_or(false));
        let was_finite = finite(&before);
        let is_finite = finite(&after);
        // Range overflow (non-finite estimates, steps beyond +-2^63 s) in a run in which an injected fault has
        // already made filter and clocks inconsistent, and which never hit the ill-conditioned untied-pair
        // situation, is attributed to the fault (garbage in): counted, not judged. In fault-free runs, and
        // before any such fault has fired, it is judged.
        let overflow_excused = self.desync && !self.untied_pair_measured;
        if (!is_finite || saturated) && overflow_excused {
            probe("range-overflow-after-injected-fault");
        }
        if was_finite && !overflow_excused {
            let bad: Vec<String> = self
                .ints
                .iter()
                .enumerate()
                .filter_map(|(i, c)| clock_est(&after.est, c.id).filter(|e| e.iter().any(|x| !x.is_finite())).map(|e| format!("k{i}: offset {:e} +- {:e}, frequency {:e} +- {:e}", e[0], e[1], e[2], e[3])))
                .collect();
            check!(
                "C43",
                "estimates-stay-finite",
                is_finite,
                "{what}: the filter's estimates were finite before the call and are not afterwards ({}){ill}",
                bad.join("; ")
            );
        }
        if !is_finite {
            probe("estimates-non-finite");
            self.stop = true;
        }

        // ---- C42: time never moves backwards ---------------------------------------
        // The filter's time is the system clock's reading; a step the controller itself applied to the
        // system clock re-labels time, so it is taken out before comparing.
        // (Skipped when a step saturated the Duration range: timestamps then wrap modulo 2^64 s.)
        let unstepped = if res.is_ok() { after.est.time - sys_steps } else { after.est.time };
        check!(
            "C42",
            "time-non-decreasing",
            saturated || !ts_lt(unstepped, before.est.time),
            "{what}: filter time went from {:.9} to {:.9} (controller stepped the system clock by {:e} in this call)",
            secs(before.est.time),
            secs(after.est.time),
            sys_steps.as_seconds()
        );
        if let Some(n1) = nows.first() {
            if ts_lt(*n1, before.est.time) {
                probe("backwards-now");
                let want = AlgoError::NonMonotonicTimeProgression { from: before.est.time, to: *n1 };
                check!(
                    "C42",
                    "backwards-time-rejected",
                    res == Err(want.clone()) && fview_eq(&before, &after),
                    "{what}: system clock read {:.9} < filter time {:.9}; result {} (want {}), filter unchanged={}",
                    secs(*n1),
                    secs(before.est.time),
                    match &res {
                        Ok(()) => "ok".to_string(),
                        Err(e) => self.err(e),
                    },
                    self.err(&want),
                    fview_eq(&before, &after)
                );
            }
        } else {
            // now() itself failed (injected): nothing may have changed
            check!(
                "C42",
                "failed-operation-leaves-estimator-unchanged",
                res.is_err() && fview_eq(&before, &after),
                "{what}: the system clock could not be read, yet the call returned {:?} / changed the filter",
                res.is_ok()
            );
        }

        // ---- C43: the estimate follows the applied step / frequency change ----------------------
        if res.is_ok() && nows.len() == 2 {
            let base = f0
                .progress_time(nows[0])
                .and_then(|f| f.measurement(&cfg, lid, dir, value, m.uncertainty.as_seconds()))
                .and_then(|f| f.progress_time(nows[1]));
            match base {
                Err(e) => {
                    probe("baseline-replay-failed");
                    ev!("  baseline replay failed: {}", self.err(&e));
                }
                Ok(f1) => {
                    let pre = f1.view();
                    for (i, c) in self.ints.iter().enumerate() {
                        if !ids.contains(&c.id) {
                            continue;
                        }
                        let mut step = 0.0;
                        let mut stepped = false;
                        let mut dfreq = 0.0;
                        let mut steered = false;
                        for call in &calls[i] {
                            match call {
                                Call::Step(d) => {
                                    step += d.as_seconds();
                                    stepped = true;
                                }
                                Call::SetFrequency { f, prev } => {
                                    dfreq += f - prev;
                                    steered = true;
                                }
                                _ => {}
                            }
                        }
                        let (Some(p), Some(q)) = (clock_est(&pre.est, c.id), clock_est(&after.est, c.id)) else {
                            check!("C43", "estimate-follows-step", false, "{what}: clock k{i} has no estimate after the call");
                            continue;
                        };
                        if [p[0], p[2], q[0], q[2]].iter().any(|x| !x.is_finite()) {
                            // judged by estimates-stay-finite above
                            continue;
                        }
                        if step.abs() >= SATURATED_S && overflow_excused {
                            continue;
                        }
                        let close = |got: f64, want: f64, scale: f64| (got - want).abs() <= 1e-15 + 1e-12 * scale.abs().max(want.abs());
                        if stepped {
                            probe("clock-stepped");
                        }
                        if steered {
                            probe("frequency-steered");
                        }
                        check!(
                            "C43",
                            "estimate-follows-step",
                            close(q[0], p[0] + step, step),
                            "{what}: controller stepped clock k{i} by {step:e}; its offset estimate went from {:e} (just before steering) to {:e}, expected {:e}{}",
                            p[0],
                            q[0],
                            p[0] + step,
                            if step.abs() >= SATURATED_S { format!(" (the step saturated at the +-2^63 s range of Duration){ill}") } else { String::new() }
                        );
                        check!(
                            "C43",
                            "estimate-follows-frequency-change",
                            close(q[2], p[2] + dfreq, dfreq),
                            "{what}: controller changed the frequency of clock k{i} by {dfreq:e}; its frequency estimate went from {:e} (just before steering) to {:e}, expected {:e}",
                            p[2],
                            q[2],
                            p[2] + dfreq
                        );
                    }
                }
            }
        } else if res.is_err() {
            let steered = calls.iter().flatten().any(|c| matches!(c, Call::Step(_) | Call::SetFrequency { .. }));
            if steered {
                probe("clock-steered-in-failed-call");
                self.desync = true;
            }
        }
        if let Some(l) = after.links.iter().find(|l| l.id == lid) {
            if l.active {
                probe("link-active");
            }
            if l.external && l.active {
                probe("external-link-selected");
            }
            if l.tracked && l.delay_noise.is_some() {
                probe("tracked-link-has-delay-estimate");
                if self.cfg.clean {
                    probe("tracked-link-has-delay-estimate-in-clean-run");
                }
            }
            if after.est.links.iter().any(|x| x.id == lid) {
                probe("link-delay-in-estimator-state");
            }
        }
    }

    // -------------------------------------------------------- C43 query monitor
    fn queries(&mut self) {
        let v: FilterView = self.ctl.verif_filter_view();
        for i in 0..self.ints.len() {
            let id = self.ints[i].id;
            let ctl = self.ctl.clone();
            let r = exec::catch(|| (ctl.clock_frequency(id).map(|u| (u.value, u.uncertainty)), ctl.clock_offset(id).map(|u| (u.value, u.uncertainty))));
            let (fq, oq) = match r {
                Ok(x) => x,
                Err(msg) => {
                    self.crashed("clock_frequency/clock_offset query", msg);
                    return;
                }
            };
            match clock_est(&v.est, id) {
                None => {
                    // removed clock: both queries must fail
                    let ok = fq == Err(AlgoError::UnknownClock(id)) && oq == Err(AlgoError::UnknownClock(id));
                    let show = |r: &Result<(f64, f64), AlgoError>| match r {
                        Ok(v) => format!("Ok({:e} +- {:e})", v.0, v.1),
                        Err(e) => self.err(e),
                    };
                    check!("C42", "bad-id-operation-fails", ok, "query for removed clock k{i}: clock_frequency -> {}, clock_offset -> {}", show(&fq), show(&oq));
                }
                Some(e) => {
                    let (off, freq) = ((e[0], e[1]), (e[2], e[3]));
                    let same = |a: (f64, f64), b: (f64, f64)| beq(a.0, b.0) && beq(a.1, b.1);
                    match oq {
                        Ok(o) => check!(
                            "C43",
                            "clock-offset-query-equals-filter-offset",
                            same(o, off),
                            "clock_offset(k{i}) returned {:e} +- {:e}; the filter's offset estimate is {:e} +- {:e}",
                            o.0,
                            o.1,
                            off.0,
                            off.1
                        ),
                        Err(e) => check!("C43", "clock-offset-query-equals-filter-offset", false, "clock_offset(k{i}) failed with {}", self.err(&e)),
                    }
                    match fq {
                        Ok(f) => {
                            simkit::oracle("C43");
                            if !same(f, freq) {
                                let is_offset = same(f, off);
                                if is_offset && self.query_finding_reported {
                                    // one report per run is enough for the known class
                                } else {
                                    if is_offset {
                                        self.query_finding_reported = true;
                                    }
                                    simkit::violation(
                                        "C43",
                                        "clock-frequency-query-equals-filter-frequency",
                                        format!(
                                            "clock_frequency(k{i}) returned {:e} +- {:e}; the filter's FREQUENCY estimate for that clock is {:e} +- {:e}, its OFFSET estimate is {:e} +- {:e}{}",
                                            f.0,
                                            f.1,
                                            freq.0,
                                            freq.1,
                                            off.0,
                                            off.1,
                                            if is_offset { " (the query returned the filter's OFFSET estimate)" } else { "" }
                                        ),
                                    );
                                }
                            }
                        }
                        Err(e) => check!("C43", "clock-frequency-query-equals-filter-frequency", false, "clock_frequency(k{i}) failed with {}", self.err(&e)),
                    }
                }
            }
        }
    }

    // -------------------------------------------------------------------- run
    fn go() {
        let focus = simkit::focus();
        let clean = !chance("cfg.faulty", 0.75);
        let cfg = Cfg {
            clean,
            err_p: if clean { 0.0 } else { [0.0, 0.0, 0.01, 0.05][weighted("cfg.clockerr", &[5, 2, 2, 1])] },
            tick_mode: choose("cfg.tick", 3) as u8,
            meddle: !clean && chance("cfg.meddle", 0.6),
            outliers: !clean && chance("cfg.outliers", 0.5),
        };
        let tame = !chance("cfg.untamed", 0.4);
        let fc = filter_config(
            [3.0, 1.0, 10.0][choose("cfg.win.off", 3) as usize],
            [3.0, 1.0, 10.0][choose("cfg.win.link", 3) as usize],
            [1.0, 0.5, 2.0][choose("cfg.win.delay", 3) as usize],
            [1.0, 1e-3, 100.0][choose("cfg.win.max", 3) as usize],
            1 + weighted("cfg.minagree", &[6, 2, 1]),
        );
        let n_ops = 20 + choose("cfg.nops", 380);
        ev!("controller world: clean={clean} tame={tame} err_p={} tick={} meddle={} outliers={} nops={n_ops} focus={focus}", cfg.err_p, cfg.tick_mode, cfg.meddle, cfg.outliers);

        // the system clock is created without error injection so that the world exists; injection starts afterwards
        let sys = new_sim_clock(0, &cfg);
        sys.with(|c| c.err_p = 0.0);
        let wander0 = [1e-8, 1e-10, 1e-6][choose("cfg.wander0", 3) as usize];
        let s2 = sys.clone();
        let made = exec::catch(move || KalmanController::<S, SimClock>::new(s2, wander0, fc));
        let (ctl, sys_id) = match made {
            Ok(Ok(x)) => x,
            Ok(Err(e)) => {
                simkit::abort(format!("KalmanController::new failed: {e:?}"));
                return;
            }
            Err(msg) => {
                simkit::violation("C42", "estimator-never-panics", format!("KalmanController::new panicked: {msg}"));
                return;
            }
        };
        sys.with(|c| c.err_p = cfg.err_p);
        let mut w = World::<S> {
            ctl: Rc::new(ctl),
            cfg,
            ints: vec![IntClock { id: sys_id, clock: sys, live: true }],
            exts: vec![],
            links: vec![],
            fresh: vec![],
            noise: simkit::sub_rng("noise"),
            dead: false,
            stop: false,
            tame: false,
            untied_pair_measured: false,
            desync: false,
            query_finding_reported: false,
        };
        w.tame = tame;
        w.queries();

        // initial topology
        let n_int = choose("cfg.nint", 4);
        let n_ext = choose("cfg.next", 4);
        for _ in 0..n_int {
            w.op_add_clock();
        }
        for _ in 0..n_ext {
            w.op_add_external();
        }
        let n_links = choose("cfg.nlinks", 5);
        for _ in 0..n_links {
            if w.dead {
                break;
            }
            w.op_create_link(!chance("cfg.link.untracked", 0.3));
        }
        // tame runs usually start with the system clock tied to a truthful, announced external reference
        if tame && !w.dead && !chance("cfg.noanchor", 0.3) {
            let anchor = match w.exts.iter().find(|e| e.live && e.off == 0.0) {
                Some(e) => Some(e.id),
                None => {
                    if let Some(id) = w.structural("add_external_clock(anchor)", vec![], None, None, |ctl| ctl.add_external_clock()) {
                        w.exts.push(ExtClock { id, off: 0.0, live: true });
                        Some(id)
                    } else {
                        None
                    }
                }
            };
            if let Some(e) = anchor {
                let k0 = w.ints[0].id;
                let tracked = chance("cfg.anchor.tracked", 0.3);
                if chance("cfg.anchor.reversed", 0.5) {
                    w.create_link(tracked, k0, e);
                } else {
                    w.create_link(tracked, e, k0);
                }
                probe("anchored-start");
            }
        }
        for li in w.live_links() {
            if w.links[li].external && !chance("cfg.link.unannounced", 0.2) {
                let h = w.links[li].handle.take().expect("live");
                let _ = h.external_data_update(Duration::ZERO, Some(LeapStatus::None), true);
                w.links[li].handle = Some(h);
            }
        }

        let structural_bias: u32 = if focus == "C42" { 2 } else { 1 };
        for _ in 0..n_ops {
            if w.dead || w.stop || simkit::out_of_budget() {
                break;
            }
            let live = w.live_links();
            let weights = [
                if live.is_empty() { 0 } else { 14 }, // two-way exchange
                if live.is_empty() { 0 } else { 3 },  // single half
                5,                                     // time passes
                2 * structural_bias,                   // add clock
                2 * structural_bias,                   // remove clock
                structural_bias,                       // add external
                structural_bias,                       // remove external
                2 * structural_bias,                   // tracked link
                structural_bias,                       // untracked link
                structural_bias,                       // drop link
                2,                                     // external data
                if w.cfg.meddle { 2 } else { 0 },      // meddling
                if live.is_empty() { 0 } else { 4 },   // burst of exchanges on one link
            ];
            match weighted("op", &weights) {
                0 => {
                    let li = live[choose("ex.link", live.len() as u64) as usize];
                    let first = if chance("ex.revfirst", 0.3) { Direction::Reverse } else { Direction::Forward };
                    w.op_measure(li, first);
                    if w.dead || w.stop {
                        break;
                    }
                    let gap = [2_000_000u64, 100_000, 40_000_000, 700_000_000][weighted("ex.gap", &[6, 3, 2, 1])];
                    w.advance(gap);
                    if w.links[li].handle.is_some() {
                        w.op_measure(li, first.reverse());
                    }
                }
                1 => {
                    let li = live[choose("half.link", live.len() as u64) as usize];
                    let dir = if chance("half.rev", 0.5) { Direction::Reverse } else { Direction::Forward };
                    w.op_measure(li, dir);
                }
                2 => w.op_time(),
                3 => w.op_add_clock(),
                4 => w.op_remove_clock(),
                5 => w.op_add_external(),
                6 => w.op_remove_external(),
                7 => w.op_create_link(true),
                8 => w.op_create_link(false),
                9 => w.op_drop_link(),
                10 => w.op_external_data(),
                11 => w.op_meddle(),
                _ => {
                    let li = live[choose("burst.link", live.len() as u64) as usize];
                    let n = 2 + choose("burst.n", 5);
                    for _ in 0..n {
                        if w.dead || w.stop || w.links[li].handle.is_none() {
                            break;
                        }
                        w.op_measure(li, Direction::Forward);
                        if w.dead || w.stop {
                            break;
                        }
                        w.advance(1_000_000);
                        w.op_measure(li, Direction::Reverse);
                        w.advance(125_000_000);
                    }
                }
            }
            if !w.dead {
                w.queries();
            }
        }

        // summary: ground truth vs estimate (for the trace only)
        if !w.dead {
            let v = w.ctl.verif_filter_view();
            for (i, c) in w.ints.iter().enumerate().filter(|(_, c)| c.live) {
                if let Some(e) = clock_est(&v.est, c.id) {
                    let q = w.ctl.clock_frequency(c.id).map(|u| (u.value, u.uncertainty)).unwrap_or((f64::NAN, f64::NAN));
                    ev!(
                        "end k{i}: true offset {:e}, offset estimate {:e} +- {:e}, frequency estimate {:e} +- {:e}, clock_frequency() answers {:e} +- {:e}",
                        c.clock.offset_s(),
                        e[0],
                        e[1],
                        e[2],
                        e[3],
                        q.0,
                        q.1
                    );
                }
            }
        }
        w.finish();
    }

    fn finish(mut self) {
        if self.dead {
            // the controller's lock may be poisoned: dropping a link would panic in Drop
            for l in self.links.drain(..) {
                std::mem::forget(l.handle);
            }
            std::mem::forget(self.ctl);
        }
    }
}
