//! Simulated steerable clock behind `statime_base::Clock`, plus time helpers.
//!
//! Ground truth: a clock's reading is `true time + off`, where true time is
//! `EPOCH + simkit::now_ns()` and `off` is kept as an exact fixed-point
//! `Duration` (so that a step followed by zero elapsed time reads back exactly
//! the stepped value and readings never go backwards through float rounding).
//! `off` drifts with rate `true_freq + steer` and jumps with `step_clock`.
//! Every call is recorded; the C43 bound on `set_frequency` is checked at the
//! call itself.

use std::sync::{Arc, Mutex};

use simkit::{chance, check, choose, ev, fault};
use statime_base::{Clock, ClockError, Duration, LeapStatus, TAI, Timestamp};

pub const EPOCH_S: u64 = 1_700_000_000;

/// True time at simulated nanosecond `ns`.
pub fn true_ts(ns: u64) -> Timestamp<TAI> {
    Timestamp::from_seconds_nanos_since_unix_epoch(EPOCH_S + ns / 1_000_000_000, (ns % 1_000_000_000) as u32)
}

pub fn dur_ns(ns: u64) -> Duration {
    Duration::from_seconds_nanos((ns / 1_000_000_000) as i64, (ns % 1_000_000_000) as u32)
}

/// Seconds since the simulation epoch (for logs; ~1e-12 s resolution).
pub fn secs(t: Timestamp<TAI>) -> f64 {
    (t - true_ts(0)).as_seconds()
}

pub fn ts_lt(a: Timestamp<TAI>, b: Timestamp<TAI>) -> bool {
    (a - b) < Duration::ZERO
}

#[derive(Clone, Debug)]
pub enum Call {
    Now(Timestamp<TAI>),
    SetFrequency { f: f64, prev: f64 },
    Step(Duration),
    /// a call that returned an injected `ClockError`
    Failed(&'static str),
    Other,
}

pub struct ClockState {
    pub name: usize,
    pub off: Duration,
    pub true_freq: f64,
    pub steer: f64,
    pub max_freq: f64,
    pub last_ns: u64,
    pub calls: Vec<Call>,
    /// probability that any single trait call fails with a `ClockError` (0 = never)
    pub err_p: f64,
    /// 0: `now()` takes no simulated time; 1: 1 us; 2: 0..2 us drawn per call
    pub tick_mode: u8,
    /// one-shot: the next `now()` reads this much off (negative = in the past)
    pub glitch: Option<Duration>,
}

#[derive(Clone)]
pub struct SimClock(pub Arc<Mutex<ClockState>>);

impl ClockState {
    pub fn advance(&mut self) {
        let now = simkit::now_ns();
        if now > self.last_ns {
            let dt = (now - self.last_ns) as f64 * 1e-9;
            self.off = self.off + Duration::from_f64_seconds((self.true_freq + self.steer) * dt);
            self.last_ns = now;
        }
    }
    pub fn reading(&mut self) -> Timestamp<TAI> {
        self.advance();
        true_ts(self.last_ns) + self.off
    }
    fn maybe_fail(&mut self, what: &'static str) -> Result<(), ClockError> {
        if self.err_p > 0.0 && chance("clk.err", self.err_p) {
            fault("clock-error");
            self.calls.push(Call::Failed(what));
            ev!("clock k{} {what} -> injected ClockError", self.name);
            let e = [
                ClockError::Unknown,
                ClockError::PermissionDenied,
                ClockError::NoDevice,
                ClockError::NotSupported,
                ClockError::InvalidValue,
            ][choose("clk.err.kind", 5) as usize];
            return Err(e);
        }
        Ok(())
    }
}

impl SimClock {
    pub fn new(name: usize, off_s: f64, true_freq: f64, max_freq: f64, tick_mode: u8) -> SimClock {
        SimClock(Arc::new(Mutex::new(ClockState {
            name,
            off: Duration::from_f64_seconds(off_s),
            true_freq,
            steer: 0.0,
            max_freq,
            last_ns: simkit::now_ns(),
            calls: Vec::new(),
            err_p: 0.0,
            tick_mode,
            glitch: None,
        })))
    }
    pub fn with<R>(&self, f: impl FnOnce(&mut ClockState) -> R) -> R {
        f(&mut self.0.lock().unwrap())
    }
    /// Ground-truth reading at the current simulated time (no tick, not recorded).
    pub fn reading(&self) -> Timestamp<TAI> {
        self.with(|c| c.reading())
    }
    /// Ground-truth offset (reading - true time) in seconds.
    pub fn offset_s(&self) -> f64 {
        self.with(|c| {
            c.advance();
            c.off.as_seconds()
        })
    }
    pub fn n_calls(&self) -> usize {
        self.with(|c| c.calls.len())
    }
    pub fn calls_since(&self, n: usize) -> Vec<Call> {
        self.with(|c| c.calls[n..].to_vec())
    }
    /// Something other than the controller moves the clock.
    pub fn meddle_step(&self, d: Duration) {
        self.with(|c| {
            c.advance();
            c.off = c.off + d;
        })
    }
}

impl Clock for SimClock {
    fn now(&self) -> Result<Timestamp<TAI>, ClockError> {
        let mut c = self.0.lock().unwrap();
        c.maybe_fail("now")?;
        let tick = match c.tick_mode {
            0 => 0,
            1 => 1_000,
            _ => choose("clk.tick", 2_000),
        };
        if tick > 0 {
            simkit::set_now_ns(simkit::now_ns() + tick);
        }
        let mut t = c.reading();
        if let Some(g) = c.glitch.take() {
            fault("now-glitch");
            t = t + g;
            ev!("clock k{} now() glitches by {:e} s", c.name, g.as_seconds());
        }
        c.calls.push(Call::Now(t));
        Ok(t)
    }

    fn set_frequency(&self, freq: f64) -> Result<Timestamp<TAI>, ClockError> {
        let mut c = self.0.lock().unwrap();
        check!(
            "C43",
            "set-frequency-within-max",
            freq.abs() <= c.max_freq,
            "set_frequency({freq:e}) on clock k{} whose max_frequency() is {:e}",
            c.name,
            c.max_freq
        );
        if freq.abs() == c.max_freq {
            simkit::probe("frequency-clamped");
        }
        ev!("clock k{} set_frequency({freq:e})", c.name);
        c.maybe_fail("set_frequency")?;
        let t = c.reading();
        let prev = c.steer;
        c.steer = freq;
        c.calls.push(Call::SetFrequency { f: freq, prev });
        Ok(t)
    }

    fn get_frequency(&self) -> Result<f64, ClockError> {
        let mut c = self.0.lock().unwrap();
        c.maybe_fail("get_frequency")?;
        c.calls.push(Call::Other);
        Ok(c.steer)
    }

    fn max_frequency(&self) -> Result<f64, ClockError> {
        let mut c = self.0.lock().unwrap();
        c.maybe_fail("max_frequency")?;
        c.calls.push(Call::Other);
        Ok(c.max_freq)
    }

    fn step_clock(&self, offset: Duration) -> Result<Timestamp<TAI>, ClockError> {
        let mut c = self.0.lock().unwrap();
        ev!("clock k{} step_clock({:e})", c.name, offset.as_seconds());
        c.maybe_fail("step_clock")?;
        c.advance();
        c.off = c.off + offset;
        c.calls.push(Call::Step(offset));
        Ok(true_ts(c.last_ns) + c.off)
    }

    fn error_estimate_update(&self, _est_error: Duration, _max_error: Duration) -> Result<(), ClockError> {
        let mut c = self.0.lock().unwrap();
        c.maybe_fail("error_estimate_update")?;
        c.calls.push(Call::Other);
        Ok(())
    }

    fn leap_update(&self, _leap_status: LeapStatus) -> Result<(), ClockError> {
        let mut c = self.0.lock().unwrap();
        c.maybe_fail("leap_update")?;
        c.calls.push(Call::Other);
        Ok(())
    }

    fn synchronization_update(&self, _synchronized: bool) -> Result<(), ClockError> {
        let mut c = self.0.lock().unwrap();
        c.maybe_fail("synchronization_update")?;
        c.calls.push(Call::Other);
        Ok(())
    }
}
