//! Oracle helpers over the raw estimator / filter views (independent of the
//! implementation's own accessors: estimates are read straight from the state
//! vector and covariance through the index bookkeeping).

use statime_algo::verif::{EstView, FilterLinkView, FilterView};
use statime_base::{ClockId, LinkId};

pub fn beq(a: f64, b: f64) -> bool {
    a.to_bits() == b.to_bits()
}

fn veq(a: &[f64], b: &[f64]) -> bool {
    a.len() == b.len() && a.iter().zip(b).all(|(x, y)| beq(*x, *y))
}

/// Whole estimator view bit-identical (floats compared by bit pattern).
pub fn est_eq(a: &EstView, b: &EstView) -> bool {
    a.time == b.time
        && a.rows == b.rows
        && a.cov_dim == b.cov_dim
        && veq(&a.state, &b.state)
        && veq(&a.cov, &b.cov)
        && a.externals == b.externals
        && a.clocks.len() == b.clocks.len()
        && a.clocks.iter().zip(&b.clocks).all(|(x, y)| x.id == y.id && x.base_index == y.base_index && beq(x.wander, y.wander))
        && a.links.len() == b.links.len()
        && a.links.iter().zip(&b.links).all(|(x, y)| x.id == y.id && x.index == y.index && beq(x.decay_rate, y.decay_rate))
}

pub fn flink_eq(x: &FilterLinkView, y: &FilterLinkView) -> bool {
    let pair = |a: Option<(f64, f64)>, b: Option<(f64, f64)>| match (a, b) {
        (None, None) => true,
        (Some(a), Some(b)) => beq(a.0, b.0) && beq(a.1, b.1),
        _ => false,
    };
    let noise = match (&x.noise, &y.noise) {
        (None, None) => true,
        (Some(a), Some(b)) => {
            veq(&a.roundtrips, &b.roundtrips)
                && match (&a.prev_half, &b.prev_half) {
                    (None, None) => true,
                    (Some(p), Some(q)) => p.0 == q.0 && beq(p.1, q.1) && p.2 == q.2,
                    _ => false,
                }
        }
        _ => false,
    };
    x.id == y.id
        && x.active == y.active
        && x.tracked == y.tracked
        && beq(x.decay_rate, y.decay_rate)
        && noise
        && pair(x.delay_noise, y.delay_noise)
        && x.external == y.external
        && x.usable == y.usable
        && beq(x.root_delay, y.root_delay)
        && x.leap == y.leap
        && veq(&x.last_offsets, &y.last_offsets)
        && beq(x.last_offset_uncertainty, y.last_offset_uncertainty)
}

pub fn fview_eq(a: &FilterView, b: &FilterView) -> bool {
    est_eq(&a.est, &b.est) && a.links.len() == b.links.len() && a.links.iter().zip(&b.links).all(|(x, y)| flink_eq(x, y))
}

/// (offset value, offset uncertainty, frequency value, frequency uncertainty) of an internal clock,
/// `None` if unknown or if its bookkeeping points outside the state vector.
pub fn clock_est(v: &EstView, id: ClockId) -> Option<[f64; 4]> {
    let c = v.clocks.iter().find(|c| c.id == id)?;
    let (o, f) = (c.base_index, c.base_index + 1);
    if f >= v.rows || v.state.len() != v.rows || v.cov.len() != v.rows * v.rows {
        return None;
    }
    Some([v.state[o], v.cov[o * v.rows + o].sqrt(), v.state[f], v.cov[f * v.rows + f].sqrt()])
}

/// (delay value, delay uncertainty) of a link that is part of the estimator state.
pub fn link_est(v: &EstView, id: LinkId) -> Option<[f64; 2]> {
    let l = v.links.iter().find(|l| l.id == id)?;
    if l.index >= v.rows || v.state.len() != v.rows || v.cov.len() != v.rows * v.rows {
        return None;
    }
    Some([v.state[l.index], v.cov[l.index * v.rows + l.index].sqrt()])
}

#[derive(Clone, Copy, PartialEq, Debug)]
pub enum Comp {
    Offset(ClockId),
    Freq(ClockId),
    Delay(LinkId),
}

/// State-vector components of everything except the touched clock / link.
fn components(v: &EstView, skip_clock: Option<ClockId>, skip_link: Option<LinkId>) -> Vec<(Comp, usize)> {
    let mut out = vec![];
    for c in &v.clocks {
        if Some(c.id) != skip_clock {
            out.push((Comp::Offset(c.id), c.base_index));
            out.push((Comp::Freq(c.id), c.base_index + 1));
        }
    }
    for l in &v.links {
        if Some(l.id) != skip_link {
            out.push((Comp::Delay(l.id), l.index));
        }
    }
    out
}

pub struct Intact {
    /// a reported estimate (value or uncertainty) of an untouched clock/link changed or vanished
    pub estimates: Result<(), String>,
    /// a covariance between two untouched components changed
    pub covariance: Result<(), String>,
}

/// Compare everything that is NOT the touched clock/link between two views.
pub fn others_intact(before: &EstView, after: &EstView, skip_clock: Option<ClockId>, skip_link: Option<LinkId>, name: &dyn Fn(Comp) -> String) -> Intact {
    let mut res = Intact {
        estimates: Ok(()),
        covariance: Ok(()),
    };
    let wf = |v: &EstView| v.state.len() == v.rows && v.cov.len() == v.rows * v.rows && v.cov_dim == (v.rows, v.rows);
    if !wf(before) || !wf(after) {
        res.estimates = Err(format!(
            "ill-formed estimator state: rows {}->{} cov {:?}->{:?}",
            before.rows, after.rows, before.cov_dim, after.cov_dim
        ));
        return res;
    }
    let cb = components(before, skip_clock, skip_link);
    let ca = components(after, skip_clock, skip_link);
    let mut map: Vec<(Comp, usize, usize)> = vec![];
    for (k, ib) in &cb {
        let Some((_, ia)) = ca.iter().find(|(k2, _)| k2 == k) else {
            res.estimates = Err(format!("{} vanished from the estimator", name(*k)));
            return res;
        };
        if *ib >= before.rows || *ia >= after.rows {
            res.estimates = Err(format!("{} indexed outside the state vector ({} of {} -> {} of {})", name(*k), ib, before.rows, ia, after.rows));
            return res;
        }
        map.push((*k, *ib, *ia));
    }
    for (k, ib, ia) in &map {
        let (vb, va) = (before.state[*ib], after.state[*ia]);
        let (ub, ua) = (before.cov[ib * before.rows + ib].sqrt(), after.cov[ia * after.rows + ia].sqrt());
        if !(beq(vb, va) && beq(ub, ua)) && res.estimates.is_ok() {
            res.estimates = Err(format!("{}: {vb:e} +- {ub:e} became {va:e} +- {ua:e}", name(*k)));
        }
    }
    for (k1, ib1, ia1) in &map {
        for (k2, ib2, ia2) in &map {
            if ib1 == ib2 {
                continue;
            }
            let (b, a) = (before.cov[ib1 * before.rows + ib2], after.cov[ia1 * after.rows + ia2]);
            if !beq(b, a) && res.covariance.is_ok() {
                res.covariance = Err(format!("cov({}, {}): {b:e} became {a:e}", name(*k1), name(*k2)));
            }
        }
    }
    res
}

/// Panic messages carry the absolute source path, which differs between build trees
/// (`/verif/repo/...`, scratch worktrees): keep only the part from the crate directory on.
pub fn short_location(msg: &str) -> String {
    match (msg.rfind(" @ "), msg.find("statime-")) {
        (Some(at), Some(p)) if p > at => format!("{} @ {}", &msg[..at], &msg[p..]),
        _ => msg.to_string(),
    }
}
