fn main() {
    let _ = statime_algo::verif::filter_config(1.0, 1.0, 1.0, 1.0, 1);
}
