//! W7 — PTP clock estimator / controller world (DESIGN.md §4 "W7"): the real
//! `statime_algo::KalmanController` (and, for duplicate-id histories, the real
//! `EstimatorState` underneath it) driven by a seeded operation history over
//! simulated steerable clocks. Decides C42 and C43.

mod clock;
mod ctl;
mod est;
mod view;

use simkit::batch::{Level, Property, WorldDef, cli_main};

fn run() {
    // index 0 / false = the controller world (benign default)
    if simkit::focus() == "C42" && simkit::chance("cfg.estimator-direct", 0.35) {
        est::run()
    } else {
        ctl::run()
    }
}

fn main() {
    let p = |id, rule| Property {
        id,
        level: Level::Exploration,
        quick_runs: 120_000,
        thorough_runs: 2_000_000,
        quick_wall_s: 45.0,
        thorough_wall_s: 600.0,
        event_cap: 5_000,
        enumerate: None,
        rule,
        assumptions: &[
            "hardware/OS clocks are replaced by SimClock behind the statime_base::Clock trait (ground-truth offset/frequency, recorded calls, optional injected ClockErrors)",
            "measurements are generated from ground-truth clock readings of simulated two-way exchanges (delay, asymmetry, noise, outliers); no PTP packets",
            "measurement uncertainties are > 0 and clock max_frequency() values are positive and constant per clock",
        ],
    };
    cli_main(WorldDef {
        name: "w7",
        run,
        properties: vec![
            p("C42", "one run = one seeded history of 20-400 controller operations (add/remove clock, external clock, tracked/untracked link, link drop, external data, measurements, time progression, clock meddling) on the real KalmanController, or (35 %) of 10-200 operations incl. duplicate ids on the real EstimatorState; before/after views of the private filter state are compared around every structural operation"),
            p("C43", "one run = one seeded history of 20-400 controller operations on the real KalmanController with 1-4 SimClocks; every clock_frequency/clock_offset answer is compared with the private filter state, every set_frequency argument with that clock's max_frequency, and after every successful measurement call the estimates are compared with a replay of the same filter steps without steering plus the steps / frequency changes the clocks actually received"),
        ],
        real_components: &[
            "statime_algo::KalmanController (add/remove clock, external clock, links, queries, steer_clocks)",
            "statime_algo::KalmanLink (measurement, external_data_update, Drop)",
            "statime_algo filter::LinkFilter, estimator::EstimatorState, link_noise::LinkNoiseEstimator, matrix, storage (Std and NoAlloc)",
        ],
        stub_components: &[
            "steerable clocks -> SimClock (statime_base::Clock)",
            "PTP message exchange -> ground-truth two-way exchanges producing Measurement values",
        ],
    })
}
