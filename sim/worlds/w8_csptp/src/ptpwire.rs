//! The oracle's own view of the PTP / CSPTP wire format (IEEE 1588-2019 §13.3
//! header, §13.6 Sync, §13.7 Follow_Up, §14 TLVs; CSPTP TLV layouts as laid out in
//! statime-csptp/src/messages/tlvs.rs). Written from the layout, independent of
//! `statime-wire`'s parser: the verdict "was this a well-formed CSPTP request /
//! which fields does this datagram carry" never calls the code under test.
//!
//! Also a raw byte-level builder for the byzantine server, able to produce
//! encodings `statime-wire` itself refuses to build (nanoseconds = 10^9, odd TLV
//! lengths, wrong message lengths).

pub const TLV_CSPTP_STATUS: u16 = 0xf002;
pub const TLV_CSPTP_REQUEST: u16 = 0xff00;
pub const TLV_CSPTP_RESPONSE: u16 = 0xff01;
pub const TLV_PAD: u16 = 0x8008;

pub const MSG_SYNC: u8 = 0x0;
pub const MSG_FOLLOW_UP: u8 = 0x8;

/// A PTP timestamp exactly as on the wire (48-bit seconds, 32-bit nanoseconds).
#[derive(Clone, Copy, Debug, PartialEq, Eq, PartialOrd, Ord, Default)]
pub struct Ts {
    pub secs: u64,
    pub nanos: u32,
}

impl Ts {
    pub fn from_ns(total_ns: u128) -> Ts {
        Ts {
            secs: ((total_ns / 1_000_000_000) as u64) & 0xffff_ffff_ffff,
            nanos: (total_ns % 1_000_000_000) as u32,
        }
    }
    pub fn write(&self, out: &mut [u8]) {
        out[0..6].copy_from_slice(&self.secs.to_be_bytes()[2..8]);
        out[6..10].copy_from_slice(&self.nanos.to_be_bytes());
    }
    pub fn read(b: &[u8]) -> Ts {
        let mut s = [0u8; 8];
        s[2..8].copy_from_slice(&b[0..6]);
        Ts {
            secs: u64::from_be_bytes(s),
            nanos: u32::from_be_bytes([b[6], b[7], b[8], b[9]]),
        }
    }
    pub fn valid(&self) -> bool {
        self.secs < (1 << 48) && self.nanos < 1_000_000_000
    }
}

impl std::fmt::Display for Ts {
    fn fmt(&self, f: &mut std::fmt::Formatter<'_>) -> std::fmt::Result {
        write!(f, "{}.{:09}", self.secs, self.nanos)
    }
}

#[derive(Clone, Debug, PartialEq)]
pub struct RawTlv {
    pub ty: u16,
    pub value: Vec<u8>,
}

#[derive(Clone, Copy, Debug, PartialEq)]
pub struct StatusTlv {
    pub priority1: u8,
    pub clock_class: u8,
    pub clock_accuracy: u8,
    pub variance: u16,
    pub priority2: u8,
    pub steps_removed: u16,
    pub utc_offset: i16,
    pub gm_identity: [u8; 8],
}

/// Everything the oracle reads from one datagram.
#[derive(Clone, Debug)]
pub struct Parsed {
    pub msg_type: u8,
    pub sdo_id: u16,
    pub version_major: u8,
    pub version_minor: u8,
    pub message_length: u16,
    pub domain: u8,
    pub flags0: u8,
    pub flags1: u8,
    pub correction: i64,
    pub seq: u16,
    /// originTimestamp (Sync) / preciseOriginTimestamp (Follow_Up)
    pub body_ts: Ts,
    pub tlvs: Vec<RawTlv>,
}

#[derive(Clone, Debug, PartialEq)]
pub enum Malformed {
    ShortHeader,
    NotSyncOrFollowUp(u8),
    LengthField,
    ShortBody,
    TlvLayout,
}

impl Parsed {
    pub fn two_step(&self) -> bool {
        self.flags0 & 0x02 != 0
    }
    pub fn leap61(&self) -> bool {
        self.flags1 & 0x01 != 0
    }
    pub fn leap59(&self) -> bool {
        self.flags1 & 0x02 != 0
    }
    pub fn ptp_timescale(&self) -> bool {
        self.flags1 & 0x08 != 0
    }
    pub fn time_traceable(&self) -> bool {
        self.flags1 & 0x10 != 0
    }
    pub fn frequency_traceable(&self) -> bool {
        self.flags1 & 0x20 != 0
    }
    pub fn is_csptp_profile(&self) -> bool {
        self.sdo_id == 0x300 && self.version_major == 2
    }
    pub fn count(&self, ty: u16) -> usize {
        self.tlvs.iter().filter(|t| t.ty == ty).count()
    }
    /// (reqIngressTimestamp, reqCorrectionField) of the CSPTP_RESPONSE TLV, if there is one of legal size.
    pub fn response_tlv(&self) -> Option<(Ts, i64)> {
        let t = self.tlvs.iter().find(|t| t.ty == TLV_CSPTP_RESPONSE)?;
        if t.value.len() < 18 {
            return None;
        }
        let ts = Ts::read(&t.value[0..10]);
        let corr = i64::from_be_bytes(t.value[10..18].try_into().unwrap());
        Some((ts, corr))
    }
    /// request flags byte of the CSPTP_REQUEST TLV
    pub fn request_tlv(&self) -> Option<u8> {
        let t = self.tlvs.iter().find(|t| t.ty == TLV_CSPTP_REQUEST)?;
        t.value.first().copied()
    }
    pub fn status_tlv(&self) -> Option<StatusTlv> {
        self.status_tlvs().into_iter().next()
    }
    pub fn status_tlvs(&self) -> Vec<StatusTlv> {
        self.tlvs
            .iter()
            .filter(|t| t.ty == TLV_CSPTP_STATUS && t.value.len() >= 18)
            .map(|t| {
                let v = &t.value;
                StatusTlv {
                    priority1: v[0],
                    clock_class: v[1],
                    clock_accuracy: v[2],
                    variance: u16::from_be_bytes([v[3], v[4]]),
                    priority2: v[5],
                    steps_removed: u16::from_be_bytes([v[6], v[7]]),
                    utc_offset: i16::from_be_bytes([v[8], v[9]]),
                    gm_identity: v[10..18].try_into().unwrap(),
                }
            })
            .collect()
    }

    /// The statement's "well-formed CSPTP request": a structurally valid PTP Sync of the CSPTP
    /// profile (sdoId 0x300, versionPTP 2) whose TLV suffix parses and carries exactly one
    /// CSPTP_REQUEST TLV (with at least its flags octet) and no CSPTP_RESPONSE TLV. The Sync body's
    /// originTimestamp must be a legal timestamp (nanosecondsField < 10^9, IEEE 1588-2019 §5.3.3).
    pub fn is_wellformed_request(&self) -> bool {
        self.structurally_request() && self.body_ts.valid()
    }

    /// As above without looking at the value of the originTimestamp.
    pub fn structurally_request(&self) -> bool {
        self.msg_type == MSG_SYNC
            && self.is_csptp_profile()
            && self.count(TLV_CSPTP_REQUEST) == 1
            && self.request_tlv().is_some()
            && self.count(TLV_CSPTP_RESPONSE) == 0
    }

    /// A structurally valid CSPTP response (Sync + exactly one full-size CSPTP_RESPONSE TLV, no request TLV).
    pub fn is_wellformed_response(&self) -> bool {
        self.msg_type == MSG_SYNC
            && self.is_csptp_profile()
            && self.count(TLV_CSPTP_RESPONSE) == 1
            && self.count(TLV_CSPTP_REQUEST) == 0
            && self.response_tlv().map(|(ts, _)| ts.nanos <= 1_000_000_000).unwrap_or(false)
    }

    pub fn is_follow_up(&self) -> bool {
        self.msg_type == MSG_FOLLOW_UP && self.is_csptp_profile()
    }
}

/// Structural parse of a Sync / Follow_Up datagram. `Err` = not a structurally valid PTP
/// Sync/Follow_Up (so certainly not a well-formed CSPTP message).
pub fn parse(b: &[u8]) -> Result<Parsed, Malformed> {
    if b.len() < 34 {
        return Err(Malformed::ShortHeader);
    }
    let msg_type = b[0] & 0x0f;
    if msg_type != MSG_SYNC && msg_type != MSG_FOLLOW_UP {
        return Err(Malformed::NotSyncOrFollowUp(msg_type));
    }
    let message_length = u16::from_be_bytes([b[2], b[3]]);
    let ml = message_length as usize;
    if ml < 34 || ml > b.len() {
        return Err(Malformed::LengthField);
    }
    if ml < 44 {
        return Err(Malformed::ShortBody);
    }
    // (a nanosecondsField >= 10^9 is kept here and judged by `body_ts.valid()`)
    let body_ts = Ts::read(&b[34..44]);
    let mut tlvs = vec![];
    let mut rest = &b[44..ml];
    while !rest.is_empty() {
        if rest.len() < 4 {
            return Err(Malformed::TlvLayout);
        }
        let ty = u16::from_be_bytes([rest[0], rest[1]]);
        let len = u16::from_be_bytes([rest[2], rest[3]]) as usize;
        // lengthField is even (§14.1.2) and the TLV lies inside the message
        if len % 2 != 0 || rest.len() < 4 + len {
            return Err(Malformed::TlvLayout);
        }
        tlvs.push(RawTlv {
            ty,
            value: rest[4..4 + len].to_vec(),
        });
        rest = &rest[4 + len..];
    }
    Ok(Parsed {
        msg_type,
        sdo_id: (((b[0] & 0xf0) as u16) << 4) | b[5] as u16,
        version_major: b[1] & 0x0f,
        version_minor: b[1] >> 4,
        message_length,
        domain: b[4],
        flags0: b[6],
        flags1: b[7],
        correction: i64::from_be_bytes(b[8..16].try_into().unwrap()),
        seq: u16::from_be_bytes([b[30], b[31]]),
        body_ts,
        tlvs,
    })
}

// ---------------------------------------------------------------------------
// raw builder
// ---------------------------------------------------------------------------

#[derive(Clone, Debug)]
pub struct Build {
    pub msg_type: u8,
    pub sdo_id: u16,
    pub version: u8,
    pub domain: u8,
    pub flags0: u8,
    pub flags1: u8,
    pub correction: i64,
    pub seq: u16,
    pub body_ts: Ts,
    pub tlvs: Vec<RawTlv>,
    /// override of the messageLength field (None = correct)
    pub length_override: Option<u16>,
}

impl Build {
    pub fn sync(domain: u8, seq: u16) -> Build {
        Build {
            msg_type: MSG_SYNC,
            sdo_id: 0x300,
            version: 0x12,
            domain,
            flags0: 0x04, // unicast
            flags1: 0,
            correction: 0,
            seq,
            body_ts: Ts::default(),
            tlvs: vec![],
            length_override: None,
        }
    }
    pub fn follow_up(domain: u8, seq: u16, ts: Ts) -> Build {
        Build {
            msg_type: MSG_FOLLOW_UP,
            flags0: 0x06,
            body_ts: ts,
            ..Build::sync(domain, seq)
        }
    }
    pub fn with_request_tlv(mut self, flags: u8) -> Build {
        self.tlvs.push(RawTlv {
            ty: TLV_CSPTP_REQUEST,
            value: vec![flags, 0, 0, 0],
        });
        self
    }
    pub fn with_response_tlv(mut self, ingress: Ts, req_correction: i64) -> Build {
        let mut v = vec![0u8; 18];
        ingress.write(&mut v[0..10]);
        v[10..18].copy_from_slice(&req_correction.to_be_bytes());
        self.tlvs.push(RawTlv {
            ty: TLV_CSPTP_RESPONSE,
            value: v,
        });
        self
    }
    pub fn with_status_tlv(mut self, s: &StatusTlv) -> Build {
        let mut v = vec![0u8; 18];
        v[0] = s.priority1;
        v[1] = s.clock_class;
        v[2] = s.clock_accuracy;
        v[3..5].copy_from_slice(&s.variance.to_be_bytes());
        v[5] = s.priority2;
        v[6..8].copy_from_slice(&s.steps_removed.to_be_bytes());
        v[8..10].copy_from_slice(&s.utc_offset.to_be_bytes());
        v[10..18].copy_from_slice(&s.gm_identity);
        self.tlvs.push(RawTlv {
            ty: TLV_CSPTP_STATUS,
            value: v,
        });
        self
    }
    pub fn with_tlv(mut self, ty: u16, value: Vec<u8>) -> Build {
        self.tlvs.push(RawTlv { ty, value });
        self
    }
    pub fn two_step(mut self, on: bool) -> Build {
        if on {
            self.flags0 |= 0x02
        } else {
            self.flags0 &= !0x02
        }
        self
    }

    pub fn bytes(&self) -> Vec<u8> {
        let mut b = vec![0u8; 44];
        b[0] = (((self.sdo_id >> 8) as u8) << 4) | (self.msg_type & 0x0f);
        b[1] = self.version;
        b[4] = self.domain;
        b[5] = (self.sdo_id & 0xff) as u8;
        b[6] = self.flags0;
        b[7] = self.flags1;
        b[8..16].copy_from_slice(&self.correction.to_be_bytes());
        b[30..32].copy_from_slice(&self.seq.to_be_bytes());
        b[32] = 0;
        b[33] = 0x7f;
        self.body_ts.write(&mut b[34..44]);
        for t in &self.tlvs {
            b.extend_from_slice(&t.ty.to_be_bytes());
            b.extend_from_slice(&(t.value.len() as u16).to_be_bytes());
            b.extend_from_slice(&t.value);
        }
        let len = self.length_override.unwrap_or(b.len() as u16);
        b[2..4].copy_from_slice(&len.to_be_bytes());
        b
    }
}

pub fn hex(b: &[u8]) -> String {
    let mut s = String::with_capacity(b.len() * 2);
    for x in b.iter().take(160) {
        use std::fmt::Write;
        let _ = write!(s, "{x:02x}");
    }
    if b.len() > 160 {
        s.push_str("..");
    }
    s
}
