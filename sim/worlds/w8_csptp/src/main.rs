//! W8 + W9 — CSPTP world (C44, C45) and GPSd world (C40) in one binary (DESIGN.md §4).

mod csptp;
mod gpsd;
mod ptpwire;

use simkit::batch::{cli_main, Level, Property, WorldDef};

fn run() {
    match simkit::focus() {
        "C40" => gpsd::run(),
        _ => csptp::run(),
    }
}

fn main() {
    if let Ok(h) = std::env::var("VSIM_W8_DECODE") {
        // debugging aid: show how statime-wire and the oracle's parser see a datagram
        let bytes: Vec<u8> = (0..h.len() / 2).map(|i| u8::from_str_radix(&h[2 * i..2 * i + 2], 16).unwrap()).collect();
        println!("statime-wire: {:?}", statime_wire::Message::deserialize(&bytes));
        println!("oracle: {:?}", ptpwire::parse(&bytes));
        return;
    }
    let p = |id, quick_runs, thorough_runs, event_cap, rule, assumptions| Property {
        id,
        level: Level::Exploration,
        quick_runs,
        thorough_runs,
        quick_wall_s: 45.0,
        thorough_wall_s: 600.0,
        event_cap,
        enumerate: None,
        rule,
        assumptions,
    };
    const CSPTP_ASSUME: &[&str] = &[
        "sockets (statime_netptp) are replaced by simulated ClientSocket / ServerSocket implementations on SimNet; the daemon's thin socket wrappers in ntpd/src/daemon/csptp_{source,server}.rs (timestamp unit conversion) are not executed",
        "all datagrams addressed to the client reach whichever request socket is currently open (one shared port), which is harsher than per-request ephemeral ports",
        "build has debug assertions and overflow checks on (the repo's release profile has both off): panics that only exist under those are reported with that caveat",
    ];
    cli_main(WorldDef {
        name: "w8",
        run,
        properties: vec![
            p(
                "C44",
                400_000,
                20_000_000,
                20_000,
                "one run = the real CsptpSource::run polling 3-40 times against the real server, a byzantine server or both over a faulty network; every measurement handed to the recording controller must be explained by datagrams with the current request's ids received for that request; any panic of run() is a violation",
                CSPTP_ASSUME,
            ),
            p(
                "C45",
                300_000,
                15_000_000,
                20_000,
                "one run = the real serve() loop fed by the real client and/or a fuzzing requester while the daemon state is rewritten; every send_event/send_general is judged against the datagram serve() received last, decoded by the oracle's own parser",
                CSPTP_ASSUME,
            ),
            p(
                "C40",
                300_000,
                15_000_000,
                5_000,
                "one run = the real SockSourceTask reading 10-200 simulated GPSd datagrams; each recorded measurement is attributed to the datagram being processed and judged by the oracle's own decoder of the 40-byte sample",
                &[
                    "tokio::net::UnixDatagram is replaced (hook H11) by a queue that mirrors recv(2) on AF_UNIX/SOCK_DGRAM: one datagram per call, silently cut to the caller's buffer length",
                    "the kernel clock is SimClock; the controller behind the real OneWaySourceControllerWrapper only records",
                    "build has debug assertions on (NtpDuration::from_seconds asserts finiteness there); with them off a non-finite offset becomes a garbage measurement instead of a task panic",
                ],
            ),
        ],
        real_components: &[
            "statime_csptp::CsptpSource::run (request loop, collect_response, add_correction, status update)",
            "statime_csptp::serve / handle_packet, CsptpMessage (de)serialisation and response / follow-up construction, CsptpManager",
            "statime_wire PTP codec",
            "ntpd::daemon::sock_source::SockSourceTask (spawn, create_socket, run, deserialize_sample, measurement construction)",
            "ntp_proto::OneWaySource, OneWaySourceControllerWrapper, TimeSyncControllerWrapper::run",
        ],
        stub_components: &[
            "statime_netptp sockets -> simulated ClientSocket/ServerSocket on SimNet with simulator-owned clocks",
            "ntpd csptp_source.rs / csptp_server.rs socket wrappers and task spawning -> not run",
            "tokio::net::UnixDatagram -> simulated datagram endpoint (H11)",
            "KalmanClockController -> recording InternalTimeSyncController (C40 only)",
        ],
    })
}
