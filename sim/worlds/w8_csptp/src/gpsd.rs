//! W9 — GPSd world (C40): the REAL `SockSourceTask` (ntpd/src/daemon/sock_source.rs,
//! started through its own `spawn`, including `create_socket`) reading simulated
//! unix datagrams through hook H11, feeding the real `OneWaySource` →
//! `OneWaySourceControllerWrapper` of a real `TimeSyncControllerWrapper` whose inner
//! controller only records. A simulated GPSd emits valid and broken samples; the
//! oracle classifies every datagram with its own decoder of the 40-byte layout.

use std::cell::RefCell;
use std::collections::HashMap;
use std::marker::PhantomData;
use std::path::PathBuf;
use std::sync::{Arc, RwLock};

use ntp_proto::verif::{
    dur_to_fixed, ts_to_fixed, InternalMeasurement, InternalSourceController, InternalStateUpdate, InternalTimeSyncController,
};
use ntp_proto::{
    ClockId, NtpClock, NtpDuration, ObservableSourceTimedata, OneWaySource, PollInterval, SourceConfig, SynchronizationConfig,
    TimeSyncController, TimeSyncControllerWrapper,
};
use ntpd::verif::sock;
use simkit::{chance, check, choose, ev, exec, fault, probe, weighted};
use simntp::SimClock;

const MAGIC: i32 = 0x534f_434b;
const SAMPLE_SIZE: usize = 40;

// ---------------------------------------------------------------------------
// recording controller
// ---------------------------------------------------------------------------

#[derive(Clone, Debug)]
struct Meas {
    /// index (1-based) of the socket item the task had consumed last when it reported this
    item: u64,
    offset_fixed: i64,
    localtime: u64,
}

thread_local! {
    static MEAS: RefCell<Vec<Meas>> = const { RefCell::new(Vec::new()) };
    static CTRL_MSGS: RefCell<u64> = const { RefCell::new(0) };
}

#[derive(Debug, Clone)]
pub struct RecMsg;

pub struct RecSrc<D>(PhantomData<D>);

impl<D: std::fmt::Debug + Copy + Clone + Send + 'static> InternalSourceController for RecSrc<D> {
    type ControllerMessage = ();
    type SourceMessage = RecMsg;
    type MeasurementDelay = D;

    fn handle_message(&mut self, _message: ()) {}

    fn handle_measurement(&mut self, m: InternalMeasurement<D>) -> Option<RecMsg> {
        let item = sock::consumed();
        let offset_fixed = dur_to_fixed(m.offset);
        let localtime = ts_to_fixed(m.localtime);
        ev!("measurement item={item} offset={offset_fixed} localtime={localtime} leap={:?}", m.leap);
        MEAS.with(|v| {
            v.borrow_mut().push(Meas {
                item,
                offset_fixed,
                localtime,
            })
        });
        Some(RecMsg)
    }

    fn desired_poll_interval(&self) -> PollInterval {
        PollInterval::from_byte(4)
    }

    fn observe(&self) -> ObservableSourceTimedata {
        ObservableSourceTimedata::default()
    }
}

pub struct Rec;

impl InternalTimeSyncController for Rec {
    type Clock = SimClock;
    type AlgorithmConfig = ();
    type ControllerMessage = ();
    type SourceMessage = RecMsg;
    type NtpSourceController = RecSrc<NtpDuration>;
    type OneWaySourceController = RecSrc<()>;

    fn new(_clock: SimClock, _s: SynchronizationConfig, _a: ()) -> Result<Self, <SimClock as NtpClock>::Error> {
        Ok(Rec)
    }
    fn take_control(&mut self) -> Result<(), <SimClock as NtpClock>::Error> {
        Ok(())
    }
    fn add_source(&mut self, _id: ClockId, _c: SourceConfig) -> RecSrc<NtpDuration> {
        RecSrc(PhantomData)
    }
    fn add_one_way_source(&mut self, id: ClockId, _c: SourceConfig, _n: f64, _a: f64, _p: Option<f64>) -> RecSrc<()> {
        ev!("ctl add_one_way_source {id}");
        RecSrc(PhantomData)
    }
    fn remove_source(&mut self, id: ClockId) {
        ev!("ctl remove_source {id}");
    }
    fn source_update(&mut self, id: ClockId, usable: bool) {
        ev!("ctl source_update {id} usable={usable}");
    }
    fn source_message(&mut self, _id: ClockId, _m: RecMsg) -> InternalStateUpdate<()> {
        CTRL_MSGS.with(|c| *c.borrow_mut() += 1);
        InternalStateUpdate::default()
    }
    fn time_update(&mut self) -> InternalStateUpdate<()> {
        InternalStateUpdate::default()
    }
}

// ---------------------------------------------------------------------------
// the oracle's own decoder of gpsd's `struct sock_sample`
// ---------------------------------------------------------------------------

#[derive(Debug, Clone, Copy, PartialEq)]
enum Verdict {
    Valid,
    WrongSize,
    WrongMagic,
    PulseSet,
    NonFinite,
}

/// struct sock_sample { struct timeval tv (16 bytes); double offset; int pulse; int leap; int _pad; int magic; }
/// all little endian on the platforms the daemon supports.
fn classify(d: &[u8]) -> (Verdict, f64) {
    if d.len() != SAMPLE_SIZE {
        return (Verdict::WrongSize, 0.0);
    }
    let offset = f64::from_le_bytes(d[16..24].try_into().unwrap());
    let pulse = i32::from_le_bytes(d[24..28].try_into().unwrap());
    let magic = i32::from_le_bytes(d[36..40].try_into().unwrap());
    if magic != MAGIC {
        return (Verdict::WrongMagic, offset);
    }
    if pulse != 0 {
        return (Verdict::PulseSet, offset);
    }
    if !offset.is_finite() {
        return (Verdict::NonFinite, offset);
    }
    (Verdict::Valid, offset)
}

fn sample(tv_sec: i64, tv_usec: i64, offset: f64, pulse: i32, leap: i32, pad: i32, magic: i32) -> Vec<u8> {
    let mut b = Vec::with_capacity(40);
    b.extend_from_slice(&tv_sec.to_le_bytes());
    b.extend_from_slice(&tv_usec.to_le_bytes());
    b.extend_from_slice(&offset.to_le_bytes());
    b.extend_from_slice(&pulse.to_le_bytes());
    b.extend_from_slice(&leap.to_le_bytes());
    b.extend_from_slice(&pad.to_le_bytes());
    b.extend_from_slice(&magic.to_le_bytes());
    b
}

fn hex(b: &[u8]) -> String {
    b.iter().map(|x| format!("{x:02x}")).collect()
}

enum Sent {
    Datagram(Vec<u8>),
    Error,
}

struct GpsdCfg {
    nonfinite: bool,
    oversize_valid_prefix: bool,
    damage: bool,
    errors: bool,
}

fn finite_offset() -> f64 {
    match weighted("gps.off.kind", &[6, 2, 2, 1, 1, 1]) {
        0 => simkit::uniform("gps.off.u", -0.5, 0.5),
        1 => [0.0, -0.0, 1e-9, -1e-9, 318975.704798661, -86400.0][choose("gps.off.fixed", 6) as usize],
        2 => simkit::uniform("gps.off.big", -2.0e9, 2.0e9),
        // saturating range of NtpDuration (|seconds| >= 2^31) and far beyond
        3 => [2147483648.0, -2147483649.0, 4294967296.0, 1e300, -1e300, f64::MAX, f64::MIN][choose("gps.off.huge", 7) as usize],
        // subnormals and the smallest normals
        4 => [5e-324, -5e-324, 2.2250738585072014e-308, -2.2250738585072009e-308, 1e-310][choose("gps.off.sub", 5) as usize],
        _ => f64::from_bits(simkit::choose_u64("gps.off.bits")),
    }
}

fn next_datagram(cfg: &GpsdCfg, tv_sec: i64) -> Sent {
    let leap = [0, 1, 2, 3, -1, i32::MAX][weighted("gps.leap", &[6, 1, 1, 1, 1, 1])];
    let usec = choose("gps.usec", 1_000_000) as i64;
    let valid = |off: f64| sample(tv_sec, usec, if off.is_finite() { off } else { 0.25 }, 0, leap, 0, MAGIC);
    let kind = weighted("gps.kind", &[10, 3, 2, 2, if cfg.nonfinite { 3 } else { 0 }, if cfg.damage { 3 } else { 0 }, 1, if cfg.errors { 1 } else { 0 }]);
    match kind {
        0 => Sent::Datagram(valid(finite_offset())),
        1 => {
            fault("gpsd-wrong-size");
            // 0..=80 bytes, never 40
            let mut len = choose("gps.len", 80) as usize;
            if len >= 40 {
                len += 1;
            }
            let base = valid(finite_offset());
            let mut d: Vec<u8> = match choose("gps.len.fill", 3) {
                // a valid sample cut short / followed by more bytes (second sample glued on, zeros, noise)
                0 => base.iter().copied().chain(base.iter().copied()).chain(std::iter::repeat(0)).take(len).collect(),
                1 => {
                    let mut r = simkit::sub_rng("gps.len.noise");
                    (0..len).map(|i| if i < 40 { base[i] } else { r.next_u64() as u8 }).collect()
                }
                _ => {
                    let mut r = simkit::sub_rng("gps.len.rand");
                    (0..len).map(|_| r.next_u64() as u8).collect()
                }
            };
            if len > 40 && !cfg.oversize_valid_prefix {
                // make the first 40 bytes themselves invalid so only the size clause is at stake
                d[36] ^= 0xff;
            }
            Sent::Datagram(d)
        }
        2 => {
            fault("gpsd-wrong-magic");
            let m = match choose("gps.magic", 5) {
                0 => MAGIC ^ (1 << choose("gps.magic.bit", 32)),
                1 => 0,
                2 => MAGIC.swap_bytes(),
                3 => -1,
                _ => simkit::choose_u64("gps.magic.rnd") as i32,
            };
            let m = if m == MAGIC { 1 } else { m };
            Sent::Datagram(sample(tv_sec, usec, finite_offset(), 0, leap, 0, m))
        }
        3 => {
            fault("gpsd-pulse");
            let p = [1, -1, i32::MAX, i32::MIN, 256, 1 << 24][choose("gps.pulse", 6) as usize];
            Sent::Datagram(sample(tv_sec, usec, finite_offset(), p, leap, 0, MAGIC))
        }
        4 => {
            fault("gpsd-nonfinite");
            let off = match choose("gps.nonfinite", 6) {
                0 => f64::NAN,
                1 => f64::INFINITY,
                2 => f64::NEG_INFINITY,
                3 => f64::from_bits(0x7ff0_0000_0000_0001), // signalling NaN
                4 => f64::from_bits(0xfff8_0000_0000_0000), // negative quiet NaN
                _ => f64::from_bits(0x7ff0_0000_0000_0000 | (simkit::choose_u64("gps.nan.payload") & 0x000f_ffff_ffff_ffff)),
            };
            Sent::Datagram(sample(tv_sec, usec, off, 0, leap, 0, MAGIC))
        }
        5 => {
            fault("gpsd-bitflip");
            let mut d = valid(finite_offset());
            for _ in 0..1 + choose("gps.flip.n", 3) {
                let pos = choose("gps.flip.pos", 40) as usize;
                d[pos] ^= 1 << choose("gps.flip.bit", 8);
            }
            Sent::Datagram(d)
        }
        6 => {
            fault("gpsd-random-40");
            let mut r = simkit::sub_rng("gps.rand40");
            let mut d: Vec<u8> = (0..40).map(|_| r.next_u64() as u8).collect();
            if chance("gps.rand40.magic", 0.5) {
                d[36..40].copy_from_slice(&MAGIC.to_le_bytes());
            }
            Sent::Datagram(d)
        }
        _ => {
            fault("gpsd-recv-error");
            Sent::Error
        }
    }
}

pub fn run() {
    simntp::reset_hooks();
    sock::reset();
    MEAS.with(|v| v.borrow_mut().clear());
    CTRL_MSGS.with(|c| *c.borrow_mut() = 0);

    let clean = !chance("cfg.faulty", 0.75);
    let cfg = GpsdCfg {
        nonfinite: !clean && chance("cfg.nonfinite", 0.35),
        oversize_valid_prefix: !clean && chance("cfg.oversize-valid", 0.35),
        damage: !clean,
        errors: !clean && chance("cfg.recv-errors", 0.5),
    };
    let n = 10 + choose("cfg.n", 190);
    let epoch: u64 = match weighted("cfg.epoch", &[5, 1, 1]) {
        0 => 0xE000_0000u64 << 32,
        1 => u64::MAX - (30u64 << 32),
        _ => 5u64 << 32,
    };
    ev!("cfg n={n} clean={clean} nonfinite={} oversize_valid={} errors={}", cfg.nonfinite, cfg.oversize_valid_prefix, cfg.errors);

    // what was sent, in order (index i ↔ socket item i+1)
    let sent: Arc<std::sync::Mutex<Vec<Sent>>> = Arc::new(std::sync::Mutex::new(Vec::new()));
    let panic_msg: Arc<std::sync::Mutex<Option<(String, u64)>>> = Arc::new(std::sync::Mutex::new(None));
    let sent2 = sent.clone();
    let panic2 = panic_msg.clone();

    exec::block_on(async move {
        let clock = SimClock::new("client", epoch, 0.0, 0.0);
        let ctrl: Arc<TimeSyncControllerWrapper<Rec>> =
            Arc::new(TimeSyncControllerWrapper::<Rec>::new(clock.clone(), SynchronizationConfig::default(), ()).expect("controller"));
        let c2 = ctrl.clone();
        exec::spawn("controller", async move { c2.run().await });
        let id = ClockId::new();
        let source = OneWaySource::new(ctrl.add_one_way_source(id, SourceConfig::default(), 0.001, 1e-3, None));
        let (tx, _rx) = tokio::sync::mpsc::channel(1);
        let channels = sock::SourceChannels {
            msg_for_system_sender: tx,
            source_snapshots: Arc::new(RwLock::new(HashMap::new())),
        };
        let snapshots = channels.source_snapshots.clone();
        // the real spawn(): create_socket (exists/remove on a path that does not exist, then bind) + tokio::spawn(run)
        let mut handle = sock::spawn_sock_source(id, PathBuf::from("/nonexistent-verif-sim/gpsd.sock"), clock.clone(), channels, source);
        if sock::bound_paths().len() != 1 {
            simkit::abort("SockSourceTask::spawn did not bind the simulated socket exactly once".into());
        }

        let mut pushed: u64 = 0;
        let mut i = 0;
        let mut dead = false;
        while i < n && !simkit::out_of_budget() && !dead {
            // GPSd sends once a second, sometimes in bursts (several datagrams queued before the task runs)
            let burst = if clean { 1 } else { 1 + weighted("gps.burst", &[8, 2, 1, 1]) as u64 };
            for _ in 0..burst {
                let tv_sec = 1_700_000_000 + (simkit::now_ns() / 1_000_000_000) as i64;
                let s = next_datagram(&cfg, tv_sec);
                match &s {
                    Sent::Datagram(d) => {
                        let (v, off) = classify(d);
                        ev!("gpsd send #{} len={} verdict={v:?} offset={off:e} bytes={}", pushed + 1, d.len(), hex(d));
                        sock::push_datagram(d.clone());
                    }
                    Sent::Error => {
                        ev!("gpsd recv-error #{}", pushed + 1);
                        sock::push_error(std::io::ErrorKind::ConnectionReset);
                    }
                }
                sent2.lock().unwrap().push(s);
                pushed += 1;
                i += 1;
            }
            // let the task (a tokio::spawn'ed future) consume them
            let mut spins = 0;
            while sock::consumed() < pushed {
                exec::sleep_ns(1_000).await;
                spins += 1;
                if handle.is_finished() {
                    dead = true;
                    break;
                }
                if spins > 1000 {
                    simkit::abort(format!("sock task did not consume datagram {pushed} (stuck)"));
                    dead = true;
                    break;
                }
            }
            if !dead {
                // one more turn so that processing of the last item completes
                exec::sleep_ns(1_000).await;
                if handle.is_finished() {
                    dead = true;
                }
            }
            if !dead {
                let gap = [1_000_000_000u64, 1_000_000, 16_000_000_000][weighted("gps.gap", &[6, 2, 1])];
                exec::sleep_ns(gap).await;
            }
        }
        if dead || handle.is_finished() {
            match (&mut handle).await {
                Err(e) if e.is_panic() => {
                    let msg = exec::take_panic_message();
                    ev!("crash task=sock-source msg={msg}");
                    *panic2.lock().unwrap() = Some((msg, sock::consumed()));
                }
                other => simkit::abort(format!("sock task ended unexpectedly: {other:?}")),
            }
        } else {
            handle.abort();
            probe("task-alive-at-end");
            // the snapshot map is what the observer publishes: must exist iff something was measured
            let have = snapshots.read().unwrap().contains_key(&id);
            let any = MEAS.with(|v| !v.borrow().is_empty());
            if have != any {
                simkit::abort(format!("snapshot published={have} but measurements recorded={any}"));
            }
        }
    });

    // ---- history check -----------------------------------------------------
    let sent = sent.lock().unwrap();
    let meas = MEAS.with(|v| v.borrow().clone());
    let consumed = sock::consumed();
    let panic_at = panic_msg.lock().unwrap().clone();
    for (k, s) in sent.iter().enumerate() {
        let item = k as u64 + 1;
        if item > consumed {
            break;
        }
        let got: Vec<&Meas> = meas.iter().filter(|m| m.item == item).collect();
        match s {
            Sent::Error => {
                check!("C40", "measurement-from-recv-error", got.is_empty(), "a failed recv (item {item}) produced {} measurement(s)", got.len());
            }
            Sent::Datagram(d) => {
                let (v, off) = classify(d);
                let detail = || format!("datagram #{item} len={} bytes={} (decoded offset={off:e} bits={:#018x})", d.len(), hex(d), off.to_bits());
                match v {
                    Verdict::Valid => {
                        simkit::oracle("C40");
                        if got.len() == 1 {
                            probe("valid-sample-measured");
                            // conversion sanity (sign-agnostic): |offset| carried over while it is representable
                            if off.abs() < 1.0e9 {
                                let want = (off.abs() * 4294967296.0) as i128;
                                let have = (got[0].offset_fixed as i128).abs();
                                check!(
                                    "C40",
                                    "measurement-offset-matches-sample",
                                    (want - have).abs() <= 16 + (want >> 40),
                                    "{}: measurement offset {} (2^-32 s) does not match the sample's offset",
                                    detail(),
                                    got[0].offset_fixed
                                );
                            } else {
                                probe("valid-sample-saturating-offset");
                            }
                        } else if got.is_empty() {
                            let killed = panic_at.as_ref().map(|(_, at)| *at == item).unwrap_or(false);
                            if !killed {
                                probe("valid-sample-not-measured");
                            }
                        }
                        check!("C40", "one-measurement-per-datagram", got.len() <= 1, "{}: {} measurements", detail(), got.len());
                    }
                    Verdict::WrongSize if d.len() > SAMPLE_SIZE => {
                        let (v40, off40) = classify(&d[..SAMPLE_SIZE]);
                        check!(
                            "C40",
                            "measurement-from-oversize-datagram",
                            got.is_empty(),
                            "{} became a measurement although it is {} bytes long, not 40 (its first 40 bytes alone decode as {v40:?}, offset {off40:e})",
                            detail(),
                            d.len()
                        );
                    }
                    Verdict::WrongSize => {
                        check!("C40", "measurement-from-short-datagram", got.is_empty(), "{} became a measurement although it is shorter than 40 bytes", detail());
                    }
                    Verdict::WrongMagic => {
                        check!("C40", "measurement-from-wrong-magic", got.is_empty(), "{} became a measurement although the magic number is wrong", detail());
                    }
                    Verdict::PulseSet => {
                        check!("C40", "measurement-from-pulse-sample", got.is_empty(), "{} became a measurement although pulse != 0", detail());
                    }
                    Verdict::NonFinite => {
                        probe("nonfinite-offset-sent");
                        check!("C40", "measurement-from-nonfinite-offset", got.is_empty(), "{} became a measurement although the offset is not finite", detail());
                    }
                }
            }
        }
    }
    if let Some((msg, at)) = panic_at {
        let what = match sent.get(at.saturating_sub(1) as usize) {
            Some(Sent::Datagram(d)) => {
                let (v, off) = classify(d);
                format!("datagram #{at} len={} verdict={v:?} offset={off:e} bits={:#018x} bytes={}", d.len(), off.to_bits(), hex(d))
            }
            Some(Sent::Error) => format!("recv error #{at}"),
            None => "no datagram".to_string(),
        };
        simkit::violation("C40", "sock-task-panic", format!("SockSourceTask panicked while handling {what}: {msg}"));
    } else {
        simkit::oracle("C40");
    }
    for (task, msg) in exec::crashes() {
        simkit::abort(format!("harness task {task} crashed: {msg}"));
    }
    ntp_proto::verif::clear();
}
