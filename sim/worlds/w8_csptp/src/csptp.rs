//! W8 — CSPTP world (C44, C45): the REAL `CsptpSource::run` and the REAL
//! `statime_csptp::serve` as multiplexer tasks, talking through simulated
//! sockets on top of `SimNet`, with simulator-owned clocks (reception / send
//! timestamps are ground truth), an injected seeded rng, `tokio::time::sleep`
//! on the paused clock, send failures, shutdowns, a byzantine server that
//! hand-builds PTP messages byte by byte, a fuzzing requester for the server and
//! a "rest of the daemon" task that puts the server's `InternalState` into
//! arbitrary states through hook H13.

use std::cell::RefCell;
use std::collections::VecDeque;
use std::future::poll_fn;
use std::rc::Rc;
use std::task::{Poll, Waker};
use std::time::Duration;

use ntp_proto::verif::ts_to_fixed;
use ntp_proto::{ClockId, Measurement, NtpLeapIndicator, ObservableSourceTimedata, PollInterval, SourceController, SourceType};
use simkit::net::{NetCfg, SimNet};
use simkit::{chance, check, choose, ev, exec, fault, probe, weighted};
use statime_csptp::{
    ClientRecvResult, ClientSocket, CsptpConfig, CsptpManager, CsptpSource, CsptpSourceConfig, CsptpState, InternalState,
    ServerRecvResult, ServerSocket,
};
use statime_wire::{ClockAccuracy, ClockIdentity, ClockQuality, Timestamp};
use tokio::sync::Notify;

use crate::ptpwire::{self as pw, hex, Build, Parsed, StatusTlv, Ts};

const CLIENT: u32 = 1;
const SERVER: u32 = 2;
const BYZ: u32 = 3;
const FUZZ: u32 = 4;

const MAX_MESSAGE_SIZE: usize = 512;

#[derive(Clone, Copy, Debug, PartialEq)]
enum Port {
    Event,
    General,
}

#[derive(Clone, Debug)]
struct Meta {
    port: Port,
    /// which of the server's local addresses the datagram was sent to
    ifc: u8,
}

#[derive(Clone, Copy, Debug, PartialEq, Eq)]
pub struct Addr {
    node: u32,
    ifc: u8,
}

#[derive(Debug)]
pub struct SimIoError(&'static str);

fn to_wire(ts: Ts) -> Timestamp {
    Timestamp::new(ts.secs, ts.nanos).expect("simulated clocks produce legal timestamps")
}

fn from_wire(ts: Timestamp) -> Ts {
    Ts {
        secs: ts.seconds(),
        nanos: ts.nanos(),
    }
}

// ---------------------------------------------------------------------------
// oracle state
// ---------------------------------------------------------------------------

struct Rx {
    parsed: Option<Parsed>,
    rx_ts: Option<Ts>,
}

struct Req {
    idx: u64,
    domain: u8,
    seq: u16,
    sent_ok: bool,
    send_ts: Option<Ts>,
    received: Vec<Rx>,
    out_half: Option<Measurement>,
    in_half: Option<Measurement>,
    /// status TLVs of the (sync) candidates that explain the measurement
    explaining_status: Vec<StatusTlv>,
}

#[derive(Default)]
struct C44 {
    cur: Option<Req>,
    nreq: u64,
    nmeas: u64,
    local: Option<ClockId>,
    remote: Option<ClockId>,
    last_state: Option<CsptpState>,
}

struct InReq {
    idx: u64,
    bytes: Vec<u8>,
    parsed: Result<Parsed, pw::Malformed>,
    rx_ts: Ts,
    remote: Addr,
    local: Addr,
    answers: u32,
    answer_two_step: bool,
    /// what send_event returned for the answer
    sent: Option<Result<Ts, ()>>,
    followups: u32,
}

#[derive(Default)]
struct C45 {
    cur: Option<InReq>,
    nin: u64,
    nanswers: u64,
}

// ---------------------------------------------------------------------------
// world
// ---------------------------------------------------------------------------

enum CliItem {
    Data { bytes: Vec<u8>, rx_ts: Option<Ts> },
    Err,
}

enum SrvItem {
    Data { bytes: Vec<u8>, from: Addr, local: Addr, rx_ts: Ts },
    Err,
}

struct Faults {
    cli_send_fail: f64,
    cli_send_fail_after: f64,
    cli_recv_err: f64,
    cli_no_ts: f64,
    cli_send_delay: u64,
    srv_send_fail: f64,
    srv_general_fail: f64,
    srv_recv_err: f64,
    srv_send_delay: u64,
    fuzz_reflect: f64,
}

struct W {
    net: SimNet<Meta>,
    notify: Rc<Notify>,
    client_epoch: u128,
    server_epoch: u128,
    f: Faults,
    // client socket
    sock_seq: u64,
    cli_open: Option<u64>,
    cli_inbox: VecDeque<CliItem>,
    cli_waker: Option<Waker>,
    cli_target: u32,
    tap_to_byz: bool,
    // server socket
    srv_inbox: VecDeque<SrvItem>,
    srv_waker: Option<Waker>,
    srv_shutdown: Rc<Notify>,
    srv_shutdown_on_answer: bool,
    // byzantine server
    byz_inbox: VecDeque<Vec<u8>>,
    byz_waker: Option<Waker>,
    // captured server output (for reflection / replay by the fuzzer)
    captured: Vec<Vec<u8>>,
    fuzz_done: bool,
    c44: C44,
    c45: C45,
}

type Wr = Rc<RefCell<W>>;

thread_local! {
    static CUR: RefCell<Option<Wr>> = const { RefCell::new(None) };
}

fn now() -> u64 {
    exec::elapsed_ns()
}

fn client_clock(w: &W) -> Ts {
    Ts::from_ns(w.client_epoch + now() as u128)
}

fn server_clock(w: &W) -> Ts {
    Ts::from_ns(w.server_epoch + now() as u128)
}

/// Hand a datagram to the network `extra` ns from now.
fn net_send(w: &Wr, from: u32, to: u32, bytes: Vec<u8>, meta: Meta, extra: u64) {
    let mut g = w.borrow_mut();
    let t = now() + extra;
    g.net.send(t, from, to, bytes, meta);
    g.notify.notify_one();
}

fn deliver(w: &Wr, d: simkit::net::Datagram<Meta>) {
    let mut g = w.borrow_mut();
    let mutated = d.mutation.is_some();
    match d.to {
        CLIENT => {
            if g.cli_open.is_none() {
                ev!("net -> client dropped (no open socket) len={}", d.bytes.len());
                return;
            }
            if chance("cli.recv-err", g.f.cli_recv_err) {
                fault("client-recv-error");
                g.cli_inbox.push_back(CliItem::Err);
            }
            let rx_ts = match d.meta.port {
                Port::Event => {
                    if chance("cli.no-rx-ts", g.f.cli_no_ts) {
                        fault("client-missing-rx-timestamp");
                        None
                    } else {
                        Some(client_clock(&g))
                    }
                }
                Port::General => None,
            };
            ev!(
                "net -> client from={} port={:?} len={} mutated={mutated} dup={} rx_ts={}",
                d.from,
                d.meta.port,
                d.bytes.len(),
                d.duplicate,
                rx_ts.map(|t| t.to_string()).unwrap_or_else(|| "-".into())
            );
            g.cli_inbox.push_back(CliItem::Data { bytes: d.bytes, rx_ts });
            if let Some(wk) = g.cli_waker.take() {
                wk.wake();
            }
        }
        SERVER => {
            if d.meta.port == Port::General {
                // the daemon's socket wrapper skips datagrams without a receive timestamp
                ev!("net -> server general-port datagram skipped len={}", d.bytes.len());
                return;
            }
            if chance("srv.recv-err", g.f.srv_recv_err) {
                fault("server-recv-error");
                g.srv_inbox.push_back(SrvItem::Err);
            }
            let rx_ts = server_clock(&g);
            ev!("net -> server from={} ifc={} len={} mutated={mutated} dup={} rx_ts={rx_ts}", d.from, d.meta.ifc, d.bytes.len(), d.duplicate);
            g.srv_inbox.push_back(SrvItem::Data {
                bytes: d.bytes,
                from: Addr { node: d.from, ifc: 0 },
                local: Addr { node: SERVER, ifc: d.meta.ifc },
                rx_ts,
            });
            if let Some(wk) = g.srv_waker.take() {
                wk.wake();
            }
        }
        BYZ => {
            g.byz_inbox.push_back(d.bytes);
            if let Some(wk) = g.byz_waker.take() {
                wk.wake();
            }
        }
        _ => {
            // the fuzzing requester: sometimes throws the server's own answers back at it
            let p = g.f.fuzz_reflect;
            drop(g);
            if chance("fuzz.reflect", p) {
                fault("answer-reflected-to-server");
                net_send(w, FUZZ, SERVER, d.bytes, Meta { port: Port::Event, ifc: 0 }, 0);
            }
        }
    }
}

async fn pump(w: Wr) {
    let notify = w.borrow().notify.clone();
    loop {
        loop {
            let d = w.borrow_mut().net.pop_due(now());
            match d {
                Some((_, d)) => deliver(&w, d),
                None => break,
            }
        }
        let next = w.borrow().net.next_time();
        match next {
            None => notify.notified().await,
            Some(t) => {
                let dt = t.saturating_sub(now());
                if dt > 0 {
                    tokio::select! {
                        biased;
                        _ = notify.notified() => {}
                        _ = tokio::time::sleep(Duration::from_nanos(dt)) => {}
                    }
                }
            }
        }
    }
}

// ---------------------------------------------------------------------------
// client socket (what CsptpSource::run sees)
// ---------------------------------------------------------------------------

struct CliSock {
    w: Wr,
    id: u64,
}

fn open_client_socket(w: &Wr) -> CliSock {
    let mut g = w.borrow_mut();
    g.sock_seq += 1;
    let id = g.sock_seq;
    g.cli_open = Some(id);
    g.cli_inbox.clear();
    ev!("client socket {id} opened");
    CliSock { w: w.clone(), id }
}

impl Drop for CliSock {
    fn drop(&mut self) {
        if let Ok(mut g) = self.w.try_borrow_mut() {
            if g.cli_open == Some(self.id) {
                g.cli_open = None;
                g.cli_inbox.clear();
            }
        }
        if simkit::in_run() {
            ev!("client socket {} closed", self.id);
        }
    }
}

impl ClientSocket for CliSock {
    type Error = SimIoError;

    async fn recv(&mut self, buf: &mut [u8]) -> Result<ClientRecvResult, SimIoError> {
        let item = poll_fn(|cx| {
            let mut g = self.w.borrow_mut();
            if g.cli_open != Some(self.id) {
                return Poll::Pending;
            }
            match g.cli_inbox.pop_front() {
                Some(i) => Poll::Ready(i),
                None => {
                    g.cli_waker = Some(cx.waker().clone());
                    Poll::Pending
                }
            }
        })
        .await;
        match item {
            CliItem::Err => {
                ev!("client recv -> error");
                Err(SimIoError("simulated recv error"))
            }
            CliItem::Data { bytes, rx_ts } => {
                let n = bytes.len().min(buf.len());
                buf[..n].copy_from_slice(&bytes[..n]);
                let parsed = pw::parse(&bytes[..n]).ok();
                match &parsed {
                    Some(p) => ev!(
                        "client recv len={n} type={} dom={} seq={} two_step={} corr={} body_ts={} resp={:?} status={:?} rx_ts={:?} bytes={}",
                        p.msg_type,
                        p.domain,
                        p.seq,
                        p.two_step(),
                        p.correction,
                        p.body_ts,
                        p.response_tlv(),
                        p.status_tlv().map(|s| s.steps_removed),
                        rx_ts,
                        hex(&bytes[..n])
                    ),
                    None => ev!("client recv len={n} unparsable bytes={}", hex(&bytes[..n])),
                }
                let mut g = self.w.borrow_mut();
                if let Some(r) = g.c44.cur.as_mut() {
                    r.received.push(Rx { parsed, rx_ts });
                }
                Ok(ClientRecvResult {
                    bytes_read: n,
                    timestamp: rx_ts.map(to_wire),
                })
            }
        }
    }

    async fn send_event(&mut self, buf: &[u8]) -> Result<Timestamp, SimIoError> {
        let (ts, fail_before, fail_after, delay, target, tap) = {
            let mut g = self.w.borrow_mut();
            check_status_update(&mut g);
            let ts = client_clock(&g);
            let p = pw::parse(buf);
            let (domain, seq) = match &p {
                Ok(p) if p.is_wellformed_request() => (p.domain, p.seq),
                _ => {
                    simkit::abort(format!("client sent something that is not a well-formed CSPTP request: {}", hex(buf)));
                    (0, 0)
                }
            };
            g.c44.nreq += 1;
            let idx = g.c44.nreq;
            g.c44.cur = Some(Req {
                idx,
                domain,
                seq,
                sent_ok: false,
                send_ts: None,
                received: vec![],
                out_half: None,
                in_half: None,
                explaining_status: vec![],
            });
            let fail_before = chance("cli.send-fail", g.f.cli_send_fail);
            let fail_after = !fail_before && chance("cli.send-fail-after", g.f.cli_send_fail_after);
            let delay = if g.f.cli_send_delay > 0 { choose("cli.send-delay", g.f.cli_send_delay + 1) } else { 0 };
            ev!("client send_event req#{idx} dom={domain} seq={seq} ts={ts} fail_before={fail_before} fail_after={fail_after}");
            (ts, fail_before, fail_after, delay, g.cli_target, g.tap_to_byz)
        };
        if fail_before {
            fault("client-send-failure");
            return Err(SimIoError("simulated send failure"));
        }
        net_send(&self.w, CLIENT, target, buf.to_vec(), Meta { port: Port::Event, ifc: choose("cli.ifc", 2) as u8 }, 0);
        if tap {
            let mut g = self.w.borrow_mut();
            g.byz_inbox.push_back(buf.to_vec());
            if let Some(wk) = g.byz_waker.take() {
                wk.wake();
            }
        }
        if delay > 0 {
            // waiting for the transmit timestamp takes a moment; answers may already arrive meanwhile
            fault("client-tx-timestamp-delay");
            exec::sleep_ns(delay).await;
        }
        if fail_after {
            fault("client-missing-tx-timestamp");
            return Err(SimIoError("missing send timestamp"));
        }
        let mut g = self.w.borrow_mut();
        if let Some(r) = g.c44.cur.as_mut() {
            r.sent_ok = true;
            r.send_ts = Some(ts);
        }
        Ok(to_wire(ts))
    }
}

// ---------------------------------------------------------------------------
// C44 oracle
// ---------------------------------------------------------------------------

const NTP_OFFSET: i128 = (70 * 365 + 17) * 86400 - 37;

/// Independent model of "PTP timestamp + correctionField (2^-16 ns) as 32.32 NTP era time".
fn ntp_fixed(ts: Ts, corr_scaled: i128) -> u64 {
    let ns: i128 = ts.secs as i128 * 1_000_000_000 + ts.nanos as i128 + (corr_scaled >> 16);
    let secs = ns.div_euclid(1_000_000_000);
    let nanos = ns.rem_euclid(1_000_000_000) as u64;
    let ntp_secs = (secs + NTP_OFFSET).rem_euclid(1 << 32) as u64;
    (ntp_secs << 32).wrapping_add((nanos << 32) / 1_000_000_000)
}

fn close(a: u64, b: u64) -> bool {
    (a.wrapping_sub(b) as i64).unsigned_abs() <= 16
}

fn sat(a: i64, b: i64) -> i128 {
    a.saturating_add(b) as i128
}

struct RecCtl;

impl SourceController for RecCtl {
    fn handle_measurement(&mut self, m: Measurement) {
        let w = CUR.with(|c| c.borrow().clone()).expect("w8 context");
        let mut g = w.borrow_mut();
        on_measurement(&mut g, m);
    }
    fn set_usable(&mut self, usable: bool) {
        ev!("ctl set_usable {usable}");
    }
    fn desired_poll_interval(&self) -> PollInterval {
        PollInterval::from_byte(4)
    }
    fn observe(&self) -> ObservableSourceTimedata {
        ObservableSourceTimedata::default()
    }
}

fn on_measurement(g: &mut W, m: Measurement) {
    let local = g.c44.local.expect("ids");
    let remote = g.c44.remote.expect("ids");
    let outgoing = m.sender_id == local && m.receiver_id == remote;
    let incoming = m.sender_id == remote && m.receiver_id == local;
    ev!(
        "ctl measurement {} sender_ts={} receiver_ts={} leap={:?}",
        if outgoing { "out" } else if incoming { "in" } else { "??" },
        ts_to_fixed(m.sender_ts),
        ts_to_fixed(m.receiver_ts),
        m.leap
    );
    check!("C44", "measurement-has-source-ids", outgoing || incoming, "measurement with ids {} -> {}", m.sender_id, m.receiver_id);
    let Some(req) = g.c44.cur.as_mut() else {
        simkit::violation("C44", "measurement-without-request", "measurement handed over before any request was sent".into());
        return;
    };
    check!(
        "C44",
        "measurement-without-sent-request",
        req.sent_ok,
        "req#{} (seq {}) was never sent successfully, yet a measurement was produced",
        req.idx,
        req.seq
    );
    if outgoing {
        check!("C44", "at-most-one-measurement-per-request", req.out_half.is_none(), "req#{} seq {}: second outgoing half", req.idx, req.seq);
        req.out_half = Some(m);
        return;
    }
    if !incoming {
        return;
    }
    check!("C44", "at-most-one-measurement-per-request", req.in_half.is_none(), "req#{} seq {}: second measurement", req.idx, req.seq);
    req.in_half = Some(m);
    g.c44.nmeas += 1;
    let Some(out) = req.out_half else {
        simkit::violation("C44", "measurement-halves-unpaired", format!("req#{} seq {}: incoming half without its outgoing half", req.idx, req.seq));
        return;
    };
    let Some(send_ts) = req.send_ts else { return };

    // Which received datagrams explain this measurement?
    let syncs: Vec<(&Parsed, Ts)> = req
        .received
        .iter()
        .filter_map(|r| match (&r.parsed, r.rx_ts) {
            (Some(p), Some(rx)) if p.msg_type == pw::MSG_SYNC && p.domain == req.domain && p.seq == req.seq && p.response_tlv().is_some() => Some((p, rx)),
            _ => None,
        })
        .collect();
    let fups: Vec<&Parsed> = req
        .received
        .iter()
        .filter_map(|r| r.parsed.as_ref())
        .filter(|p| p.msg_type == pw::MSG_FOLLOW_UP && p.domain == req.domain && p.seq == req.seq)
        .collect();
    let (o_s, o_r, i_s, i_r) = (ts_to_fixed(out.sender_ts), ts_to_fixed(out.receiver_ts), ts_to_fixed(m.sender_ts), ts_to_fixed(m.receiver_ts));
    let mut explained = false;
    let mut status = vec![];
    for (s, rx) in &syncs {
        let (ingress, req_corr) = s.response_tlv().unwrap();
        let t1 = ntp_fixed(send_ts, req_corr as i128);
        let t2 = ntp_fixed(ingress, 0);
        let t4 = ntp_fixed(*rx, 0);
        if !(close(o_s, t1) && close(o_r, t2) && close(i_r, t4)) {
            continue;
        }
        let mut t3s = vec![];
        if s.two_step() {
            for f in &fups {
                t3s.push(ntp_fixed(f.body_ts, s.correction as i128 + f.correction as i128));
                t3s.push(ntp_fixed(f.body_ts, sat(s.correction, f.correction)));
            }
        } else {
            t3s.push(ntp_fixed(s.body_ts, s.correction as i128));
        }
        if t3s.iter().any(|t3| close(i_s, *t3)) {
            explained = true;
            status.extend(s.status_tlvs());
        }
    }
    if syncs.len() > 1 {
        probe("several-matching-responses");
    }
    check!(
        "C44",
        "measurement-from-matching-response",
        explained,
        "req#{} dom={} seq={} send_ts={}: measurement (out {o_s}->{o_r}, in {i_s}->{i_r}) is not explained by any response{} with this domain and sequence id received for this request ({} matching syncs, {} matching follow-ups among {} datagrams)",
        req.idx,
        req.domain,
        req.seq,
        send_ts,
        " (+ follow-up)",
        syncs.len(),
        fups.len(),
        req.received.len()
    );
    req.explaining_status = status;
}

thread_local! {
    static CLI_MGR: RefCell<Option<Rc<CsptpManager<RefCell<InternalState>>>>> = const { RefCell::new(None) };
}

fn state_key(s: &CsptpState) -> ([u8; 8], u8, u8, u16, bool, bool, bool) {
    (
        s.grandmaster_identity.0,
        s.grandmaster_priority_1,
        s.grandmaster_priority_2,
        s.steps_removed,
        s.ptp_timescale,
        s.time_traceable,
        s.frequency_traceable,
    )
}

/// Status update (source.rs:211-224): the published CSPTP state may only change to what the status
/// TLV of the response that produced the last measurement said. Evaluated at the start of the next
/// request and at the end of the run.
fn check_status_update(g: &mut W) {
    let Some(mgr) = CLI_MGR.with(|m| m.borrow().clone()) else { return };
    let now_state = mgr.observe();
    let Some(prev) = g.c44.last_state else {
        g.c44.last_state = Some(now_state);
        return;
    };
    if state_key(&prev) != state_key(&now_state) {
        probe("client-status-updated");
        let ok = match g.c44.cur.as_ref() {
            Some(r) if r.in_half.is_some() => r.explaining_status.iter().any(|st| {
                st.gm_identity == now_state.grandmaster_identity.0
                    && st.priority1 == now_state.grandmaster_priority_1
                    && st.priority2 == now_state.grandmaster_priority_2
                    // one step further from the grandmaster than the server; the statement does not say what
                    // 65535 becomes, so staying at the 16-bit maximum is fine - wrapping to 0 ("I am the
                    // grandmaster's neighbour") is not
                    && st.steps_removed.checked_add(1).unwrap_or(u16::MAX) == now_state.steps_removed
            }),
            _ => false,
        };
        check!(
            "C44",
            "status-only-from-matching-response",
            ok,
            "published CSPTP state changed to {:?} without a measurement-producing response carrying that status (req {:?}; status TLVs of the responses that explain the measurement: {:?})",
            state_key(&now_state),
            g.c44.cur.as_ref().map(|r| (r.idx, r.seq, r.in_half.is_some())),
            g.c44.cur.as_ref().map(|r| r.explaining_status.iter().map(|s| (s.gm_identity, s.priority1, s.priority2, s.steps_removed)).collect::<Vec<_>>())
        );
    }
    g.c44.last_state = Some(now_state);
}

// ---------------------------------------------------------------------------
// server socket (what serve() sees) and the C45 oracle
// ---------------------------------------------------------------------------

struct SrvSock {
    w: Wr,
}

fn finalize_input(c: &mut C45) {
    if let Some(prev) = c.cur.take() {
        if prev.answers > 0 && prev.answer_two_step {
            match prev.sent {
                Some(Ok(_)) => {
                    check!(
                        "C45",
                        "two-step-answer-followed-by-follow-up",
                        prev.followups == 1,
                        "input #{} ({}): two-step answer was sent but {} follow-ups followed",
                        prev.idx,
                        hex(&prev.bytes),
                        prev.followups
                    );
                }
                _ => {
                    check!(
                        "C45",
                        "no-follow-up-after-failed-send",
                        prev.followups == 0,
                        "input #{}: send_event failed, yet {} follow-up(s) were sent",
                        prev.idx,
                        prev.followups
                    );
                }
            }
        }
    }
}

impl ServerSocket for SrvSock {
    type Addr = Addr;
    type Error = SimIoError;

    async fn recv(&mut self, buf: &mut [u8]) -> Result<ServerRecvResult<Addr>, SimIoError> {
        let item = poll_fn(|cx| {
            let mut g = self.w.borrow_mut();
            match g.srv_inbox.pop_front() {
                Some(i) => Poll::Ready(i),
                None => {
                    g.srv_waker = Some(cx.waker().clone());
                    Poll::Pending
                }
            }
        })
        .await;
        let mut g = self.w.borrow_mut();
        finalize_input(&mut g.c45);
        match item {
            SrvItem::Err => {
                ev!("server recv -> error");
                Err(SimIoError("simulated recv error"))
            }
            SrvItem::Data { bytes, from, local, rx_ts } => {
                let n = bytes.len().min(buf.len());
                buf[..n].copy_from_slice(&bytes[..n]);
                let parsed = pw::parse(&bytes[..n]);
                g.c45.nin += 1;
                let idx = g.c45.nin;
                let wf = parsed.as_ref().map(|p| p.is_wellformed_request()).unwrap_or(false);
                match &parsed {
                    Ok(p) => ev!(
                        "server recv #{idx} len={n} from={from:?} local={local:?} rx_ts={rx_ts} wellformed_request={wf} type={} sdo={:#x} v={} dom={} seq={} corr={} tlvs={:?}",
                        p.msg_type,
                        p.sdo_id,
                        p.version_major,
                        p.domain,
                        p.seq,
                        p.correction,
                        p.tlvs.iter().map(|t| (t.ty, t.value.len())).collect::<Vec<_>>()
                    ),
                    Err(e) => ev!("server recv #{idx} len={n} from={from:?} rx_ts={rx_ts} malformed={e:?}"),
                }
                if wf {
                    probe("server-got-wellformed-request");
                }
                g.c45.cur = Some(InReq {
                    idx,
                    bytes: bytes[..n].to_vec(),
                    parsed,
                    rx_ts,
                    remote: from,
                    local,
                    answers: 0,
                    answer_two_step: false,
                    sent: None,
                    followups: 0,
                });
                Ok(ServerRecvResult {
                    bytes_read: n,
                    remote_addr: from,
                    local_addr: local,
                    timestamp: to_wire(rx_ts),
                })
            }
        }
    }

    async fn send_event(&mut self, buf: &[u8], from: Addr, to: Addr) -> Result<Timestamp, SimIoError> {
        let (fail, delay, ts, shutdown) = {
            let mut g = self.w.borrow_mut();
            // the actual send time: the server's clock plus a hardware-timestamp offset nobody can predict
            let ts = Ts::from_ns(g.server_epoch + now() as u128 + choose("srv.tx-ts-jitter", 5000) as u128);
            g.c45.nanswers += 1;
            let out = pw::parse(buf);
            ev!("server send_event len={} from={from:?} to={to:?} tx_ts={ts} bytes={}", buf.len(), hex(buf));
            let fail = chance("srv.send-fail", g.f.srv_send_fail);
            let cap = buf.to_vec();
            if g.captured.len() < 32 {
                g.captured.push(cap);
            }
            match g.c45.cur.as_mut() {
                None => {
                    simkit::violation("C45", "answer-without-input", format!("send_event without a received datagram: {}", hex(buf)));
                }
                Some(inp) => {
                    inp.answers += 1;
                    let wf = inp.parsed.as_ref().map(|p| p.is_wellformed_request()).unwrap_or(false);
                    let structurally = inp.parsed.as_ref().map(|p| p.structurally_request()).unwrap_or(false);
                    if structurally && !wf {
                        check!(
                            "C45",
                            "answer-only-to-wellformed-request/invalid-origin-timestamp",
                            false,
                            "input #{} {} was answered although its originTimestamp {} is not a legal PTP timestamp (nanoseconds >= 10^9)",
                            inp.idx,
                            hex(&inp.bytes),
                            inp.parsed.as_ref().map(|p| p.body_ts).unwrap_or_default()
                        );
                    } else {
                        check!(
                            "C45",
                            "answer-only-to-wellformed-request",
                            wf,
                            "input #{} {} is not a well-formed CSPTP request ({:?}) but was answered with {}",
                            inp.idx,
                            hex(&inp.bytes),
                            inp.parsed.as_ref().err(),
                            hex(buf)
                        );
                    }
                    check!("C45", "one-answer-per-request", inp.answers == 1, "input #{}: {} answers", inp.idx, inp.answers);
                    check!(
                        "C45",
                        "answer-addressed-to-requester",
                        to == inp.remote && from == inp.local,
                        "input #{} came from {:?} to {:?}, answer goes from {from:?} to {to:?}",
                        inp.idx,
                        inp.remote,
                        inp.local
                    );
                    match (&out, &inp.parsed) {
                        (Ok(o), Ok(rq)) => {
                            check!(
                                "C45",
                                "answer-is-csptp-response",
                                o.is_wellformed_response(),
                                "input #{}: answer {} is not a Sync with exactly one CSPTP_RESPONSE TLV",
                                inp.idx,
                                hex(buf)
                            );
                            check!(
                                "C45",
                                "answer-echoes-domain-and-sequence-id",
                                o.domain == rq.domain && o.seq == rq.seq,
                                "input #{} dom={} seq={} answered with dom={} seq={}",
                                inp.idx,
                                rq.domain,
                                rq.seq,
                                o.domain,
                                o.seq
                            );
                            if let Some((ingress, corr)) = o.response_tlv() {
                                check!(
                                    "C45",
                                    "answer-carries-reception-time",
                                    ingress == inp.rx_ts,
                                    "input #{} received at {} but the answer's reqIngressTimestamp is {}",
                                    inp.idx,
                                    inp.rx_ts,
                                    ingress
                                );
                                check!(
                                    "C45",
                                    "answer-carries-request-correction",
                                    corr == rq.correction,
                                    "input #{} correctionField {} but the answer's reqCorrectionField is {}",
                                    inp.idx,
                                    rq.correction,
                                    corr
                                );
                            }
                            inp.answer_two_step = o.two_step();
                            if !o.two_step() {
                                // a one-step answer claims its originTimestamp is the send time
                                check!(
                                    "C45",
                                    "one-step-answer-carries-send-time",
                                    o.body_ts == ts,
                                    "input #{}: one-step answer with originTimestamp {} but it was sent at {}",
                                    inp.idx,
                                    o.body_ts,
                                    ts
                                );
                            }
                        }
                        (Err(e), _) => {
                            simkit::violation("C45", "answer-is-csptp-response", format!("input #{}: answer {} does not parse: {e:?}", inp.idx, hex(buf)));
                        }
                        _ => {}
                    }
                    inp.sent = Some(if fail { Err(()) } else { Ok(ts) });
                }
            }
            let delay = if g.f.srv_send_delay > 0 { choose("srv.send-delay", g.f.srv_send_delay + 1) } else { 0 };
            let shutdown = g.srv_shutdown_on_answer;
            (fail, delay, ts, shutdown)
        };
        if shutdown {
            // shutdown requested between the answer and its follow-up
            fault("server-shutdown-mid-answer");
            ev!("server shutdown requested while the answer is being sent");
            self.w.borrow().srv_shutdown.notify_one();
        }
        if fail {
            fault("server-send-event-failure");
            ev!("server send_event -> error");
            return Err(SimIoError("simulated send failure"));
        }
        net_send(&self.w, SERVER, to.node, buf.to_vec(), Meta { port: Port::Event, ifc: 0 }, 0);
        if delay > 0 {
            fault("server-tx-timestamp-delay");
            exec::sleep_ns(delay).await;
        }
        Ok(to_wire(ts))
    }

    async fn send_general(&mut self, buf: &[u8], from: Addr, to: Addr) -> Result<(), SimIoError> {
        let fail = {
            let mut g = self.w.borrow_mut();
            ev!("server send_general len={} from={from:?} to={to:?} bytes={}", buf.len(), hex(buf));
            let fail = chance("srv.general-fail", g.f.srv_general_fail);
            let out = pw::parse(buf);
            match g.c45.cur.as_mut() {
                None => simkit::violation("C45", "follow-up-without-answer", format!("send_general without input: {}", hex(buf))),
                Some(inp) => {
                    inp.followups += 1;
                    check!(
                        "C45",
                        "follow-up-without-answer",
                        inp.answers == 1 && inp.answer_two_step,
                        "input #{}: follow-up {} without a preceding two-step answer",
                        inp.idx,
                        hex(buf)
                    );
                    check!(
                        "C45",
                        "no-follow-up-after-failed-send",
                        matches!(inp.sent, Some(Ok(_))),
                        "input #{}: follow-up sent although send_event failed",
                        inp.idx
                    );
                    check!(
                        "C45",
                        "answer-addressed-to-requester",
                        to == inp.remote && from == inp.local,
                        "input #{} came from {:?} to {:?}, follow-up goes from {from:?} to {to:?}",
                        inp.idx,
                        inp.remote,
                        inp.local
                    );
                    match (&out, &inp.parsed, inp.sent) {
                        (Ok(o), Ok(rq), Some(Ok(tx))) => {
                            check!("C45", "follow-up-is-follow-up", o.is_follow_up(), "input #{}: {} is not a CSPTP Follow_Up", inp.idx, hex(buf));
                            check!(
                                "C45",
                                "follow-up-echoes-domain-and-sequence-id",
                                o.domain == rq.domain && o.seq == rq.seq,
                                "input #{} dom={} seq={} follow-up dom={} seq={}",
                                inp.idx,
                                rq.domain,
                                rq.seq,
                                o.domain,
                                o.seq
                            );
                            check!(
                                "C45",
                                "follow-up-carries-actual-send-time",
                                o.body_ts == tx,
                                "input #{}: the answer was sent at {} (timestamp returned by the socket) but the follow-up's preciseOriginTimestamp is {}",
                                inp.idx,
                                tx,
                                o.body_ts
                            );
                        }
                        (Err(e), _, _) => simkit::violation("C45", "follow-up-is-follow-up", format!("input #{}: follow-up {} does not parse: {e:?}", inp.idx, hex(buf))),
                        _ => {}
                    }
                }
            }
            fail
        };
        if fail {
            fault("server-send-general-failure");
            return Err(SimIoError("simulated send failure"));
        }
        net_send(&self.w, SERVER, to.node, buf.to_vec(), Meta { port: Port::General, ifc: 0 }, 0);
        Ok(())
    }
}

// ---------------------------------------------------------------------------
// byzantine server
// ---------------------------------------------------------------------------

struct ByzCfg {
    bad_ids: bool,
    extreme_ts: bool,
    extreme_corr: bool,
    extreme_status: bool,
    bad_nanos: bool,
    scripts: bool,
    late: bool,
}

struct ByzCtx {
    dom: u8,
    seq: u16,
    prev_seq: u16,
    req_corr: i64,
}

fn byz_ts(w: &Wr, cfg: &ByzCfg, label: &'static str) -> Ts {
    let honest = server_clock(&w.borrow());
    if !cfg.extreme_ts && !cfg.bad_nanos {
        return honest;
    }
    let max = (1u64 << 48) - 1;
    let opts: [Ts; 8] = [
        honest,
        Ts { secs: 0, nanos: 0 },
        Ts { secs: max, nanos: 999_999_999 },
        Ts { secs: max, nanos: 0 },
        Ts { secs: 0, nanos: 999_999_999 },
        Ts { secs: honest.secs, nanos: 999_999_999 },
        Ts { secs: 1 << 32, nanos: 5 },
        Ts { secs: honest.secs, nanos: 1_000_000_000 },
    ];
    let wts: [u32; 8] = if cfg.extreme_ts {
        [6, 2, 2, 1, 1, 1, 1, if cfg.bad_nanos { 1 } else { 0 }]
    } else {
        [6, 0, 0, 0, 0, 0, 0, 2]
    };
    let i = weighted(label, &wts);
    if i != 0 {
        fault("byz-extreme-timestamp");
    }
    opts[i]
}

fn byz_corr(cfg: &ByzCfg, label: &'static str) -> i64 {
    if !cfg.extreme_corr {
        return [0i64, 65536 * 1000, -65536 * 250][weighted(label, &[6, 1, 1, 0, 0, 0, 0, 0])];
    }
    let opts = [0i64, 65536 * 1000, -65536 * 250, i64::MAX, i64::MIN, 1 << 62, -(1 << 62), -1];
    let i = weighted(label, &[4, 1, 1, 2, 2, 1, 1, 1]);
    if i >= 3 {
        fault("byz-extreme-correction");
    }
    opts[i]
}

fn byz_ids(cfg: &ByzCfg, c: &ByzCtx, label: &'static str) -> (u8, u16) {
    if !cfg.bad_ids {
        return (c.dom, c.seq);
    }
    match weighted(label, &[6, 2, 2, 1, 1, 1]) {
        0 => (c.dom, c.seq),
        1 => {
            fault("byz-wrong-sequence-id");
            (c.dom, c.prev_seq)
        }
        2 => {
            fault("byz-wrong-sequence-id");
            (c.dom, c.seq.wrapping_add(1))
        }
        3 => {
            fault("byz-wrong-domain");
            (c.dom.wrapping_add(1), c.seq)
        }
        4 => {
            fault("byz-wrong-domain");
            (c.dom ^ 0x80, c.seq)
        }
        _ => {
            fault("byz-wrong-sequence-id");
            (c.dom, choose("byz.seq.rnd", 65536) as u16)
        }
    }
}

fn byz_status(cfg: &ByzCfg) -> Option<StatusTlv> {
    let k = weighted("byz.status", &[3, 3, if cfg.extreme_status { 3 } else { 0 }, 1]);
    let base = StatusTlv {
        priority1: 128,
        clock_class: 6,
        clock_accuracy: 0x21,
        variance: 0x4e5d,
        priority2: 128,
        steps_removed: 1,
        utc_offset: 37,
        gm_identity: [1, 2, 3, 4, 5, 6, 7, 8],
    };
    match k {
        0 => None,
        1 => Some(base),
        2 => {
            fault("byz-steps-removed-65535");
            Some(StatusTlv { steps_removed: 65535, ..base })
        }
        _ => Some(StatusTlv {
            priority1: choose("byz.st.p1", 256) as u8,
            clock_class: choose("byz.st.cc", 256) as u8,
            clock_accuracy: choose("byz.st.ca", 256) as u8,
            variance: choose("byz.st.var", 65536) as u16,
            priority2: choose("byz.st.p2", 256) as u8,
            steps_removed: choose("byz.st.steps", 65535) as u16,
            utc_offset: -1,
            gm_identity: [0xff; 8],
        }),
    }
}

fn byz_sync(w: &Wr, cfg: &ByzCfg, c: &ByzCtx, two_step: bool) -> Vec<u8> {
    let (dom, seq) = byz_ids(cfg, c, "byz.sync.ids");
    let mut b = Build::sync(dom, seq).two_step(two_step);
    b.body_ts = if two_step && !chance("byz.sync.origin-in-two-step", 0.2) { Ts::default() } else { byz_ts(w, cfg, "byz.sync.origin") };
    b.correction = byz_corr(cfg, "byz.sync.corr");
    b.flags1 = [0u8, 0x08, 0x01, 0x02, 0x3b, 0x03][weighted("byz.sync.flags", &[4, 4, 1, 1, 1, 1])];
    let ingress = byz_ts(w, cfg, "byz.sync.ingress");
    let req_corr = if chance("byz.sync.echo-corr", 0.6) { c.req_corr } else { byz_corr(cfg, "byz.sync.reqcorr") };
    let mut b = b.with_response_tlv(ingress, req_corr);
    if let Some(s) = byz_status(cfg) {
        b = b.with_status_tlv(&s);
    }
    if chance("byz.sync.pad", 0.1) {
        b = b.with_tlv(pw::TLV_PAD, vec![0; 2 * choose("byz.sync.padlen", 20) as usize]);
    }
    b.bytes()
}

fn byz_follow_up(w: &Wr, cfg: &ByzCfg, c: &ByzCtx) -> Vec<u8> {
    let (dom, seq) = byz_ids(cfg, c, "byz.fup.ids");
    let mut b = Build::follow_up(dom, seq, byz_ts(w, cfg, "byz.fup.ts"));
    b.correction = byz_corr(cfg, "byz.fup.corr");
    if chance("byz.fup.tlv", 0.1) {
        b = b.with_tlv(pw::TLV_PAD, vec![0; 4]);
    }
    b.bytes()
}

fn byz_junk(w: &Wr, cfg: &ByzCfg, c: &ByzCtx, request: &[u8]) -> (Vec<u8>, Port) {
    match choose("byz.junk", 9) {
        0 => {
            fault("byz-request-echoed");
            (request.to_vec(), Port::Event)
        }
        1 => {
            fault("byz-sync-on-general-port");
            (byz_sync(w, cfg, c, false), Port::General)
        }
        2 => {
            fault("byz-sync-without-response-tlv");
            let mut b = Build::sync(c.dom, c.seq);
            b.body_ts = byz_ts(w, cfg, "byz.junk.ts");
            (b.bytes(), Port::Event)
        }
        3 => {
            fault("byz-sync-both-tlvs");
            (Build::sync(c.dom, c.seq).with_request_tlv(1).with_response_tlv(byz_ts(w, cfg, "byz.junk.ts2"), 0).bytes(), Port::Event)
        }
        4 => {
            fault("byz-two-response-tlvs");
            let t = byz_ts(w, cfg, "byz.junk.ts3");
            (Build::sync(c.dom, c.seq).with_response_tlv(t, 0).with_response_tlv(t, 5).bytes(), Port::Event)
        }
        5 => {
            fault("byz-short-response-tlv");
            (Build::sync(c.dom, c.seq).with_tlv(pw::TLV_CSPTP_RESPONSE, vec![0; 2 * choose("byz.junk.rlen", 9) as usize]).bytes(), Port::Event)
        }
        6 => {
            fault("byz-wrong-profile");
            let mut b = Build::sync(c.dom, c.seq).with_response_tlv(byz_ts(w, cfg, "byz.junk.ts4"), 0);
            if chance("byz.junk.sdo", 0.5) {
                b.sdo_id = [0x000, 0x100, 0x301, 0xf00][choose("byz.junk.sdo.v", 4) as usize];
            } else {
                b.version = [0x01, 0x03, 0x10, 0xf1][choose("byz.junk.ver", 4) as usize];
            }
            (b.bytes(), Port::Event)
        }
        7 => {
            fault("byz-other-message-type");
            let mut b = Build::sync(c.dom, c.seq).with_response_tlv(byz_ts(w, cfg, "byz.junk.ts5"), 0);
            b.msg_type = [0x1, 0x9, 0xb, 0xc, 0xd, 0x5, 0xf][choose("byz.junk.type", 7) as usize];
            let mut bytes = b.bytes();
            // give longer message types enough body
            bytes.extend(std::iter::repeat(0).take(40));
            let l = bytes.len() as u16;
            bytes[2..4].copy_from_slice(&l.to_be_bytes());
            (bytes, Port::Event)
        }
        _ => {
            fault("byz-garbage");
            let mut r = simkit::sub_rng("byz.garbage");
            let len = choose("byz.garbage.len", 600) as usize;
            let mut v: Vec<u8> = (0..len).map(|_| r.next_u64() as u8).collect();
            if len >= 44 && chance("byz.garbage.hdr", 0.5) {
                let good = Build::sync(c.dom, c.seq).bytes();
                v[..8].copy_from_slice(&good[..8]);
                v[30..32].copy_from_slice(&c.seq.to_be_bytes());
            }
            (v, Port::Event)
        }
    }
}

fn byz_delay(cfg: &ByzCfg, label: &'static str) -> u64 {
    if !cfg.late {
        return 0;
    }
    [0u64, 200_000, 30_000_000, 300_000_000, 700_000_000, 1_500_000_000, 20_000_000_000][weighted(label, &[6, 2, 2, 1, 1, 1, 1])]
}

async fn byz_server(w: Wr, cfg: ByzCfg, target: u32) {
    let mut prev_seq: u16 = 0xffff;
    let mut sent_log: Vec<(Vec<u8>, Port)> = vec![];
    loop {
        let request = poll_fn(|cx| {
            let mut g = w.borrow_mut();
            match g.byz_inbox.pop_front() {
                Some(b) => Poll::Ready(b),
                None => {
                    g.byz_waker = Some(cx.waker().clone());
                    Poll::Pending
                }
            }
        })
        .await;
        let (dom, seq, req_corr) = match pw::parse(&request) {
            Ok(p) => (p.domain, p.seq, p.correction),
            Err(_) => (128, 0, 0),
        };
        ev!("byz got request dom={dom} seq={seq} len={}", request.len());
        let c = ByzCtx { dom, seq, prev_seq, req_corr };
        prev_seq = seq;
        let script = if cfg.scripts { weighted("byz.script", &[6, 3, 2, 2, 2, 2, 2, 3, 1, 1]) } else { choose("byz.script.honest", 2) as usize };
        let mut msgs: Vec<(Vec<u8>, Port)> = vec![];
        match script {
            0 => {
                msgs.push((byz_sync(&w, &cfg, &c, true), Port::Event));
                msgs.push((byz_follow_up(&w, &cfg, &c), Port::General));
            }
            1 => msgs.push((byz_sync(&w, &cfg, &c, false), Port::Event)),
            2 => {
                fault("byz-follow-up-before-sync");
                msgs.push((byz_follow_up(&w, &cfg, &c), Port::General));
                msgs.push((byz_sync(&w, &cfg, &c, true), Port::Event));
            }
            3 => {
                fault("byz-two-follow-ups");
                msgs.push((byz_sync(&w, &cfg, &c, true), Port::Event));
                msgs.push((byz_follow_up(&w, &cfg, &c), Port::General));
                msgs.push((byz_follow_up(&w, &cfg, &c), Port::General));
            }
            4 => {
                fault("byz-duplicate-sync");
                let two = chance("byz.dup.two", 0.5);
                msgs.push((byz_sync(&w, &cfg, &c, two), Port::Event));
                msgs.push((byz_sync(&w, &cfg, &c, two), Port::Event));
                msgs.push((byz_follow_up(&w, &cfg, &c), Port::General));
            }
            5 => {
                fault("byz-one-step-two-step-mix");
                msgs.push((byz_follow_up(&w, &cfg, &c), Port::General));
                msgs.push((byz_sync(&w, &cfg, &c, false), Port::Event));
                msgs.push((byz_sync(&w, &cfg, &c, true), Port::Event));
            }
            6 => {
                fault("byz-one-step-two-step-mix");
                msgs.push((byz_sync(&w, &cfg, &c, true), Port::Event));
                msgs.push((byz_sync(&w, &cfg, &c, false), Port::Event));
                msgs.push((byz_follow_up(&w, &cfg, &c), Port::General));
            }
            7 => {
                let n = 1 + choose("byz.junk.n", 3);
                for _ in 0..n {
                    msgs.push(byz_junk(&w, &cfg, &c, &request));
                }
                if chance("byz.junk.then-answer", 0.6) {
                    msgs.push((byz_sync(&w, &cfg, &c, false), Port::Event));
                }
            }
            8 => {
                fault("byz-replay");
                if !sent_log.is_empty() {
                    let k = choose("byz.replay.k", sent_log.len() as u64) as usize;
                    msgs.push(sent_log[k].clone());
                }
                msgs.push((byz_sync(&w, &cfg, &c, true), Port::Event));
                msgs.push((byz_follow_up(&w, &cfg, &c), Port::General));
            }
            _ => {
                fault("byz-silent");
            }
        }
        for (bytes, port) in msgs {
            // follow-ups occasionally on the event port, syncs on the general one
            let port = if cfg.scripts && chance("byz.swap-port", 0.05) {
                fault("byz-swapped-port");
                if port == Port::Event { Port::General } else { Port::Event }
            } else {
                port
            };
            let extra = byz_delay(&cfg, "byz.delay");
            if let Ok(p) = pw::parse(&bytes) {
                ev!(
                    "byz send type={} dom={} seq={} two_step={} corr={} body_ts={} resp={:?} steps={:?} port={port:?} extra={extra}",
                    p.msg_type,
                    p.domain,
                    p.seq,
                    p.two_step(),
                    p.correction,
                    p.body_ts,
                    p.response_tlv(),
                    p.status_tlv().map(|s| s.steps_removed)
                );
            } else {
                ev!("byz send raw len={} port={port:?} extra={extra}", bytes.len());
            }
            if sent_log.len() < 16 {
                sent_log.push((bytes.clone(), port));
            }
            net_send(&w, BYZ, target, bytes, Meta { port, ifc: 0 }, extra);
        }
    }
}

// ---------------------------------------------------------------------------
// fuzzing requester (C45)
// ---------------------------------------------------------------------------

fn fuzz_datagram(w: &Wr) -> Vec<u8> {
    let dom = [128u8, 0, 255, 7][weighted("fz.dom", &[4, 1, 1, 1])];
    let seq = choose("fz.seq", 65536) as u16;
    let corr = [0i64, 65536 * 123, -65536 * 77, i64::MAX, i64::MIN, 0x0123_4567_89ab_cdef][weighted("fz.corr", &[4, 2, 2, 1, 1, 2])];
    let mut base = Build::sync(dom, seq);
    base.correction = corr;
    base.flags0 = [0x04u8, 0x00, 0x06, 0xff][weighted("fz.flags0", &[5, 1, 1, 1])];
    base.flags1 = [0x00u8, 0x3f, 0x08][weighted("fz.flags1", &[5, 1, 1])];
    base.version = [0x12u8, 0x02, 0xf2][weighted("fz.minor", &[5, 1, 1])];
    let rq_flags = choose("fz.rqflags", 4) as u8;
    let kind = weighted("fz.kind", &[10, 3, 2, 3, 3, 4, 3, 3, 3, 2, 2]);
    match kind {
        0 => base.with_request_tlv(rq_flags).bytes(),
        1 => {
            let mut b = base;
            if chance("fz.extra.before", 0.5) {
                b = b.with_tlv(pw::TLV_PAD, vec![0; 2 * choose("fz.padlen", 30) as usize]);
            }
            b = b.with_request_tlv(rq_flags);
            match choose("fz.extra", 4) {
                0 => b = b.with_tlv(pw::TLV_PAD, vec![0; 2 * choose("fz.padlen2", 100) as usize]),
                1 => {
                    b = b.with_status_tlv(&StatusTlv {
                        priority1: 1,
                        clock_class: 2,
                        clock_accuracy: 3,
                        variance: 4,
                        priority2: 5,
                        steps_removed: 65535,
                        utc_offset: 7,
                        gm_identity: [9; 8],
                    })
                }
                2 => b = b.with_tlv(0x2004, vec![1, 2, 3, 4]),
                _ => {
                    // request TLV of unusual (even) length: 2 or 8 octets
                    b.tlvs.pop();
                    b = b.with_tlv(pw::TLV_CSPTP_REQUEST, vec![rq_flags; [2usize, 8, 64][choose("fz.rqlen", 3) as usize]]);
                }
            }
            b.bytes()
        }
        2 => {
            let mut b = base.with_request_tlv(rq_flags);
            b.body_ts = Ts {
                secs: [0u64, 1_700_000_000, (1 << 48) - 1][choose("fz.origin.s", 3) as usize],
                nanos: [0u32, 999_999_999, 1][choose("fz.origin.n", 3) as usize],
            };
            b.bytes()
        }
        3 => {
            fault("fuzz-wrong-profile");
            let mut b = base.with_request_tlv(rq_flags);
            if chance("fz.sdo", 0.5) {
                b.sdo_id = [0x000u16, 0x100, 0x301, 0x200, 0xf00, 0x3ff][choose("fz.sdo.v", 6) as usize];
            } else {
                b.version = [0x11u8, 0x13, 0x10, 0x1f, 0x00][choose("fz.ver", 5) as usize];
            }
            b.bytes()
        }
        4 => {
            fault("fuzz-not-a-sync");
            let mut b = base.with_request_tlv(rq_flags);
            b.msg_type = [0x8u8, 0x1, 0x9, 0xb, 0xc, 0xd, 0x2, 0x3, 0xa, 0x4, 0xf][choose("fz.type", 11) as usize];
            let mut bytes = b.bytes();
            if chance("fz.type.pad", 0.5) {
                bytes.extend(std::iter::repeat(0).take(2 * choose("fz.type.padlen", 30) as usize));
                let l = bytes.len() as u16;
                bytes[2..4].copy_from_slice(&l.to_be_bytes());
            }
            bytes
        }
        5 => {
            fault("fuzz-wrong-tlv-set");
            let t = server_clock(&w.borrow());
            match choose("fz.tlvset", 6) {
                0 => base.bytes(),
                1 => base.with_request_tlv(rq_flags).with_request_tlv(rq_flags).bytes(),
                2 => base.with_request_tlv(rq_flags).with_response_tlv(t, 0).bytes(),
                3 => base.with_response_tlv(t, corr).bytes(),
                4 => base.with_response_tlv(t, corr).with_request_tlv(rq_flags).bytes(),
                _ => base.with_tlv(pw::TLV_CSPTP_STATUS, vec![0; 18]).bytes(),
            }
        }
        6 => {
            fault("fuzz-bad-tlv-layout");
            match choose("fz.tlvbad", 5) {
                0 => base.with_tlv(pw::TLV_CSPTP_REQUEST, vec![]).bytes(),
                1 => base.with_tlv(pw::TLV_CSPTP_REQUEST, vec![rq_flags, 0, 0]).bytes(),
                2 => {
                    // TLV length field larger than what follows
                    let mut bytes = base.with_request_tlv(rq_flags).bytes();
                    let n = bytes.len();
                    bytes[n - 6..n - 4].copy_from_slice(&[0, 40]);
                    bytes
                }
                3 => {
                    // stray octets after the last TLV (inside messageLength)
                    let mut bytes = base.with_request_tlv(rq_flags).bytes();
                    bytes.extend_from_slice(&[0xff, 0x00][..1 + choose("fz.stray", 2) as usize]);
                    let l = bytes.len() as u16;
                    bytes[2..4].copy_from_slice(&l.to_be_bytes());
                    bytes
                }
                _ => base.with_request_tlv(rq_flags).with_tlv(pw::TLV_PAD, vec![]).bytes(),
            }
        }
        7 => {
            fault("fuzz-bad-length-field");
            let mut b = base.with_request_tlv(rq_flags);
            let real = 52u16;
            b.length_override = Some([0u16, 33, 34, 43, 44, 51, 53, 600, 0xffff, real + 40][choose("fz.len", 10) as usize]);
            let mut bytes = b.bytes();
            if chance("fz.len.pad", 0.5) {
                bytes.extend(std::iter::repeat(0).take(48));
            }
            bytes
        }
        8 => {
            fault("fuzz-truncated-or-random");
            let good = base.with_request_tlv(rq_flags).bytes();
            match choose("fz.trunc", 3) {
                0 => good[..choose("fz.trunc.len", good.len() as u64) as usize].to_vec(),
                1 => {
                    let mut r = simkit::sub_rng("fz.rand");
                    (0..choose("fz.rand.len", 700)).map(|_| r.next_u64() as u8).collect()
                }
                _ => {
                    // oversized: more than the server's 512-byte buffer
                    let mut b = Build::sync(dom, seq).with_request_tlv(rq_flags).with_tlv(pw::TLV_PAD, vec![0; 2 * (200 + choose("fz.big", 200) as usize)]);
                    b.correction = corr;
                    b.bytes()
                }
            }
        }
        9 => {
            fault("fuzz-origin-nanos-out-of-range");
            let mut b = base.with_request_tlv(rq_flags);
            b.body_ts = Ts {
                secs: 5,
                nanos: [1_000_000_000u32, 1_000_000_001, u32::MAX][weighted("fz.badnanos", &[3, 1, 1])],
            };
            b.bytes()
        }
        _ => {
            let g = w.borrow();
            if g.captured.is_empty() {
                drop(g);
                return base.with_request_tlv(rq_flags).bytes();
            }
            fault("fuzz-replays-server-output");
            g.captured[choose("fz.replay", g.captured.len() as u64) as usize].clone()
        }
    }
}

async fn fuzzer(w: Wr, n: u64) {
    for _ in 0..n {
        if simkit::out_of_budget() {
            break;
        }
        let gap = [20_000_000u64, 0, 1_000, 900_000_000][weighted("fz.gap", &[5, 2, 2, 1])];
        exec::sleep_ns(gap).await;
        let bytes = fuzz_datagram(&w);
        let port = if chance("fz.general-port", 0.03) { Port::General } else { Port::Event };
        let ifc = choose("fz.ifc", 3) as u8;
        net_send(&w, FUZZ, SERVER, bytes, Meta { port, ifc }, 0);
    }
    w.borrow_mut().fuzz_done = true;
}

// ---------------------------------------------------------------------------
// "rest of the daemon": arbitrary server states through H13
// ---------------------------------------------------------------------------

fn random_state() -> CsptpState {
    CsptpState {
        grandmaster_identity: ClockIdentity([choose("st.gm", 256) as u8; 8]),
        grandmaster_priority_1: choose("st.p1", 256) as u8,
        grandmaster_priority_2: choose("st.p2", 256) as u8,
        grandmaster_clock_quality: ClockQuality {
            clock_class: choose("st.class", 256) as u8,
            clock_accuracy: ClockAccuracy::from_primitive(choose("st.acc", 256) as u8),
            offset_scaled_log_variance: choose("st.var", 65536) as u16,
        },
        steps_removed: [0u16, 1, 65534, 65535, 300][weighted("st.steps", &[3, 3, 1, 2, 1])],
        ptp_timescale: chance("st.ptp", 0.5),
        time_traceable: chance("st.tt", 0.5),
        frequency_traceable: chance("st.ft", 0.5),
    }
}

async fn state_mutator(mgr: Rc<CsptpManager<RefCell<InternalState>>>, n: u64, allow_65535: bool) {
    for _ in 0..n {
        exec::sleep_ns(1_000_000 + choose("st.wait", 2_000) * 1_000_000).await;
        let mut v = statime_csptp::verif::read_state(&mgr);
        v.csptp_state = random_state();
        if !allow_65535 && v.csptp_state.steps_removed == 65535 {
            v.csptp_state.steps_removed = 65534;
        }
        v.time_snapshot.leap_indicator = [
            NtpLeapIndicator::NoWarning,
            NtpLeapIndicator::Leap59,
            NtpLeapIndicator::Leap61,
            NtpLeapIndicator::Unknown,
            NtpLeapIndicator::Unsynchronized,
        ][choose("st.leap", 5) as usize];
        v.active_source = if chance("st.active", 0.5) { Some(ntp_proto::verif::clock_id_from_raw(77)) } else { None };
        fault("server-state-change");
        ev!("daemon sets server state steps={} leap={:?} active={:?}", v.csptp_state.steps_removed, v.time_snapshot.leap_indicator, v.active_source.is_some());
        statime_csptp::verif::write_state(&mgr, v);
    }
}

// ---------------------------------------------------------------------------
// seeded rng handed to CsptpSource::run
// ---------------------------------------------------------------------------

struct SeedRng(simkit::Rng);

impl rand::RngCore for SeedRng {
    fn next_u32(&mut self) -> u32 {
        self.0.next_u64() as u32
    }
    fn next_u64(&mut self) -> u64 {
        self.0.next_u64()
    }
    fn fill_bytes(&mut self, dest: &mut [u8]) {
        for b in dest {
            *b = self.0.next_u64() as u8;
        }
    }
    fn try_fill_bytes(&mut self, dest: &mut [u8]) -> Result<(), rand::Error> {
        self.fill_bytes(dest);
        Ok(())
    }
}

// ---------------------------------------------------------------------------
// one run
// ---------------------------------------------------------------------------

#[derive(Clone, Copy, Debug, PartialEq)]
enum Topo {
    /// real client <-> real server
    Honest,
    /// real client <-> byzantine server
    Byzantine,
    /// fuzzing requester -> real server (extreme clocks, arbitrary states)
    ServerOnly,
    /// real client <-> real server, plus fuzzing requester and an on-path byzantine injector
    Everything,
}

pub fn run() {
    simntp::reset_hooks();
    let focus = simkit::focus();
    let clean = !chance("cfg.faulty", 0.75);
    let topo = if clean {
        Topo::Honest
    } else if focus == "C45" {
        [Topo::ServerOnly, Topo::Honest, Topo::Everything][weighted("cfg.topo45", &[6, 2, 2])]
    } else {
        [Topo::Byzantine, Topo::Honest, Topo::Everything][weighted("cfg.topo44", &[6, 2, 2])]
    };
    let has_client = topo != Topo::ServerOnly;
    let has_server = topo != Topo::Byzantine;
    let has_byz = matches!(topo, Topo::Byzantine | Topo::Everything);
    let has_fuzz = matches!(topo, Topo::ServerOnly | Topo::Everything);

    let netcfg = if clean { NetCfg::clean() } else { let mut c = NetCfg::swarm(); c.max_extend_to = 700; c };
    let poll_ms = [1000u64, 100, 16_000, 250][weighted("cfg.poll", &[4, 3, 1, 2])];
    let resp_ms = [500u64, 50, 2_000, 5][weighted("cfg.resp", &[4, 2, 2, 1])];
    let domain = [128u8, 0, 255, 5][weighted("cfg.domain", &[4, 1, 1, 1])];
    let nreq = 3 + choose("cfg.nreq", 38);
    let fq = |label: &'static str, p: f64| if clean { 0.0 } else { [0.0, p, 4.0 * p][weighted(label, &[3, 2, 1])].min(0.9) };
    let f = Faults {
        cli_send_fail: fq("cfg.f.cli-send", 0.05),
        cli_send_fail_after: fq("cfg.f.cli-send-after", 0.05),
        cli_recv_err: fq("cfg.f.cli-recv", 0.05),
        cli_no_ts: fq("cfg.f.cli-nots", 0.05),
        cli_send_delay: if clean { 0 } else { [0u64, 50_000, 5_000_000][weighted("cfg.f.cli-delay", &[3, 2, 1])] },
        srv_send_fail: fq("cfg.f.srv-send", 0.08),
        srv_general_fail: fq("cfg.f.srv-general", 0.08),
        srv_recv_err: fq("cfg.f.srv-recv", 0.05),
        srv_send_delay: if clean { 0 } else { [0u64, 50_000, 5_000_000][weighted("cfg.f.srv-delay", &[3, 2, 1])] },
        fuzz_reflect: if clean { 0.0 } else { 0.15 },
    };
    let byz_cfg = ByzCfg {
        bad_ids: chance("cfg.byz.ids", 0.6),
        extreme_ts: chance("cfg.byz.ts", 0.35),
        extreme_corr: chance("cfg.byz.corr", 0.45),
        extreme_status: chance("cfg.byz.status", 0.3),
        bad_nanos: chance("cfg.byz.nanos", 0.2),
        scripts: chance("cfg.byz.scripts", 0.85),
        late: chance("cfg.byz.late", 0.6),
    };
    // clocks: realistic by default; with only the fuzzing requester around, the server's clock may sit at the edges
    let realistic: u128 = 1_767_225_600u128 * 1_000_000_000 + 123_456_789;
    let client_epoch = realistic + choose("cfg.cli-epoch", 1000) as u128 * 1_000_003;
    let server_epoch = if topo == Topo::ServerOnly {
        [
            realistic,
            0,
            ((1u128 << 48) - 1) * 1_000_000_000 + 999_000_000,
            ((1u128 << 48) - 30) * 1_000_000_000,
            (1u128 << 32) * 1_000_000_000,
        ][weighted("cfg.srv-epoch", &[4, 2, 2, 1, 1])]
    } else {
        realistic + choose("cfg.srv-off", 2_000_000) as u128 * 1_000
    };
    let active_source = has_client && chance("cfg.cli-active", 0.6);
    let mutate_state = has_server && !clean && chance("cfg.srv-mutate", 0.6);
    let allow_65535 = !has_client || chance("cfg.srv-65535", 0.3);
    let shutdown_mid_answer = has_server && !clean && chance("cfg.srv-shutdown-mid", 0.15);
    ev!(
        "cfg topo={topo:?} clean={clean} poll={poll_ms}ms resp={resp_ms}ms domain={domain} nreq={nreq} active={active_source} mutate={mutate_state} byz(ids={} ts={} corr={} status={} nanos={} scripts={} late={})",
        byz_cfg.bad_ids,
        byz_cfg.extreme_ts,
        byz_cfg.extreme_corr,
        byz_cfg.extreme_status,
        byz_cfg.bad_nanos,
        byz_cfg.scripts,
        byz_cfg.late
    );

    let w: Wr = Rc::new(RefCell::new(W {
        net: SimNet::new(netcfg),
        notify: Rc::new(Notify::new()),
        client_epoch,
        server_epoch,
        f,
        sock_seq: 0,
        cli_open: None,
        cli_inbox: VecDeque::new(),
        cli_waker: None,
        cli_target: if topo == Topo::Byzantine { BYZ } else { SERVER },
        tap_to_byz: topo == Topo::Everything,
        srv_inbox: VecDeque::new(),
        srv_waker: None,
        srv_shutdown: Rc::new(Notify::new()),
        srv_shutdown_on_answer: false,
        byz_inbox: VecDeque::new(),
        byz_waker: None,
        captured: vec![],
        fuzz_done: !has_fuzz,
        c44: C44::default(),
        c45: C45::default(),
    }));
    CUR.with(|c| *c.borrow_mut() = Some(w.clone()));

    let w_main = w.clone();
    exec::block_on(async move {
        let w = w_main;
        exec::spawn("net", pump(w.clone()));

        // ---- server daemon ----
        let srv_cfg = CsptpConfig {
            identity: ClockIdentity([0xaa, 0xbb, 0xcc, 0xff, 0xfe, 0x01, 0x02, 0x03]),
            priority_1: choose("cfg.srv.p1", 256) as u8,
            priority_2: choose("cfg.srv.p2", 256) as u8,
            clock_quality: ClockQuality::default(),
            ptp_timescale: chance("cfg.srv.ptp", 0.5),
            time_traceable: chance("cfg.srv.tt", 0.5),
            frequency_traceable: chance("cfg.srv.ft", 0.5),
        };
        let srv_mgr: Rc<CsptpManager<RefCell<InternalState>>> = Rc::new(CsptpManager::new(srv_cfg));
        let mut server_task = None;
        if has_server {
            let m = srv_mgr.clone();
            let sock = SrvSock { w: w.clone() };
            let sd = w.borrow().srv_shutdown.clone();
            server_task = Some(exec::spawn("server", async move {
                statime_csptp::serve(sock, sd.notified(), &m).await;
                ev!("serve() returned");
            }));
            if mutate_state {
                exec::spawn("daemon-state", state_mutator(srv_mgr.clone(), 5 + choose("cfg.srv-mutations", 30), allow_65535));
            }
        }

        // ---- client daemon ----
        let cli_shutdown = Rc::new(Notify::new());
        let mut client_task = None;
        if has_client {
            let cli_mgr: Rc<CsptpManager<RefCell<InternalState>>> = Rc::new(CsptpManager::new(CsptpConfig::default()));
            CLI_MGR.with(|m| *m.borrow_mut() = Some(cli_mgr.clone()));
            let local = ClockId::SYSTEM;
            let remote = ClockId::new();
            {
                let mut g = w.borrow_mut();
                g.c44.local = Some(local);
                g.c44.remote = Some(remote);
            }
            if active_source {
                cli_mgr.update_used_sources([(remote, SourceType::Csptp)].into_iter());
            }
            let cfg = CsptpSourceConfig {
                poll_interval: Duration::from_millis(poll_ms),
                response_interval: Duration::from_millis(resp_ms),
                domain,
            };
            let w2 = w.clone();
            let sd = cli_shutdown.clone();
            client_task = Some(exec::spawn("client", async move {
                let mgr = cli_mgr;
                let mut source = CsptpSource::new(local, remote, cfg, &*mgr, RecCtl);
                let r = source
                    .run(
                        sd.notified(),
                        || Ok::<_, std::convert::Infallible>(open_client_socket(&w2)),
                        tokio::time::sleep,
                        || SeedRng(simkit::sub_rng("cli.rng")),
                    )
                    .await;
                ev!("CsptpSource::run returned {:?}", r.is_ok());
            }));
        }
        if has_byz {
            let target = CLIENT;
            exec::spawn("byz", byz_server(w.clone(), byz_cfg, target));
        }
        if has_fuzz {
            exec::spawn("fuzz", fuzzer(w.clone(), 5 + choose("cfg.nfuzz", 80)));
        }

        // ---- let it run ----
        let horizon_ns = if has_client { nreq * poll_ms * 1_100_000 + 2_000_000_000 } else { 40_000_000_000 };
        let step = if has_client { (poll_ms * 1_000_000).max(50_000_000) } else { 500_000_000 };
        let arm_mid = if shutdown_mid_answer { 1 + choose("cfg.mid-after", 6) } else { u64::MAX };
        loop {
            exec::sleep_ns(step).await;
            let (reqs, answers, drained) = {
                let g = w.borrow();
                (g.c44.nreq, g.c45.nanswers, g.fuzz_done && g.net.in_flight() == 0 && g.srv_inbox.is_empty())
            };
            if answers >= arm_mid && !w.borrow().srv_shutdown_on_answer {
                w.borrow_mut().srv_shutdown_on_answer = true;
            }
            if now() >= horizon_ns || simkit::out_of_budget() {
                break;
            }
            if has_client && reqs >= nreq {
                break;
            }
            if !has_client && drained {
                break;
            }
        }
        // ---- orderly shutdown of both daemons ----
        if let Some(t) = client_task {
            cli_shutdown.notify_one();
            exec::sleep_ns(1_000_000).await;
            if exec::task_alive(t) {
                simkit::abort("CsptpSource::run did not return after shutdown".into());
            } else {
                probe("client-shutdown-clean");
            }
        }
        if let Some(t) = server_task {
            let sd = w.borrow().srv_shutdown.clone();
            sd.notify_one();
            exec::sleep_ns(20_000_000).await;
            if exec::task_alive(t) {
                simkit::abort("serve() did not return after shutdown".into());
            } else {
                probe("server-shutdown-clean");
            }
        }
    });

    // ---- after the run ------------------------------------------------------
    {
        let mut g = w.borrow_mut();
        let crashed = !exec::crashes().is_empty();
        if !crashed && !simkit::out_of_budget() {
            finalize_input(&mut g.c45);
            check_status_update(&mut g);
        }
        if g.c44.nmeas > 0 {
            probe("measurement-produced");
        }
        if g.c45.nanswers > 0 {
            probe("server-answered");
        }
    }
    for (task, msg) in exec::crashes() {
        match task.as_str() {
            "client" => {
                let g = w.borrow();
                let ctx = g
                    .c44
                    .cur
                    .as_ref()
                    .map(|r| {
                        let last: Vec<String> = r
                            .received
                            .iter()
                            .rev()
                            .take(3)
                            .map(|x| match &x.parsed {
                                Some(p) => format!(
                                    "[type={} dom={} seq={} two_step={} corr={} body_ts={} resp_tlv={:?} steps_removed={:?} rx_ts={:?}]",
                                    p.msg_type,
                                    p.domain,
                                    p.seq,
                                    p.two_step(),
                                    p.correction,
                                    p.body_ts,
                                    p.response_tlv(),
                                    p.status_tlv().map(|s| s.steps_removed),
                                    x.rx_ts
                                ),
                                None => "[unparsable]".to_string(),
                            })
                            .collect();
                        format!("req#{} dom={} seq={} send_ts={:?}; last datagrams received (newest first): {}", r.idx, r.domain, r.seq, r.send_ts, last.join(" "))
                    })
                    .unwrap_or_default();
                let oracle = if msg.contains("Calculated nanoseconds should be between") {
                    "source-run-panic/add-correction-timestamp-range"
                } else if msg.contains("attempt to add with overflow") && msg.contains("statime-csptp/src/source.rs") {
                    "source-run-panic/steps-removed-overflow"
                } else if msg.contains("nanos < 1_000_000_000") {
                    "source-run-panic/nanoseconds-debug-assert"
                } else {
                    "source-run-panic"
                };
                simkit::violation("C44", oracle, format!("CsptpSource::run panicked: {msg}; {ctx}"));
            }
            "server" => {
                let g = w.borrow();
                let ctx = g.c45.cur.as_ref().map(|i| format!("input #{} {}", i.idx, hex(&i.bytes))).unwrap_or_default();
                simkit::violation("C45", "serve-panic", format!("statime_csptp::serve panicked: {msg}; {ctx}"));
            }
            _ => simkit::abort(format!("harness task {task} crashed: {msg}")),
        }
    }
    if has_client {
        simkit::oracle("C44");
    }
    if has_server {
        simkit::oracle("C45");
    }
    CUR.with(|c| *c.borrow_mut() = None);
    CLI_MGR.with(|m| *m.borrow_mut() = None);
    ntp_proto::verif::clear();
}
