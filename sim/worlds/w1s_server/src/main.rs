//! W1s — NTP server world (DESIGN.md §4 "W1", server side): the real `ntp_proto::Server` behind
//! the daemon's reply convention (mirrored, or the real `ServerTask::serve` loop on a simulated
//! socket), real and adversarial clients, key rotation and changing synchronisation state.
//! Decides C15, C16, C17, C18, C20, C21, C22.

mod oracle;
mod wire;
mod world;

use simkit::batch::{cli_main, Level, Property, WorldDef};

fn main() {
    let p = |id, rule| Property {
        id,
        level: Level::Exploration,
        quick_runs: 150_000,
        thorough_runs: 3_000_000,
        quick_wall_s: 60.0,
        thorough_wall_s: 600.0,
        event_cap: 20_000,
        enumerate: None,
        rule,
        assumptions: &[
            "sockets are simulated: half of the runs drive the real ntpd ServerTask::serve loop through a socket shim (hook H14), the other half mirror its 15 lines of receive/reply glue to see every statistics entry",
            "the rate limiter's monotonic clock and hasher seed are the simulator's (hook H4); the slot an address maps to is read from the server (read-only probe), everything else of the C20 model is independent",
            "NTS sessions are minted in-crate with KeySet::encode_cookie instead of a key exchange",
            "server synchronisation states are limited to root dispersion < 65536 s and non-negative variance terms (beyond that the packet encoder has debug assertions by design)",
        ],
    };
    cli_main(WorldDef {
        name: "w1s",
        run: world::run,
        properties: vec![
            p("C15", "one run = 1-4 servers with swarm access lists (nested / adjacent / IPv4-mapped subnets, both actions), require-nts, accepted versions; clients at subnet boundaries; every delivered datagram's outcome is compared with the statement's policy (independent prefix membership), both directions"),
            p("C16", "as C15; every reply produced with the daemon's request-sized buffer is compared with the request length (real serve loop in half of the runs)"),
            p("C17", "as C15; every request not dropped by the rate limiter is handled again by a twin server (rate limiting off, same key set / time / state) with a 4096-byte buffer: if the twin answers, the daemon-sized call must have answered the same way"),
            p("C18", "as C15; every reply is read by an independent header reader + extension-field walker (NTS parts decrypted with the session keys) and compared with the request, the delivery timestamp and the synchronisation state in force; canaries planted in everything that must not come back"),
            p("C20", "as C15 with small caches, bursts spaced at cutoff-1/0/+1 ns and slot-mates in between; an independent slot array decides rate limiting, compared both ways with the RateLimit statistics"),
            p("C21", "as C15; per datagram exactly one statistics entry whose kind matches what the client saw, NTS flag semantics, exact counter increments of the daemon's ServerStats (also for untimestamped datagrams, receive errors and failed sends in the real serve loop)"),
            p("C22", "as C15 with truncate/extend/bitflip/byteset damage on real NTS / plain / v5 requests and adversarial layouts; any panic while a server handles a datagram (either buffer size, either serve mode) is the violation"),
        ],
        real_components: &[
            "ntp_proto::Server::handle / handle_inner (policy, rate limiter, NTS decode, response builders, serialisation)",
            "ntp_proto::KeySetProvider / KeySet (rotation, cookie encode/decode), packet codec, AES-SIV ciphers, IpFilter",
            "ntpd ServerTask::serve + ServerStats (real loop on a simulated socket in ~50% of the runs; ServerStats always)",
            "ntpd config::ServerConfig -> ntp_proto::ServerConfig conversion and IpSubnet text parsing",
            "ntp_proto::NtpPacket::{poll_message, poll_message_upgrade_request, poll_message_v5, nts_poll_message, nts_poll_message_v5} as the honest clients",
        ],
        stub_components: &[
            "UDP socket -> simulated socket (H14) / mirrored glue",
            "NTS key exchange -> cookies minted directly under the server's key set",
            "kernel clock -> SimClock; kernel receive timestamps -> simulated time",
            "NtpManager system snapshot updates -> seeded rewrites of the shared NtpServerInfo",
        ],
    })
}
