//! Reference models for the server world, written from the property statements (C15-C18, C20,
//! C21): access-list membership by bit-prefix comparison, the policy verdict, the rate limiter's
//! slot array, the statistics increment table and the response reader.

use std::net::IpAddr;

use crate::wire::{self, View};

#[derive(Clone, Copy, Debug, PartialEq, Eq)]
pub enum Action {
    Ignore,
    Deny,
}

/// One configured subnet as the model sees it (IPv4-mapped notation already reduced to IPv4,
/// which is what the configuration documents).
#[derive(Clone, Debug)]
pub struct Subnet {
    pub v6: bool,
    /// address bits left-aligned in 128 bits
    pub bits: u128,
    pub mask: u8,
    /// the configuration text the real server parses
    pub text: String,
}

pub fn canon(addr: IpAddr) -> (bool, u128) {
    match addr {
        IpAddr::V4(a) => (false, (u32::from_be_bytes(a.octets()) as u128) << 96),
        IpAddr::V6(a) => {
            let o = a.octets();
            if o[..10].iter().all(|b| *b == 0) && o[10] == 0xff && o[11] == 0xff {
                (false, (u32::from_be_bytes([o[12], o[13], o[14], o[15]]) as u128) << 96)
            } else {
                (true, u128::from_be_bytes(o))
            }
        }
    }
}

pub fn member(list: &[Subnet], addr: IpAddr) -> bool {
    let (v6, a) = canon(addr);
    list.iter().any(|s| {
        if s.v6 != v6 {
            return false;
        }
        if s.mask == 0 {
            return true;
        }
        ((s.bits ^ a) >> (128 - s.mask as u32)) == 0
    })
}

#[derive(Clone, Debug)]
pub struct ModelCfg {
    pub deny: Vec<Subnet>,
    pub deny_action: Action,
    pub allow: Vec<Subnet>,
    pub allow_action: Action,
    pub cache_size: usize,
    pub cutoff_ns: u64,
    pub require_nts: Option<Action>,
    pub versions: Vec<u8>,
    pub history: usize,
}

/// Which access list (if any) stops this client.
#[derive(Clone, Copy, Debug, PartialEq, Eq)]
pub enum ListVerdict {
    Denied(Action),
    NotAllowed(Action),
    Pass,
}

pub fn lists(cfg: &ModelCfg, addr: IpAddr) -> ListVerdict {
    if member(&cfg.deny, addr) {
        ListVerdict::Denied(cfg.deny_action)
    } else if !member(&cfg.allow, addr) {
        ListVerdict::NotAllowed(cfg.allow_action)
    } else {
        ListVerdict::Pass
    }
}

/// Rate limiter model: the statement's slot array.
pub struct Slots {
    pub slots: Vec<Option<(IpAddr, u64)>>,
}

impl Slots {
    pub fn new(n: usize) -> Slots {
        Slots { slots: vec![None; n] }
    }
    /// A request from `addr` that passed the access lists arrives at `now`; `slot` is the cache
    /// slot of `addr`. Returns (limited, slot was held by another address).
    pub fn arrive(&mut self, addr: IpAddr, slot: Option<usize>, now: u64, cutoff: u64) -> (bool, bool) {
        let Some(i) = slot else { return (false, false) };
        if self.slots.is_empty() {
            return (false, false);
        }
        let prev = self.slots[i];
        self.slots[i] = Some((addr, now));
        match prev {
            Some((a, t)) if a == addr => (now.saturating_sub(t) < cutoff, false),
            Some(_) => (false, true),
            None => (false, false),
        }
    }
}

/// What the client saw.
#[derive(Clone, Copy, Debug, PartialEq, Eq)]
pub enum Seen {
    Nothing,
    Time,
    Deny,
    Nak,
    Rate,
    /// stratum 0 but no recognisable kiss code
    OtherKiss,
    /// not even a header
    Garbage,
}

pub fn classify(resp: Option<&[u8]>) -> Seen {
    let Some(r) = resp else { return Seen::Nothing };
    if r.len() < 48 {
        return Seen::Garbage;
    }
    if r[1] != 0 {
        return Seen::Time;
    }
    let version = (r[0] >> 3) & 7;
    if version == 5 {
        if r[15] & 0b100 != 0 {
            Seen::Nak
        } else if r[2] == 0x7f {
            Seen::Deny
        } else {
            Seen::OtherKiss
        }
    } else {
        match &r[12..16] {
            b"DENY" => Seen::Deny,
            b"NTSN" => Seen::Nak,
            b"RATE" => Seen::Rate,
            _ => Seen::OtherKiss,
        }
    }
}

/// Statistics counters in the order of `ServerStats`' fields.
pub const N_COUNTERS: usize = 11;
pub const RECEIVED: usize = 0;
pub const ACCEPTED: usize = 1;
pub const DENIED: usize = 2;
pub const IGNORED: usize = 3;
pub const RATE_LIMITED: usize = 4;
pub const SEND_ERRORS: usize = 5;
pub const NTS_RECEIVED: usize = 6;
pub const NTS_ACCEPTED: usize = 7;
pub const NTS_DENIED: usize = 8;
pub const NTS_RATE_LIMITED: usize = 9;
pub const NTS_NAK: usize = 10;
pub const COUNTER_NAMES: [&str; N_COUNTERS] = [
    "received", "accepted", "denied", "ignored", "rate_limited", "send_errors", "nts_received", "nts_accepted", "nts_denied",
    "nts_rate_limited", "nts_nak",
];

#[derive(Clone, Copy, Debug, PartialEq, Eq)]
pub enum Kind {
    Time,
    Deny,
    Nak,
    Ignored,
    RateLimited,
}

/// The increments one statistics entry of the given kind / NTS flag stands for (from the
/// counters' names: every entry is received; exactly one disposition; the nts_* twins when flagged).
pub fn increments(kind: Kind, nts: bool) -> [u64; N_COUNTERS] {
    let mut d = [0u64; N_COUNTERS];
    d[RECEIVED] = 1;
    match kind {
        Kind::Time => d[ACCEPTED] = 1,
        Kind::Deny => d[DENIED] = 1,
        Kind::Nak => d[NTS_NAK] = 1,
        Kind::Ignored => d[IGNORED] = 1,
        Kind::RateLimited => d[RATE_LIMITED] = 1,
    }
    if nts {
        d[NTS_RECEIVED] = 1;
        match kind {
            Kind::Time => d[NTS_ACCEPTED] = 1,
            Kind::Deny => d[NTS_DENIED] = 1,
            Kind::RateLimited => d[NTS_RATE_LIMITED] = 1,
            _ => {}
        }
    }
    d
}

/// Read (kind, nts flag) back from a counter delta; None if the delta is not exactly one entry.
pub fn decode_delta(d: &[u64; N_COUNTERS]) -> Option<(Kind, bool)> {
    for kind in [Kind::Time, Kind::Deny, Kind::Nak, Kind::Ignored, Kind::RateLimited] {
        for nts in [false, true] {
            let mut e = increments(kind, nts);
            e[SEND_ERRORS] = d[SEND_ERRORS];
            if &e == d {
                return Some((kind, nts));
            }
        }
    }
    None
}

/// The server's synchronisation state as the model knows it (the bytes it must put on the wire).
#[derive(Clone, Debug)]
pub struct InfoModel {
    pub stratum: u8,
    pub leap_bits: u8,
    pub refid: [u8; 4],
    pub precision: i8,
    /// root delay, 32.32 fixed point, non-negative
    pub root_delay_raw: u64,
    pub var: [f64; 4],
    /// 32.32 timestamp from which the variance polynomial runs
    pub base_time_raw: u64,
    pub bloom: Vec<u8>,
}

impl InfoModel {
    /// Root dispersion in seconds at receive time `recv_raw` (32.32), from the documented polynomial.
    pub fn dispersion(&self, recv_raw: u64) -> f64 {
        let t = (recv_raw.wrapping_sub(self.base_time_raw) as i64) as f64 / 4294967296.0;
        (self.var[0] + t * self.var[1] + t * t * self.var[2] + t * t * t * self.var[3]).sqrt()
    }
}

/// Expected 32.32 receive timestamp for a kernel software timestamp (unix seconds, nanoseconds):
/// NTP era seconds = unix + 2208988800 (mod 2^32), fraction = nanos * 2^32 / 10^9.
pub fn ntp_from_unix(secs: i64, nanos: u32) -> u64 {
    let s = (secs as u64).wrapping_add(2_208_988_800) as u32 as u64;
    (s << 32) + (((nanos as u64) << 32) / 1_000_000_000)
}

/// A mismatch found by the response reader: (clause id, detail).
pub type Finding = (&'static str, String);

pub struct RespCtx<'a> {
    pub req: &'a [u8],
    pub req_view: &'a View,
    pub resp: &'a [u8],
    pub info: &'a InfoModel,
    pub recv_raw: u64,
    /// plaintext of the response's encrypted field, when the harness could decrypt it
    pub plain: Option<&'a [u8]>,
    pub canaries: &'a [[u8; 8]],
    /// the request was a valid NTS request by construction (the client holds session keys)
    pub nts_keys: bool,
}

/// C18: read the response with an independent header reader and field walker.
pub fn check_response(c: &RespCtx<'_>) -> Vec<Finding> {
    let mut out: Vec<Finding> = Vec::new();
    let (req, resp) = (c.req, c.resp);
    if resp.len() < 48 {
        out.push(("c18-short-response", format!("response of {} bytes", resp.len())));
        return out;
    }
    if req.len() < 48 {
        out.push(("c18-answer-to-headerless-request", format!("request of {} bytes was answered", req.len())));
        return out;
    }
    let version = (resp[0] >> 3) & 7;
    let req_version = (req[0] >> 3) & 7;
    if version != req_version {
        out.push(("c18-version", format!("request version {req_version} answered with version {version}")));
    }
    if resp[0] & 7 != 4 {
        out.push(("c18-mode", format!("response mode {}", resp[0] & 7)));
    }
    let v5 = version == 5;
    // the identifying field: v3/v4 transmit timestamp -> origin; v5 client cookie -> client cookie
    let echoed = &resp[24..32];
    let want = if v5 { &req[24..32] } else { &req[40..48] };
    if echoed != want {
        out.push(("c18-origin-echo", format!("echo {echoed:02x?} want {want:02x?}")));
    }
    let time = resp[1] != 0;
    if time {
        if resp[1] != c.info.stratum {
            out.push(("c18-stratum", format!("stratum {} want {}", resp[1], c.info.stratum)));
        }
        if resp[0] >> 6 != c.info.leap_bits {
            out.push(("c18-leap", format!("leap {} want {}", resp[0] >> 6, c.info.leap_bits)));
        }
        if resp[2] != req[2] {
            out.push(("c18-poll-echo", format!("poll {} want {}", resp[2], req[2])));
        }
        if resp[3] as i8 != c.info.precision {
            out.push(("c18-precision", format!("precision {} want {}", resp[3] as i8, c.info.precision)));
        }
        if resp[32..40] != c.recv_raw.to_be_bytes() {
            out.push(("c18-receive-time", format!("receive {:02x?} want {:016x}", &resp[32..40], c.recv_raw)));
        }
        // NTPv5 time32 tops out at 16 s (saturating)
        let disp_want = if v5 { c.info.dispersion(c.recv_raw).min(16.0) } else { c.info.dispersion(c.recv_raw) };
        let (delay_got, disp_got, delay_want) = if v5 {
            // time32: 4.28 fixed point
            let dw = u32::try_from(c.info.root_delay_raw >> 4).unwrap_or(u32::MAX);
            (u32::from_be_bytes(resp[4..8].try_into().unwrap()), u32::from_be_bytes(resp[8..12].try_into().unwrap()) as f64 / (1u64 << 28) as f64, dw)
        } else {
            // NTP short: 16.16 fixed point
            let dw = ((c.info.root_delay_raw >> 16) & 0xFFFF_FFFF) as u32;
            (u32::from_be_bytes(resp[4..8].try_into().unwrap()), u32::from_be_bytes(resp[8..12].try_into().unwrap()) as f64 / 65536.0, dw)
        };
        if delay_got != delay_want {
            out.push(("c18-root-delay", format!("root delay {delay_got:#x} want {delay_want:#x}")));
        }
        let tol = 1e-4 * disp_want.abs() + if v5 { 1e-7 } else { 4e-5 };
        if (disp_got - disp_want).abs() > tol {
            out.push(("c18-root-dispersion", format!("root dispersion {disp_got} want {disp_want}")));
        }
        if v5 {
            if resp[12] != 0 || resp[13] != 0 {
                out.push(("c18-v5-timescale-era", format!("timescale {} era {}", resp[12], resp[13])));
            }
        } else if resp[12..16] != c.info.refid {
            out.push(("c18-reference-id", format!("refid {:02x?} want {:02x?}", &resp[12..16], c.info.refid)));
        }
    } else {
        // DENY / RATE / NTS-NAK: stratum 0 (it is) and no server timestamps
        if resp[32..40] != [0u8; 8] || resp[40..48] != [0u8; 8] {
            out.push(("c18-kiss-timestamps", format!("kiss answer carries timestamps {:02x?}", &resp[32..48])));
        }
        match classify(Some(resp)) {
            Seen::Deny | Seen::Nak | Seen::Rate => {}
            other => out.push(("c18-kiss-code", format!("stratum 0 answer without a known kiss code: {other:?}"))),
        }
    }

    // extension fields
    let rv = wire::walk(resp);
    if version != 3 && (!rv.walk_ok || rv.mac_len != 0) {
        out.push(("c18-response-structure", format!("response does not parse as header + extension fields (walk_ok={} trailing={})", rv.walk_ok, rv.mac_len)));
    }
    if version == 3 && resp.len() != 48 {
        out.push(("c18-response-structure", format!("NTPv3 answer of {} bytes", resp.len())));
    }
    let req_uids: Vec<&wire::Field> = c.req_view.fields.iter().filter(|f| f.type_id == wire::T_UID).collect();
    let req_refs: Vec<&wire::Field> = c.req_view.fields.iter().filter(|f| f.type_id == wire::T_REFREQ).collect();
    let mut uid_used = vec![false; req_uids.len()];
    let mut ref_used = vec![false; req_refs.len()];
    for f in &rv.fields {
        match f.type_id {
            wire::T_UID => {
                // must be a not yet echoed unique identifier of the request, possibly zero padded
                let hit = (0..req_uids.len()).find(|i| {
                    let b = &req_uids[*i].body;
                    !uid_used[*i] && f.body.len() >= b.len() && f.body[..b.len()] == b[..] && f.body[b.len()..].iter().all(|x| *x == 0)
                });
                match hit {
                    Some(i) => uid_used[i] = true,
                    None => out.push(("c18-uid-not-from-request", format!("unique identifier {:02x?} not among the request's", f.body))),
                }
            }
            wire::T_REFRESP if v5 && time => {
                let hit = (0..req_refs.len()).find(|i| {
                    let b = &req_refs[*i].body;
                    if ref_used[*i] || b.len() < 2 {
                        return false;
                    }
                    let off = u16::from_be_bytes([b[0], b[1]]) as usize;
                    match c.info.bloom.get(off..).and_then(|s| s.get(..b.len())) {
                        Some(want) => f.body.len() >= want.len() && f.body[..want.len()] == *want && f.body[want.len()..].iter().all(|x| *x == 0),
                        None => false,
                    }
                });
                match hit {
                    Some(i) => ref_used[i] = true,
                    None => out.push(("c18-refid-response", format!("reference-id response of {} bytes matches no request field / filter window", f.body.len()))),
                }
            }
            wire::T_DRAFT if v5 => {
                let n = wire::DRAFT.len();
                if f.body.len() < n || &f.body[..n] != wire::DRAFT || f.body[n..].iter().any(|x| *x != 0) {
                    out.push(("c18-draft-id", format!("draft identification {:02x?}", f.body)));
                }
            }
            wire::T_PAD if v5 => {
                if f.body.iter().any(|x| *x != 0) {
                    out.push(("c18-padding-nonzero", "non-zero padding field".to_string()));
                }
            }
            wire::T_ENC => {
                if !c.req_view.has_type(wire::T_ENC) {
                    out.push(("c18-foreign-field", "encrypted field in the answer to a request without one".to_string()));
                }
            }
            t => out.push(("c18-foreign-field", format!("field type {t:#06x} ({} bytes) in the answer", f.body.len()))),
        }
    }
    if let Some(p) = c.plain {
        match wire::walk_plain(p, v5) {
            Some(fields) => {
                for f in fields {
                    if f.type_id != wire::T_COOKIE {
                        out.push(("c18-foreign-encrypted-field", format!("field type {:#06x} inside the encrypted answer", f.type_id)));
                    }
                }
            }
            None => out.push(("c18-response-structure", "encrypted part of the answer does not parse".to_string())),
        }
    }

    // nothing else of the request comes back
    for can in c.canaries {
        if wire::contains(resp, can) || c.plain.map(|p| wire::contains(p, can)).unwrap_or(false) {
            out.push(("c18-canary-reflected", format!("request bytes {can:02x?} appear in the answer")));
        }
    }
    out
}
