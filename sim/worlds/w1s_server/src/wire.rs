//! Independent wire-level code for the server world: a byte-level request builder (the
//! adversary's hand-built layouts) and a 48-byte header reader + extension-field walker used by
//! the oracles. Written from RFC 5905 / 7822 / 8915 and the NTPv5 draft field layout, not from the
//! repo's codec: nothing here calls `NtpPacket`.

use ntp_proto::Cipher;

pub const T_UID: u16 = 0x0104;
pub const T_COOKIE: u16 = 0x0204;
pub const T_PLACEHOLDER: u16 = 0x0304;
pub const T_ENC: u16 = 0x0404;
pub const T_DRAFT: u16 = 0xF5FF;
pub const T_PAD: u16 = 0xF501;
pub const T_REFREQ: u16 = 0xF503;
pub const T_REFRESP: u16 = 0xF504;
pub const DRAFT: &[u8] = b"draft-ietf-ntp-ntpv5-09";
/// "NTP5DRFT": reference timestamp with which an NTPv4 client asks for the NTPv5 upgrade
pub const UPGRADE_TS: &[u8; 8] = b"NTP5DRFT";

pub fn pad4(n: usize) -> usize {
    (n + 3) & !3
}

#[derive(Clone, Debug)]
pub struct Field {
    pub type_id: u16,
    /// offset of the field header in the datagram
    pub start: usize,
    /// bytes the field occupies on the wire (including v5 padding)
    pub wire_len: usize,
    /// declared length minus the 4 header bytes
    pub body: Vec<u8>,
}

#[derive(Clone, Debug, Default)]
pub struct View {
    pub len: usize,
    pub version: u8,
    pub mode: u8,
    pub fields: Vec<Field>,
    /// the TLV walk consumed the datagram without a structural error
    pub walk_ok: bool,
    /// no reading of the RFCs makes this a valid NTP datagram (short header, field running past
    /// the end, impossible field length, 1-3 stray trailing bytes)
    pub malformed: bool,
    /// bytes after the last extension field (v3/v4: the MAC)
    pub mac_len: usize,
}

impl View {
    pub fn has_type(&self, t: u16) -> bool {
        self.fields.iter().any(|f| f.type_id == t)
    }
    pub fn has_nts_types(&self) -> bool {
        self.has_type(T_COOKIE) || self.has_type(T_PLACEHOLDER) || self.has_type(T_ENC)
    }
    pub fn count(&self, t: u16) -> usize {
        self.fields.iter().filter(|f| f.type_id == t).count()
    }
}

fn be16(b: &[u8], off: usize) -> usize {
    u16::from_be_bytes([b[off], b[off + 1]]) as usize
}

/// Walk a datagram (request or response) without any key material.
pub fn walk(b: &[u8]) -> View {
    let mut v = View { len: b.len(), ..View::default() };
    if b.is_empty() {
        v.malformed = true;
        return v;
    }
    v.version = (b[0] >> 3) & 7;
    v.mode = b[0] & 7;
    if b.len() < 48 {
        v.malformed = true;
        return v;
    }
    match v.version {
        3 => {
            v.mac_len = b.len() - 48;
            v.walk_ok = v.mac_len == 0 || (4..=24).contains(&v.mac_len);
            v.malformed = !v.walk_ok;
        }
        4 => {
            // RFC 7822: whatever is left once 24 or fewer bytes remain is the MAC
            let mut off = 48;
            v.walk_ok = true;
            while b.len() - off > 24 {
                let rem = b.len() - off;
                let flen = be16(b, off + 2);
                if flen < 4 || flen % 4 != 0 || flen > rem {
                    v.walk_ok = false;
                    v.malformed = true;
                    break;
                }
                v.fields.push(Field {
                    type_id: be16(b, off) as u16,
                    start: off,
                    wire_len: flen,
                    body: b[off + 4..off + flen].to_vec(),
                });
                off += flen;
            }
            if v.walk_ok {
                v.mac_len = b.len() - off;
                if (1..=3).contains(&v.mac_len) {
                    v.walk_ok = false;
                    v.malformed = true;
                }
            }
        }
        5 => {
            let mut off = 48;
            v.walk_ok = true;
            while off < b.len() {
                let rem = b.len() - off;
                if rem < 4 {
                    v.walk_ok = false;
                    v.malformed = true;
                    break;
                }
                let flen = be16(b, off + 2);
                if flen < 4 || pad4(flen) > rem {
                    v.walk_ok = false;
                    v.malformed = true;
                    break;
                }
                v.fields.push(Field {
                    type_id: be16(b, off) as u16,
                    start: off,
                    wire_len: pad4(flen),
                    body: b[off + 4..off + flen].to_vec(),
                });
                off += pad4(flen);
            }
        }
        _ => {}
    }
    v
}

/// Walk the plaintext of a decrypted NTS field (fields may be as short as 4 bytes).
pub fn walk_plain(b: &[u8], v5: bool) -> Option<Vec<Field>> {
    let mut out = Vec::new();
    let mut off = 0;
    while off < b.len() {
        let rem = b.len() - off;
        if rem < 4 {
            return None;
        }
        let flen = be16(b, off + 2);
        if flen < 4 || pad4(flen) > rem || (!v5 && flen % 4 != 0) {
            return None;
        }
        out.push(Field {
            type_id: be16(b, off) as u16,
            start: off,
            wire_len: pad4(flen),
            body: b[off + 4..off + flen].to_vec(),
        });
        off += pad4(flen);
    }
    Some(out)
}

/// Nonce and ciphertext of an NTS authenticator-and-encrypted-fields body.
pub fn split_enc(body: &[u8]) -> Option<(&[u8], &[u8])> {
    if body.len() < 4 {
        return None;
    }
    let nl = be16(body, 0);
    let cl = be16(body, 2);
    let nonce = body.get(4..4 + nl)?;
    let cs = 4 + pad4(nl);
    let ct = body.get(cs..cs + cl)?;
    Some((nonce, ct))
}

// ---------------------------------------------------------------------------
// builder
// ---------------------------------------------------------------------------

/// The 48 header bytes as five opaque groups; the caller decides what goes where.
#[derive(Clone, Debug)]
pub struct Hdr {
    pub li: u8,
    pub version: u8,
    pub mode: u8,
    pub stratum: u8,
    pub poll: u8,
    pub precision: u8,
    /// bytes 4..16 (v4: root delay, root dispersion, reference id; v5: root delay, dispersion, timescale, era, flags)
    pub b4: [u8; 12],
    /// bytes 16..24 (v4: reference timestamp; v5: server cookie)
    pub b16: [u8; 8],
    /// bytes 24..32 (v4: origin timestamp; v5: client cookie)
    pub b24: [u8; 8],
    /// bytes 32..40 (receive timestamp)
    pub b32: [u8; 8],
    /// bytes 40..48 (transmit timestamp)
    pub b40: [u8; 8],
}

impl Hdr {
    pub fn bytes(&self) -> Vec<u8> {
        let mut o = Vec::with_capacity(48);
        o.push((self.li << 6) | ((self.version & 7) << 3) | (self.mode & 7));
        o.push(self.stratum);
        o.push(self.poll);
        o.push(self.precision);
        o.extend_from_slice(&self.b4);
        o.extend_from_slice(&self.b16);
        o.extend_from_slice(&self.b24);
        o.extend_from_slice(&self.b32);
        o.extend_from_slice(&self.b40);
        o
    }
}

/// One extension field: declared length = 4 + body length; in v5 the wire is zero-padded to 4.
pub fn ef(type_id: u16, body: &[u8]) -> Vec<u8> {
    let mut o = Vec::with_capacity(4 + pad4(body.len()));
    o.extend_from_slice(&type_id.to_be_bytes());
    o.extend_from_slice(&((body.len() + 4) as u16).to_be_bytes());
    o.extend_from_slice(body);
    while o.len() % 4 != 0 {
        o.push(0);
    }
    o
}

/// Extension field with an arbitrary declared length (inconsistent layouts).
pub fn ef_raw(type_id: u16, declared: u16, body: &[u8]) -> Vec<u8> {
    let mut o = Vec::with_capacity(4 + body.len());
    o.extend_from_slice(&type_id.to_be_bytes());
    o.extend_from_slice(&declared.to_be_bytes());
    o.extend_from_slice(body);
    o
}

/// NTS authenticator-and-encrypted-fields extension field over `aad` (everything before it).
pub fn enc_ef(cipher: &dyn Cipher, aad: &[u8], plaintext: &[u8]) -> Vec<u8> {
    let mut buf = vec![0u8; plaintext.len() + 64];
    buf[..plaintext.len()].copy_from_slice(plaintext);
    let r = cipher.encrypt(&mut buf, plaintext.len(), aad).expect("harness: encrypt");
    let nonce = buf[..r.nonce_length].to_vec();
    let ct = buf[r.nonce_length..r.nonce_length + r.ciphertext_length].to_vec();
    let mut body = Vec::new();
    body.extend_from_slice(&(nonce.len() as u16).to_be_bytes());
    body.extend_from_slice(&(ct.len() as u16).to_be_bytes());
    body.extend_from_slice(&nonce);
    while body.len() % 4 != 0 {
        body.push(0);
    }
    body.extend_from_slice(&ct);
    while body.len() % 4 != 0 {
        body.push(0);
    }
    ef(T_ENC, &body)
}

pub fn contains(hay: &[u8], needle: &[u8]) -> bool {
    !needle.is_empty() && hay.len() >= needle.len() && hay.windows(needle.len()).any(|w| w == needle)
}
