//! W1s — the NTP server world. 1-4 server nodes run the REAL `ntp_proto::Server` behind either
//! (a) the daemon's receive/reply convention mirrored in `serve_mirror` (full visibility of every
//! statistics entry), or (b) the REAL `ntpd` `ServerTask::serve` loop on a simulated socket (hook
//! H14). A population of simulated clients (IPv4 / IPv6 / IPv4-mapped, biased to the configured
//! subnets' boundaries) sends real polls, NTS polls with cookies minted under the server's key
//! set, and adversarial hand-built layouts through `SimNet` (which truncates, extends, flips and
//! overwrites). Key sets rotate and the server's synchronisation state changes at seeded times.

use std::collections::VecDeque;
use std::net::{IpAddr, Ipv4Addr, Ipv6Addr, SocketAddr};
use std::sync::{Arc, RwLock};
use std::time::Duration;

use ntp_proto::verif::server::{encode_cookie, make_cookie, AesSivCmac256, AesSivCmac512, BloomFilter, ServerId};
use ntp_proto::verif::{dur_from_fixed, ts_from_fixed};
use ntp_proto::{
    Cipher, FilterAction, FilterList, IpSubnet, KeySet, KeySetProvider, NoCipher, NtpDuration, NtpLeapIndicator, NtpPacket,
    NtpServerInfo, NtpSnapshot, NtpTimestamp, NtpVersion, PollInterval, ReferenceId, Server, ServerAction, ServerReason,
    ServerResponse, ServerStatHandler, TimeSnapshot,
};
use ntpd::verif::server as dsock;
use ntpd::verif::server::{DaemonServerConfig, ServerStats, ServerTask};
use rand::SeedableRng;
use simkit::net::{Datagram, NetCfg, SimNet};
use simkit::{chance, check, choose, choose_u64, ev, exec, fault, probe, sub_rng, weighted, Rng};
use simntp::SimClock;

use crate::oracle::{self, Action, InfoModel, Kind, ListVerdict, ModelCfg, Seen, Slots, Subnet};
use crate::wire::{self, Hdr};

const MAX_PACKET_SIZE: usize = 1024;
const NETWORK_WAIT: Duration = Duration::from_millis(100);

// ---------------------------------------------------------------------------
// statistics observation
// ---------------------------------------------------------------------------

type Reg = (u8, bool, ServerReason, ServerResponse);

/// Counting wrapper around the daemon's real `ServerStats` (mirror mode).
struct Counting {
    inner: ServerStats,
    regs: Vec<Reg>,
}

impl ServerStatHandler for Counting {
    fn register(&mut self, version: u8, nts: bool, reason: ServerReason, response: ServerResponse) {
        self.regs.push((version, nts, reason, response));
        self.inner.register(version, nts, reason, response);
    }
}

/// Statistics sink of the twin (never inspected beyond the last entry).
#[derive(Default)]
struct TwinStats {
    regs: Vec<Reg>,
}

impl ServerStatHandler for TwinStats {
    fn register(&mut self, version: u8, nts: bool, reason: ServerReason, response: ServerResponse) {
        self.regs.push((version, nts, reason, response));
    }
}

fn snap(s: &ServerStats) -> [u64; oracle::N_COUNTERS] {
    [
        s.received_packets.get(),
        s.accepted_packets.get(),
        s.denied_packets.get(),
        s.ignored_packets.get(),
        s.rate_limited_packets.get(),
        s.response_send_errors.get(),
        s.nts_received_packets.get(),
        s.nts_accepted_packets.get(),
        s.nts_denied_packets.get(),
        s.nts_rate_limited_packets.get(),
        s.nts_nak_packets.get(),
    ]
}

fn fmt_delta(d: &[u64; oracle::N_COUNTERS]) -> String {
    let mut s = String::new();
    for (i, v) in d.iter().enumerate() {
        if *v != 0 {
            s.push_str(&format!("{}+{} ", oracle::COUNTER_NAMES[i], v));
        }
    }
    s
}

fn kind_of(reason: ServerReason, response: ServerResponse) -> Kind {
    match (response, reason) {
        (ServerResponse::ProvideTime, _) => Kind::Time,
        (ServerResponse::Deny, _) => Kind::Deny,
        (ServerResponse::NTSNak, _) => Kind::Nak,
        (ServerResponse::Ignore, ServerReason::RateLimit) => Kind::RateLimited,
        (ServerResponse::Ignore, _) => Kind::Ignored,
    }
}

// ---------------------------------------------------------------------------
// nodes
// ---------------------------------------------------------------------------

enum Real {
    /// the daemon's receive/reply convention mirrored in `serve_mirror`
    Mirror { server: Server<SimClock>, stats: Counting },
    /// the daemon's real `ServerTask::serve` on a simulated socket (H14)
    Task {
        sock: dsock::SharedSock,
        stats: ServerStats,
        handle: tokio::task::JoinHandle<()>,
        keyset_tx: tokio::sync::watch::Sender<Arc<KeySet>>,
    },
}

struct ServerNode {
    listen: SocketAddr,
    cfg: ModelCfg,
    real: Real,
    /// same configuration with rate limiting off; handles every request again with a 4096-byte buffer (C17)
    twin: Server<SimClock>,
    /// same configuration, never handles anything: only answers "which cache slot is this address in"
    indexer: Server<SimClock>,
    info: Arc<RwLock<NtpServerInfo>>,
    info_model: InfoModel,
    provider: KeySetProvider,
    epoch: u64,
    slots: Slots,
    /// unix seconds of the node's kernel clock at simulated time 0
    unix_base: i64,
    dead: bool,
}

#[derive(Clone, Debug)]
struct Cookie {
    bytes: Vec<u8>,
    server: usize,
    epoch: u64,
}

#[derive(Clone, Debug)]
struct Session {
    alg: u16,
    s2c: Vec<u8>,
    c2s: Vec<u8>,
    cookies: VecDeque<Cookie>,
}

struct Client {
    addr: IpAddr,
    port: u16,
    server: usize,
    poll: u8,
    session: Option<Session>,
}

#[derive(Clone, Debug, PartialEq)]
enum Nts {
    /// no NTS fields by construction
    None,
    /// well-formed NTS request encrypted under the c2s key that belongs to the presented cookie
    Valid { cookie_server: usize, cookie_epoch: u64 },
    /// carries NTS fields that cannot authenticate (garbage cookie, wrong key, two cookies, ...)
    Broken,
}

#[derive(Clone, Debug)]
struct ReqSpec {
    label: &'static str,
    /// conforms to RFC 5905/7822/8915 (NTPv5 draft) by construction: a request any server must take
    strict: bool,
    nts: Nts,
    /// built by the repo's own client code (`NtpPacket::*poll_message*`)
    real_client: bool,
    canaries: Vec<[u8; 8]>,
    client: usize,
    /// version field the layout (and its canaries) was built for
    built_version: u8,
    /// session (algorithm, s2c key, c2s key) the request was made under
    sess: Option<(u16, Vec<u8>, Vec<u8>)>,
    /// the server-minted cookie the request presents in its authenticated part (if any)
    cookie: Option<Cookie>,
    /// the exact bytes of the request when it is RFC-conformant by construction; the positive
    /// clause of C15 only speaks about datagrams that ARRIVE as exactly these bytes
    strict_bytes: Option<Vec<u8>>,
}

fn cipher_for(alg: u16, key: &[u8]) -> Box<dyn Cipher> {
    if alg == 17 {
        Box::new(AesSivCmac512::try_from(key.iter().copied()).expect("harness: 64-byte key"))
    } else {
        Box::new(AesSivCmac256::try_from(key).expect("harness: 32-byte key"))
    }
}

fn rand_bytes(r: &mut Rng, n: usize) -> Vec<u8> {
    (0..n).map(|_| r.next_u64() as u8).collect()
}

fn canary(r: &mut Rng, spec: &mut ReqSpec) -> [u8; 8] {
    let mut c = [0u8; 8];
    for b in c.iter_mut() {
        // never zero, so that zero padding can not look like a canary
        *b = (r.next_u64() % 255) as u8 + 1;
    }
    spec.canaries.push(c);
    c
}

/// Body of `n` bytes made of canaries (each 8-byte window that starts at a multiple of 8 is one).
fn canary_body(r: &mut Rng, spec: &mut ReqSpec, n: usize) -> Vec<u8> {
    let mut o = Vec::with_capacity(n);
    while o.len() + 8 <= n {
        o.extend_from_slice(&canary(r, spec));
    }
    while o.len() < n {
        o.push((r.next_u64() % 255) as u8 + 1);
    }
    o
}

// ---------------------------------------------------------------------------
// configuration swarm
// ---------------------------------------------------------------------------

fn gen_subnet(prev: Option<&Subnet>) -> Subnet {
    // derived from the previous one: nested or adjacent
    if let Some(p) = prev {
        let rel = choose("cfg.subnet.rel", 3);
        let width: u8 = if p.v6 { 128 } else { 32 };
        if rel == 1 && p.mask < width {
            // nested: longer prefix inside the previous one
            let extra = 1 + choose("cfg.subnet.nest", (width - p.mask).min(9) as u64) as u8;
            let mask = p.mask + extra;
            let net = if p.mask == 0 { 0 } else { p.bits & !(u128::MAX >> p.mask as u32) };
            let fill = ((choose_u64("cfg.subnet.nestbits") as u128) << 64) >> p.mask as u32;
            let keep = if mask >= 128 { u128::MAX } else { !(u128::MAX >> mask as u32) };
            let bits = (net | fill) & keep;
            return mk_subnet(p.v6, bits, mask, choose("cfg.subnet.mapped", 3) == 2);
        }
        if rel == 2 && p.mask > 0 {
            // adjacent: sibling prefix of the same length
            let bit = 1u128 << (128 - p.mask as u32);
            let net = p.bits & !(bit - 1);
            return mk_subnet(p.v6, net ^ bit, p.mask, choose("cfg.subnet.mapped", 3) == 2);
        }
    }
    let fam = weighted("cfg.subnet.fam", &[3, 2, 2]); // v4, v6, v4 written as v4-mapped v6
    if fam == 1 {
        let bases: [u128; 5] = [
            0x2001_0db8_0000_0000_0000_0000_0000_0000,
            0xfe80_0000_0000_0000_0000_0000_0000_0000,
            0xfd00_1234_5678_9abc_0000_0000_0000_0000,
            0,
            0xffff_ffff_ffff_ffff_ffff_ffff_ffff_ff00,
        ];
        let mut bits = bases[choose("cfg.subnet.base6", 5) as usize];
        if chance("cfg.subnet.hostbits", 0.3) {
            bits |= (choose_u64("cfg.subnet.host6") as u128) | 1;
        }
        let masks = [32u8, 0, 1, 16, 48, 63, 64, 65, 96, 97, 120, 127, 128];
        mk_subnet(true, bits, masks[choose("cfg.subnet.mask6", masks.len() as u64) as usize], false)
    } else {
        let bases: [u32; 8] = [0x0a00_0000, 0x0a01_0000, 0x0a01_0200, 0xc0a8_0000, 0xc0a8_0180, 0xac10_0000, 0, 0xffff_ff00];
        let mut a = bases[choose("cfg.subnet.base4", 8) as usize];
        if chance("cfg.subnet.hostbits", 0.3) {
            a |= choose("cfg.subnet.host4", 256) as u32;
        }
        let masks = [24u8, 0, 1, 7, 8, 9, 15, 16, 23, 25, 30, 31, 32];
        mk_subnet(false, (a as u128) << 96, masks[choose("cfg.subnet.mask4", masks.len() as u64) as usize], fam == 2)
    }
}

fn mk_subnet(v6: bool, bits: u128, mask: u8, mapped: bool) -> Subnet {
    let text = if v6 {
        format!("{}/{}", Ipv6Addr::from(bits.to_be_bytes()), mask)
    } else {
        let a = Ipv4Addr::from(((bits >> 96) as u32).to_be_bytes());
        if mapped {
            // the IPv4-mapped spelling of the same subnet
            format!("::ffff:{}/{}", a, 96 + mask as u32)
        } else {
            format!("{}/{}", a, mask)
        }
    };
    Subnet { v6, bits, mask, text }
}

fn gen_list(label_n: &'static str, all_ok: bool) -> Vec<Subnet> {
    let n = choose(label_n, 5) as usize;
    let mut v: Vec<Subnet> = Vec::new();
    for _ in 0..n {
        let s = gen_subnet(v.last());
        v.push(s);
    }
    if all_ok && n == 4 {
        // "everything" of one family
        v.push(mk_subnet(false, 0, 0, false));
    }
    v
}

fn all_subnets() -> Vec<Subnet> {
    vec![mk_subnet(false, 0, 0, false), mk_subnet(true, 0, 0, false)]
}

fn gen_cfg(focus: &str) -> ModelCfg {
    // index 0 = the daemon's defaults: nothing denied, everything allowed, no rate limiting, v3+v4
    let deny = if chance("cfg.deny.on", 0.5) { gen_list("cfg.deny.n", true) } else { Vec::new() };
    let allow = if chance("cfg.allow.on", 0.5) { gen_list("cfg.allow.n", true) } else { all_subnets() };
    let act = |l: &'static str| if choose(l, 2) == 0 { Action::Ignore } else { Action::Deny };
    let rl_p = if focus == "C20" { 0.9 } else { 0.5 };
    let (cache_size, cutoff_ns) = if chance("cfg.rl.on", rl_p) {
        let sizes = [1usize, 2, 3, 4, 8, 64, 1024];
        let cutoffs = [1_000_000_000u64, 1_000_000, 16_000_000_000, 1, 0, 100_000_000_000];
        (sizes[choose("cfg.rl.size", sizes.len() as u64) as usize], cutoffs[choose("cfg.rl.cutoff", cutoffs.len() as u64) as usize])
    } else {
        // cache size 0 = off; the cutoff is then irrelevant but still configured
        (0, [0u64, 1_000_000_000][choose("cfg.rl.offcutoff", 2) as usize])
    };
    let require_nts = match weighted("cfg.requirents", &[5, 2, 2]) {
        0 => None,
        1 => Some(Action::Ignore),
        _ => Some(Action::Deny),
    };
    let versions: Vec<u8> = match weighted("cfg.versions", &[4, 4, 1, 1, 1, 1]) {
        0 => vec![3, 4],
        1 => vec![3, 4, 5],
        2 => vec![4],
        3 => vec![5],
        4 => vec![4, 5],
        _ => vec![],
    };
    let history = [7usize, 0, 1, 2][choose("cfg.history", 4) as usize];
    ModelCfg { deny, deny_action: act("cfg.deny.action"), allow, allow_action: act("cfg.allow.action"), cache_size, cutoff_ns, require_nts, versions, history }
}

fn to_filter_action(a: Action) -> FilterAction {
    match a {
        Action::Ignore => FilterAction::Ignore,
        Action::Deny => FilterAction::Deny,
    }
}

fn daemon_cfg(m: &ModelCfg, listen: SocketAddr, cache_size: usize) -> DaemonServerConfig {
    let parse = |l: &[Subnet]| -> Vec<IpSubnet> { l.iter().map(|s| s.text.parse::<IpSubnet>().unwrap_or_else(|e| panic!("harness: subnet {} does not parse: {e}", s.text))).collect() };
    DaemonServerConfig {
        listen,
        denylist: FilterList { filter: parse(&m.deny), action: to_filter_action(m.deny_action) },
        allowlist: FilterList { filter: parse(&m.allow), action: to_filter_action(m.allow_action) },
        rate_limiting_cache_size: cache_size,
        rate_limiting_cutoff: Duration::from_nanos(m.cutoff_ns),
        require_nts: m.require_nts.map(to_filter_action),
        accept_ntp_versions: m
            .versions
            .iter()
            .map(|v| match v {
                3 => NtpVersion::V3,
                4 => NtpVersion::V4,
                _ => NtpVersion::V5,
            })
            .collect(),
    }
}

fn gen_info(unix_now: i64) -> (InfoModel, NtpServerInfo) {
    let stratum = [2u8, 1, 3, 4, 15, 16][choose("info.stratum", 6) as usize];
    let leaps = [
        (NtpLeapIndicator::NoWarning, 0u8),
        (NtpLeapIndicator::Leap61, 1),
        (NtpLeapIndicator::Leap59, 2),
        (NtpLeapIndicator::Unknown, 3),
        (NtpLeapIndicator::Unsynchronized, 3),
    ];
    let (leap, leap_bits) = leaps[choose("info.leap", 5) as usize];
    let refid = (choose_u64("info.refid") as u32).to_be_bytes();
    let precision = [-18i8, -20, -25, -10, -6][choose("info.precision", 5) as usize];
    let root_delay_raw = [0u64, 4_294_967, 214_748_364, 6_442_450_944, 51_539_607_552, 85_899_345_920][choose("info.rootdelay", 6) as usize];
    let var = [
        [0.0, 1e-10, 1e-6, 1e-2, 4.0, 300.0][choose("info.var0", 6) as usize],
        [0.0, 1e-12, 1e-8][choose("info.var1", 3) as usize],
        [0.0, 1e-14, 1e-10][choose("info.var2", 3) as usize],
        [0.0, 1e-20, 1e-16][choose("info.var3", 3) as usize],
    ];
    let age = [0i64, 1, 64, 1000, 100_000][choose("info.age", 5) as usize];
    let base_time_raw = oracle::ntp_from_unix(unix_now - age, 0);
    let mut bloom = BloomFilter::new();
    let n_ids = choose("info.bloom.ids", 4);
    if n_ids > 0 {
        let mut r = rand::rngs::StdRng::seed_from_u64(choose_u64("info.bloom.seed"));
        for _ in 0..n_ids {
            bloom.add_id(&ServerId::new(&mut r));
        }
    }
    let model = InfoModel { stratum, leap_bits, refid, precision, root_delay_raw, var, base_time_raw, bloom: bloom.as_bytes().to_vec() };
    let info = NtpServerInfo {
        time_snapshot: TimeSnapshot {
            precision: NtpDuration::from_exponent(precision),
            root_delay: dur_from_fixed(root_delay_raw as i64),
            root_variance_base_time: ts_from_fixed(base_time_raw),
            root_variance_base: var[0],
            root_variance_linear: var[1],
            root_variance_quadratic: var[2],
            root_variance_cubic: var[3],
            leap_indicator: leap,
            accumulated_steps: NtpDuration::ZERO,
            accumulated_steps_threshold: None,
        },
        ntp_snapshot: NtpSnapshot { stratum, reference_id: ReferenceId::from_ip(IpAddr::V4(Ipv4Addr::from(refid))), bloom_filter: bloom },
    };
    (model, info)
}

/// Client addresses: biased to the first / last address of every configured subnet and their
/// outside neighbours, in native and (for IPv4) IPv4-mapped form.
fn gen_addr(subnets: &[Subnet]) -> IpAddr {
    let how = weighted("addr.how", &[2, 6, 1]);
    if how == 1 && !subnets.is_empty() {
        let s = &subnets[choose("addr.subnet", subnets.len() as u64) as usize];
        let width: u32 = if s.v6 { 128 } else { 32 };
        let host_bits = width - s.mask as u32;
        // left-aligned arithmetic: one unit of the family's address space
        let unit: u128 = if s.v6 { 1 } else { 1u128 << 96 };
        let span: u128 = if host_bits == 0 { 0 } else if s.v6 && host_bits == 128 { u128::MAX } else { ((1u128 << host_bits) - 1).wrapping_mul(unit) };
        let net = if s.mask == 0 { 0 } else if s.mask >= 128 { s.bits } else { s.bits & !(u128::MAX >> s.mask as u32) };
        let a = match choose("addr.where", 6) {
            0 => net.wrapping_add(span / 2 / unit * unit),
            1 => net,
            2 => net.wrapping_add(span),
            3 => net.wrapping_sub(unit),
            4 => net.wrapping_add(span).wrapping_add(unit),
            _ => net.wrapping_add(unit.min(span)),
        };
        if s.v6 {
            return IpAddr::V6(Ipv6Addr::from(a.to_be_bytes()));
        }
        let v4 = Ipv4Addr::from(((a >> 96) as u32).to_be_bytes());
        return if chance("addr.mapped", 0.3) { IpAddr::V6(v4.to_ipv6_mapped()) } else { IpAddr::V4(v4) };
    }
    if how == 2 {
        return IpAddr::V6(Ipv6Addr::from(((choose_u64("addr.rand6.hi") as u128) << 64 | choose_u64("addr.rand6.lo") as u128).to_be_bytes()));
    }
    let v4 = Ipv4Addr::from((choose_u64("addr.rand4") as u32).to_be_bytes());
    if chance("addr.mapped", 0.3) { IpAddr::V6(v4.to_ipv6_mapped()) } else { IpAddr::V4(v4) }
}

// ---------------------------------------------------------------------------
// the world
// ---------------------------------------------------------------------------

struct World {
    servers: Vec<ServerNode>,
    clients: Vec<Client>,
    net: SimNet<ReqSpec>,
    clean: bool,
    real_serve: bool,
    /// simulated now (ns)
    t: u64,
    stop: bool,
}

fn unix_at(node: &ServerNode, t_ns: u64) -> (i64, u32) {
    (node.unix_base + (t_ns / 1_000_000_000) as i64, (t_ns % 1_000_000_000) as u32)
}

fn convert_ts(secs: i64, nanos: u32) -> NtpTimestamp {
    // the daemon's `convert_net_timestamp` (ntpd/src/daemon/util.rs), mirrored
    NtpTimestamp::from_seconds_nanos_since_ntp_era(2_208_988_800u32.wrapping_add(secs as u32), nanos)
}

/// The daemon's receive/reply convention (`ServerTask::serve`, ntpd/src/daemon/server.rs:164-192)
/// mirrored: 1024-byte receive buffer, reply buffer exactly as long as the request.
fn serve_mirror(server: &mut Server<SimClock>, stats: &mut Counting, addr: IpAddr, ts: (i64, u32), datagram: &[u8]) -> Option<Vec<u8>> {
    let mut buf = [0u8; MAX_PACKET_SIZE];
    let length = datagram.len().min(MAX_PACKET_SIZE);
    buf[..length].copy_from_slice(&datagram[..length]);
    let mut send_buf = [0u8; MAX_PACKET_SIZE];
    match server.handle(addr, convert_ts(ts.0, ts.1), &buf[..length], &mut send_buf[..length], stats) {
        ServerAction::Ignore => None,
        ServerAction::Respond { message } => Some(message.to_vec()),
    }
}

impl World {
    fn sync_time(&mut self) {
        if self.real_serve {
            self.t = self.t.max(exec::elapsed_ns());
        }
        simkit::set_now_ns(self.t);
        ntp_proto::verif::set_mono_ns(self.t);
    }

    async fn advance_to(&mut self, t: u64) {
        if t > self.t {
            self.t = t;
        }
        if self.real_serve {
            let el = exec::elapsed_ns();
            if self.t > el {
                tokio::time::sleep(Duration::from_nanos(self.t - el)).await;
            }
        }
        self.sync_time();
    }

    /// Mode (b): wait until the server task is parked in `recv` again (or is gone).
    async fn settle(&mut self, si: usize) {
        let (sock, finished) = match &self.servers[si].real {
            Real::Task { sock, handle, .. } => (sock.clone(), handle.is_finished()),
            Real::Mirror { .. } => return,
        };
        if finished {
            self.servers[si].dead = true;
            return;
        }
        let waits = [1u64, 100_000_001, 100_000_000, 100_000_000, 100_000_000, 100_000_000, 100_000_000, 100_000_000];
        for w in waits {
            if tokio::time::timeout(Duration::from_nanos(w), dsock::wait_idle(&sock)).await.is_ok() {
                self.sync_time();
                return;
            }
            if let Real::Task { handle, .. } = &self.servers[si].real {
                if handle.is_finished() {
                    self.servers[si].dead = true;
                    self.sync_time();
                    return;
                }
            }
        }
        self.sync_time();
        simkit::abort(format!("server task {si} neither idle nor finished"));
        self.stop = true;
    }
}

fn new_session(w: &mut World, ci: usize, r: &mut Rng) {
    let si = w.clients[ci].server;
    let alg: u16 = if chance("sess.alg512", 0.3) { 17 } else { 15 };
    let klen = if alg == 17 { 64 } else { 32 };
    let s2c = rand_bytes(r, klen);
    let c2s = rand_bytes(r, klen);
    let mut cookies = VecDeque::new();
    let node = &w.servers[si];
    let dc = make_cookie(alg, &s2c, &c2s).expect("harness: cookie keys");
    let ks = node.provider.get();
    for _ in 0..8 {
        cookies.push_back(Cookie { bytes: encode_cookie(&ks, &dc), server: si, epoch: node.epoch });
    }
    w.clients[ci].session = Some(Session { alg, s2c, c2s, cookies });
}

// ---------------------------------------------------------------------------
// request construction
// ---------------------------------------------------------------------------

const UNKNOWN_TYPES: [u16; 10] = [0x0002, 0x0102, 0x0203, 0x0105, 0x2005, 0x4104, 0xF502, 0xF506, 0xFFFF, 0x0000];

fn serialize(p: &NtpPacket<'_>, cipher: Option<&dyn Cipher>) -> Vec<u8> {
    let mut buf = vec![0u8; 2048];
    let mut cur = std::io::Cursor::new(buf.as_mut_slice());
    match cipher {
        Some(c) => p.serialize(&mut cur, c, None).expect("harness: serialize poll"),
        None => p.serialize(&mut cur, &NoCipher, None).expect("harness: serialize poll"),
    }
    let n = cur.position() as usize;
    buf.truncate(n);
    buf
}

fn take_cookie(w: &mut World, ci: usize, r: &mut Rng) -> Cookie {
    if w.clients[ci].session.is_none() || w.clients[ci].session.as_ref().unwrap().cookies.is_empty() {
        new_session(w, ci, r);
    }
    let s = w.clients[ci].session.as_mut().unwrap();
    // a client that is down to its last cookie keeps it (it would rather re-use than have none)
    if s.cookies.len() > 1 { s.cookies.pop_front().unwrap() } else { s.cookies.front().unwrap().clone() }
}

fn hand_header(r: &mut Rng, spec: &mut ReqSpec, version: u8, poll: u8) -> Hdr {
    let mut h = Hdr {
        li: (r.next_u64() % 4) as u8,
        version,
        mode: 3,
        stratum: r.next_u64() as u8,
        poll,
        precision: r.next_u64() as u8,
        b4: [0; 12],
        b16: [0; 8],
        b24: [0; 8],
        b32: [0; 8],
        b40: [0; 8],
    };
    if version == 5 {
        h.b4[..8].copy_from_slice(&canary(r, spec));
        h.b4[8] = (r.next_u64() % 4) as u8; // timescale
        h.b4[9] = r.next_u64() as u8; // era
        h.b4[10] = 0;
        h.b4[11] = (r.next_u64() % 8) as u8; // flags
        h.b16 = canary(r, spec); // server cookie: the server makes its own
        h.b24 = rand_bytes(r, 8).try_into().unwrap(); // client cookie: echoed
        h.b32 = canary(r, spec);
        h.b40 = canary(r, spec);
    } else {
        h.b4[..8].copy_from_slice(&canary(r, spec));
        let c = canary(r, spec);
        h.b4[8..12].copy_from_slice(&c[..4]);
        h.b16 = canary(r, spec);
        h.b24 = canary(r, spec);
        h.b32 = canary(r, spec);
        h.b40 = rand_bytes(r, 8).try_into().unwrap(); // transmit timestamp: echoed as origin
    }
    h
}

/// Build one request of client `ci`. Index 0 of every choice is the plain NTPv4 poll of the repo's own client.
fn build_request(w: &mut World, ci: usize, focus: &str) -> (Vec<u8>, ReqSpec) {
    let mut r = sub_rng("req.rng");
    let poll = w.clients[ci].poll;
    let mut spec = ReqSpec { label: "v4-poll", strict: true, nts: Nts::None, real_client: true, canaries: Vec::new(), client: ci, built_version: 0, sess: None, cookie: None, strict_bytes: None };
    let adv_w = if matches!(focus, "C16" | "C17" | "C18" | "C22") { 6 } else { 3 };
    let kind = weighted("req.kind", &[6, 1, 2, 1, 4, 2, 2, adv_w, adv_w, 1]);
    let bytes = match kind {
        0 => serialize(&NtpPacket::poll_message(PollInterval::from_byte(poll)).0, None),
        1 => {
            spec.label = "v4-upgrade-poll";
            serialize(&NtpPacket::poll_message_upgrade_request(PollInterval::from_byte(poll)).0, None)
        }
        2 => {
            spec.label = "v5-poll";
            serialize(&NtpPacket::poll_message_v5(PollInterval::from_byte(poll)).0, None)
        }
        3 => {
            spec.label = "v3-poll";
            spec.real_client = false;
            let mut h = hand_header(&mut r, &mut spec, 3, poll);
            h.version = 3;
            let mut b = h.bytes();
            match choose("req.v3.mac", 3) {
                0 => {}
                1 => b.extend_from_slice(&canary_body(&mut r, &mut spec, 12)),
                _ => b.extend_from_slice(&canary_body(&mut r, &mut spec, 20)),
            }
            b
        }
        4 | 5 => {
            let v5 = kind == 5;
            spec.label = if v5 { "nts-v5-poll" } else { "nts-v4-poll" };
            let cookie = take_cookie(w, ci, &mut r);
            let s = w.clients[ci].session.as_ref().unwrap();
            let want = (8 - s.cookies.len().min(7)) as u8;
            let c2s = cipher_for(s.alg, &s.c2s);
            spec.sess = Some((s.alg, s.s2c.clone(), s.c2s.clone()));
            spec.cookie = Some(cookie.clone());
            spec.nts = Nts::Valid { cookie_server: cookie.server, cookie_epoch: cookie.epoch };
            let p = if v5 {
                NtpPacket::nts_poll_message_v5(&cookie.bytes, want, PollInterval::from_byte(poll)).0
            } else {
                NtpPacket::nts_poll_message(&cookie.bytes, want, PollInterval::from_byte(poll)).0
            };
            serialize(&p, Some(c2s.as_ref()))
        }
        6 => build_strict_plain(&mut r, &mut spec, poll),
        7 => build_adversarial_plain(w, ci, &mut r, &mut spec, poll),
        8 => build_adversarial_nts(w, ci, &mut r, &mut spec, poll),
        _ => {
            spec.label = "garbage";
            spec.strict = false;
            spec.real_client = false;
            let n = [0usize, 1, 47, 48, 49, 68, 200, 1023, 1024, 1100][choose("req.garbage.len", 10) as usize];
            let mut b = rand_bytes(&mut r, n);
            if n > 0 && chance("req.garbage.plausible", 0.5) {
                b[0] = (b[0] & 0xC0) | (((3 + r.next_u64() % 3) as u8) << 3) | 3;
            }
            b
        }
    };
    // header twists on top (wrong mode / wrong version), keeping the rest of the layout
    let mut bytes = bytes;
    spec.built_version = bytes.first().map(|b| (b >> 3) & 7).unwrap_or(0);
    if spec.strict {
        spec.strict_bytes = Some(bytes.clone());
    }
    if !bytes.is_empty() && chance("req.twist", 0.08) {
        let b0 = if chance("req.twist.version", 0.5) {
            let v = [0u8, 1, 2, 3, 4, 5, 6, 7][choose("req.twist.v", 8) as usize];
            (bytes[0] & !0x38) | (v << 3)
        } else {
            let m = [4u8, 0, 1, 2, 5, 6, 7][choose("req.twist.m", 7) as usize];
            (bytes[0] & !7) | m
        };
        if b0 != bytes[0] {
            fault(if (b0 ^ bytes[0]) & 0x38 != 0 { "wrong-version" } else { "wrong-mode" });
            bytes[0] = b0;
            spec.strict = false;
            spec.real_client = false;
            if spec.nts != Nts::None {
                spec.nts = Nts::Broken; // the header is part of the authenticated data
            }
        }
    }
    (bytes, spec)
}

/// Hand-built NTPv4 / NTPv5 request that respects the RFC minimum field sizes.
fn build_strict_plain(r: &mut Rng, spec: &mut ReqSpec, poll: u8) -> Vec<u8> {
    spec.real_client = false;
    if chance("req.strict.v5", 0.35) {
        spec.label = "v5-strict-layout";
        let h = hand_header(r, spec, 5, poll);
        let mut b = h.bytes();
        // order of fields is free
        let n = choose("req.strict.v5.n", 5);
        let mut draft_done = false;
        for _ in 0..n {
            match choose("req.strict.v5.f", 5) {
                0 => {
                    let len = [32usize, 4, 8, 16, 64][choose("req.strict.v5.uid", 5) as usize];
                    b.extend_from_slice(&wire::ef(wire::T_UID, &rand_bytes(r, len)));
                }
                1 => {
                    let len = [16usize, 4, 32, 508, 512, 0][choose("req.strict.v5.reflen", 6) as usize].max(4);
                    let off = [0usize, 16, 256, 496, 508][choose("req.strict.v5.refoff", 5) as usize];
                    let mut body = vec![0u8; len];
                    body[..2].copy_from_slice(&(off as u16).to_be_bytes());
                    b.extend_from_slice(&wire::ef(wire::T_REFREQ, &body));
                }
                2 => b.extend_from_slice(&wire::ef(wire::T_PAD, &vec![0u8; [0usize, 4, 60, 200][choose("req.strict.v5.pad", 4) as usize]])),
                3 => {
                    let t = UNKNOWN_TYPES[choose("req.strict.v5.unk", UNKNOWN_TYPES.len() as u64) as usize];
                    let len = [8usize, 0, 16, 40][choose("req.strict.v5.unklen", 4) as usize];
                    b.extend_from_slice(&wire::ef(t, &canary_body(r, spec, len)));
                }
                _ => {
                    if !draft_done {
                        b.extend_from_slice(&wire::ef(wire::T_DRAFT, wire::DRAFT));
                        draft_done = true;
                    }
                }
            }
        }
        if !draft_done {
            b.extend_from_slice(&wire::ef(wire::T_DRAFT, wire::DRAFT));
        }
        b
    } else {
        spec.label = "v4-strict-layout";
        let h = hand_header(r, spec, 4, poll);
        let mut b = h.bytes();
        let n = choose("req.strict.v4.n", 4);
        for _ in 0..n {
            if chance("req.strict.v4.uid", 0.5) {
                let len = [32usize, 12, 16, 24, 64][choose("req.strict.v4.uidlen", 5) as usize];
                b.extend_from_slice(&wire::ef(wire::T_UID, &rand_bytes(r, len)));
            } else {
                let t = UNKNOWN_TYPES[choose("req.strict.v4.unk", UNKNOWN_TYPES.len() as u64) as usize];
                let len = [12usize, 16, 24, 40, 100][choose("req.strict.v4.unklen", 5) as usize];
                b.extend_from_slice(&wire::ef(t, &canary_body(r, spec, len)));
            }
        }
        if n > 0 {
            // RFC 7822: with extension fields, either a MAC follows or the last field has at least 28 bytes
            match choose("req.strict.v4.tail", 3) {
                0 => {
                    let t = UNKNOWN_TYPES[choose("req.strict.v4.lastunk", UNKNOWN_TYPES.len() as u64) as usize];
                    b.extend_from_slice(&wire::ef(t, &canary_body(r, spec, 24)));
                }
                1 => b.extend_from_slice(&canary_body(r, spec, 20)),
                _ => b.extend_from_slice(&canary_body(r, spec, 24)),
            }
        } else if chance("req.strict.v4.mac", 0.3) {
            b.extend_from_slice(&canary_body(r, spec, 20));
        }
        b
    }
}

/// Hand-built plain layouts without any respect for minimum sizes.
fn build_adversarial_plain(w: &mut World, ci: usize, r: &mut Rng, spec: &mut ReqSpec, poll: u8) -> Vec<u8> {
    spec.real_client = false;
    spec.strict = false;
    let v5 = chance("req.adv.v5", 0.4);
    spec.label = if v5 { "v5-adversarial" } else { "v4-adversarial" };
    let h = hand_header(r, spec, if v5 { 5 } else { 4 }, poll);
    let mut b = h.bytes();
    if !v5 && chance("req.adv.upgrade", 0.2) {
        b[16..24].copy_from_slice(wire::UPGRADE_TS);
    }
    let n = choose("req.adv.n", 8);
    let mut draft = false;
    for _ in 0..n {
        match choose("req.adv.f", 9) {
            0 => {
                // short and odd unique identifiers
                let len = [4usize, 0, 8, 12, 16, 20, 28, 32, 60][choose("req.adv.uidlen", 9) as usize];
                b.extend_from_slice(&wire::ef(wire::T_UID, &rand_bytes(r, len)));
            }
            1 => {
                let t = UNKNOWN_TYPES[choose("req.adv.unk", UNKNOWN_TYPES.len() as u64) as usize];
                let len = [8usize, 0, 4, 12, 16, 24, 100][choose("req.adv.unklen", 7) as usize];
                b.extend_from_slice(&wire::ef(t, &canary_body(r, spec, len)));
            }
            2 => {
                // reference-id request of every size (v5), also misaligned / out of range
                let len = [16usize, 2, 3, 4, 5, 6, 7, 8, 100, 508, 512, 516, 600][choose("req.adv.reflen", 13) as usize];
                let off = [0usize, 1, 2, 500, 508, 511, 512, 513, 65535][choose("req.adv.refoff", 9) as usize];
                let mut body = vec![0u8; len];
                body[..2].copy_from_slice(&(off as u16).to_be_bytes());
                if chance("req.adv.refcanary", 0.3) && len >= 10 {
                    let c = canary(r, spec);
                    body[2..10].copy_from_slice(&c);
                }
                b.extend_from_slice(&wire::ef(wire::T_REFREQ, &body));
            }
            3 => {
                // a reference-id *response* or padding with content inside a request
                let t = if chance("req.adv.respinreq", 0.5) { wire::T_REFRESP } else { wire::T_PAD };
                let len = [8usize, 0, 16, 64][choose("req.adv.padlen", 4) as usize];
                b.extend_from_slice(&wire::ef(t, &canary_body(r, spec, len)));
            }
            4 => {
                // NTS pieces without a working authenticator: cookie only, placeholders only
                if chance("req.adv.cookie", 0.5) {
                    let c = take_cookie(w, ci, r);
                    b.extend_from_slice(&wire::ef(wire::T_COOKIE, &c.bytes));
                } else {
                    let len = [100usize, 0, 4, 16, 104][choose("req.adv.phlen", 5) as usize];
                    b.extend_from_slice(&wire::ef(wire::T_PLACEHOLDER, &vec![0u8; len]));
                }
            }
            5 => {
                // an authenticator field made of noise
                let len = [40usize, 0, 4, 8, 36, 100][choose("req.adv.enclen", 6) as usize];
                let mut body = canary_body(r, spec, len);
                if len >= 4 && chance("req.adv.encplausible", 0.6) {
                    body[..2].copy_from_slice(&16u16.to_be_bytes());
                    body[2..4].copy_from_slice(&((len.saturating_sub(20)) as u16).to_be_bytes());
                }
                b.extend_from_slice(&wire::ef(wire::T_ENC, &body));
                spec.nts = Nts::Broken;
            }
            6 => {
                // declared length disagrees with what is there
                let t = if chance("req.adv.rawuid", 0.5) { wire::T_UID } else { 0x0002 };
                let declared = [0u16, 1, 3, 4, 5, 7, 65535, 1000][choose("req.adv.rawdecl", 8) as usize];
                let len = [0usize, 4, 8, 24][choose("req.adv.rawlen", 4) as usize];
                b.extend_from_slice(&wire::ef_raw(t, declared, &canary_body(r, spec, len)));
            }
            7 => {
                if v5 || chance("req.adv.draftinv4", 0.2) {
                    if chance("req.adv.draftwrong", 0.2) {
                        b.extend_from_slice(&wire::ef(wire::T_DRAFT, b"draft-ietf-ntp-ntpv5-00"));
                    } else {
                        b.extend_from_slice(&wire::ef(wire::T_DRAFT, wire::DRAFT));
                        draft = true;
                    }
                }
            }
            _ => {
                // tiny fields, many of them
                for _ in 0..(1 + choose("req.adv.tiny", 12)) {
                    b.extend_from_slice(&wire::ef(wire::T_UID, &[]));
                }
            }
        }
    }
    if v5 && !draft && chance("req.adv.draftend", 0.85) {
        b.extend_from_slice(&wire::ef(wire::T_DRAFT, wire::DRAFT));
    }
    // trailing MAC-like bytes
    let tail = [0usize, 4, 12, 16, 20, 24, 1, 3, 28][choose("req.adv.tail", 9) as usize];
    b.extend_from_slice(&canary_body(r, spec, tail));
    b
}

/// Hand-built NTS layouts: a working cookie + authenticator wrapped in hostile surroundings.
fn build_adversarial_nts(w: &mut World, ci: usize, r: &mut Rng, spec: &mut ReqSpec, poll: u8) -> Vec<u8> {
    spec.real_client = false;
    spec.strict = false;
    let v5 = chance("req.nts.v5", 0.35);
    spec.label = if v5 { "nts-v5-adversarial" } else { "nts-v4-adversarial" };
    let cookie = take_cookie(w, ci, r);
    let (alg, c2s_key) = {
        let s = w.clients[ci].session.as_ref().unwrap();
        spec.sess = Some((s.alg, s.s2c.clone(), s.c2s.clone()));
        (s.alg, s.c2s.clone())
    };
    spec.cookie = Some(cookie.clone());
    let h = hand_header(r, spec, if v5 { 5 } else { 4 }, poll);
    let mut b = h.bytes();
    let mut valid = true;
    // unique identifier(s): the RFC wants 32 bytes; try shorter
    let n_uid = [1usize, 0, 2, 3][choose("req.nts.nuid", 4) as usize];
    for _ in 0..n_uid {
        // mostly RFC-conformant sizes (short ones are the known short-identifier finding)
        let len = [32usize, 0, 4, 8, 12, 16, 24, 64][weighted("req.nts.uidlen", &[8, 1, 1, 1, 1, 1, 2, 3])];
        b.extend_from_slice(&wire::ef(wire::T_UID, &rand_bytes(r, len)));
    }
    // the cookie
    match weighted("req.nts.cookie", &[8, 1, 1, 1, 1]) {
        0 => b.extend_from_slice(&wire::ef(wire::T_COOKIE, &cookie.bytes)),
        1 => {
            // padded cookie field (longer than the cookie)
            let mut c = cookie.bytes.clone();
            c.extend_from_slice(&vec![0u8; [4usize, 16, 64][choose("req.nts.cookiepad", 3) as usize]]);
            b.extend_from_slice(&wire::ef(wire::T_COOKIE, &c));
        }
        2 => {
            // two cookies
            b.extend_from_slice(&wire::ef(wire::T_COOKIE, &cookie.bytes));
            b.extend_from_slice(&wire::ef(wire::T_COOKIE, &cookie.bytes));
            valid = false;
        }
        3 => {
            // a cookie of noise with a plausible key id
            let mut c = canary_body(r, spec, cookie.bytes.len());
            c[..6].copy_from_slice(&cookie.bytes[..6]);
            b.extend_from_slice(&wire::ef(wire::T_COOKIE, &c));
            valid = false;
        }
        _ => {
            // truncated cookie
            let keep = [0usize, 4, 20, 24][choose("req.nts.cookiecut", 4) as usize].min(cookie.bytes.len());
            b.extend_from_slice(&wire::ef(wire::T_COOKIE, &cookie.bytes[..keep / 4 * 4]));
            valid = false;
        }
    }
    // placeholders: many / tiny / odd sizes
    let n_ph = [0usize, 1, 2, 7, 8, 9, 20][weighted("req.nts.nph", &[4, 3, 2, 1, 1, 1, 1])];
    for _ in 0..n_ph {
        let len = match choose("req.nts.phlen", 7) {
            0 => cookie.bytes.len(),
            1 => 0,
            2 => 4,
            3 => cookie.bytes.len().saturating_sub(4),
            4 => cookie.bytes.len() + 4,
            5 => 4 * choose("req.nts.phlen.len4", 51) as usize,
            _ => 400,
        };
        b.extend_from_slice(&wire::ef(wire::T_PLACEHOLDER, &vec![0u8; len]));
    }
    // unknown authenticated fields with canaries
    for _ in 0..choose("req.nts.nunk", 3) {
        let t = UNKNOWN_TYPES[choose("req.nts.unk", UNKNOWN_TYPES.len() as u64) as usize];
        let len = [8usize, 0, 16, 40][choose("req.nts.unklen", 4) as usize];
        b.extend_from_slice(&wire::ef(t, &canary_body(r, spec, len)));
    }
    if v5 {
        if chance("req.nts.v5ref", 0.4) {
            let len = [16usize, 4, 512][choose("req.nts.reflen", 3) as usize];
            let mut body = vec![0u8; len];
            body[..2].copy_from_slice(&([0u16, 16, 500][choose("req.nts.refoff", 3) as usize]).to_be_bytes());
            b.extend_from_slice(&wire::ef(wire::T_REFREQ, &body));
        }
        if !chance("req.nts.nodraft", 0.1) {
            b.extend_from_slice(&wire::ef(wire::T_DRAFT, wire::DRAFT));
        }
    }
    // the encrypted part
    let mut plain = Vec::new();
    // 0-6 extra fields inside the ciphertext, in random order. None of them is ever decoded by
    // the server's parser beyond its type, so every length is possible: cookie fields shorter /
    // longer than / exactly as long as a real cookie, placeholders of any length, unique
    // identifiers, unknown fields with canaries.
    let n_inner = weighted("req.nts.ninner", &[3, 3, 2, 2, 1, 1, 1]);
    for _ in 0..n_inner {
        match choose("req.nts.inner", 4) {
            0 => {
                let real = cookie.bytes.len();
                let len = match choose("req.nts.innercookie", 6) {
                    0 => real,
                    1 => 0,
                    2 => 4 * choose("req.nts.innercookie.len4", 51) as usize,
                    3 => real.saturating_sub(4),
                    4 => real + 4,
                    // any length: fine in NTPv5 (padded), a broken field in NTPv4
                    _ => choose("req.nts.innercookie.len", 201) as usize,
                };
                let body = if len == real && chance("req.nts.innercookie.real", 0.5) { cookie.bytes.clone() } else { canary_body(r, spec, len) };
                plain.extend_from_slice(&wire::ef(wire::T_COOKIE, &body));
                probe("nts-inner-cookie-field");
            }
            1 => {
                let len = match choose("req.nts.innerph", 5) {
                    0 => cookie.bytes.len(),
                    1 => 0,
                    2 => 4,
                    3 => 4 * choose("req.nts.innerph.len4", 51) as usize,
                    _ => 400,
                };
                plain.extend_from_slice(&wire::ef(wire::T_PLACEHOLDER, &vec![0u8; len]));
            }
            2 => plain.extend_from_slice(&wire::ef(wire::T_UID, &canary_body(r, spec, [32usize, 64, 36][choose("req.nts.inneruid", 3) as usize]))),
            _ => {
                let t = UNKNOWN_TYPES[choose("req.nts.innerunk", UNKNOWN_TYPES.len() as u64) as usize];
                plain.extend_from_slice(&wire::ef(t, &canary_body(r, spec, [8usize, 0, 24, 100][choose("req.nts.innerunklen", 4) as usize])));
            }
        }
    }
    match weighted("req.nts.enc", &[8, 1, 1]) {
        0 => {
            let c = cipher_for(alg, &c2s_key);
            let f = wire::enc_ef(c.as_ref(), &b, &plain);
            b.extend_from_slice(&f);
        }
        1 => {
            // encrypted under a key the cookie does not carry
            let c = cipher_for(alg, &rand_bytes(r, c2s_key.len()));
            let f = wire::enc_ef(c.as_ref(), &b, &plain);
            b.extend_from_slice(&f);
            valid = false;
        }
        _ => {
            // right key, ciphertext made of noise: the undecryptable part carries canaries
            let c = cipher_for(alg, &c2s_key);
            let mut f = wire::enc_ef(c.as_ref(), &b, &canary_body(r, spec, 24));
            let n = f.len();
            let noise = canary_body(r, spec, 16);
            f[n - 16..].copy_from_slice(&noise);
            b.extend_from_slice(&f);
            valid = false;
        }
    }
    // things after the authenticator are not covered by it
    match choose("req.nts.after", 4) {
        0 => {}
        1 => {
            let t = UNKNOWN_TYPES[choose("req.nts.afterunk", UNKNOWN_TYPES.len() as u64) as usize];
            b.extend_from_slice(&wire::ef(t, &canary_body(r, spec, 24)));
        }
        2 => b.extend_from_slice(&wire::ef(wire::T_UID, &rand_bytes(r, 32))),
        _ => {
            if !v5 {
                b.extend_from_slice(&canary_body(r, spec, 20));
            }
        }
    }
    spec.nts = if valid { Nts::Valid { cookie_server: cookie.server, cookie_epoch: cookie.epoch } } else { Nts::Broken };
    b
}

// ---------------------------------------------------------------------------
// delivery + oracles
// ---------------------------------------------------------------------------

struct Observed {
    resp: Option<Vec<u8>>,
    delta: [u64; oracle::N_COUNTERS],
    regs: Option<Vec<Reg>>,
    panic: Option<String>,
    send_failed: bool,
}

async fn real_handle(w: &mut World, si: usize, addr: IpAddr, port: u16, ts: Option<(i64, u32)>, bytes: &[u8]) -> Observed {
    let listen = w.servers[si].listen;
    match &mut w.servers[si].real {
        Real::Mirror { server, stats } => {
            let before = snap(&stats.inner);
            stats.regs.clear();
            let res = exec::catch(|| serve_mirror(server, stats, addr, ts.expect("mirror mode always has a timestamp"), bytes));
            let after = snap(&stats.inner);
            let mut delta = [0u64; oracle::N_COUNTERS];
            for i in 0..oracle::N_COUNTERS {
                delta[i] = after[i] - before[i];
            }
            match res {
                Ok(resp) => Observed { resp, delta, regs: Some(stats.regs.clone()), panic: None, send_failed: false },
                Err(msg) => Observed { resp: None, delta, regs: Some(stats.regs.clone()), panic: Some(msg), send_failed: false },
            }
        }
        Real::Task { sock, stats, .. } => {
            let before = snap(stats);
            let out_before = sock.lock().unwrap().outbox.len();
            let sock2 = sock.clone();
            let stats2 = stats.clone();
            dsock::push(&sock2, dsock::Inbound::Datagram { bytes: bytes.to_vec(), remote: SocketAddr::new(addr, port), local: listen, timestamp: ts });
            w.settle(si).await;
            let after = snap(&stats2);
            let mut delta = [0u64; oracle::N_COUNTERS];
            for i in 0..oracle::N_COUNTERS {
                delta[i] = after[i] - before[i];
            }
            let outs: Vec<dsock::Outbound> = sock2.lock().unwrap().outbox[out_before..].to_vec();
            let panic = if w.servers[si].dead { Some(exec::take_panic_message()) } else { None };
            if outs.len() > 1 {
                simkit::violation("C21", "c21-more-than-one-reply", format!("{} datagrams sent for one request", outs.len()));
            }
            let send_failed = outs.first().map(|o| o.failed).unwrap_or(false);
            if let Some(o) = outs.first() {
                if o.to != SocketAddr::new(addr, port) || o.from != listen {
                    simkit::violation("C18", "c18-reply-address", format!("reply from {} to {} for a request from {}:{} to {}", o.from, o.to, addr, port, listen));
                }
            }
            Observed { resp: outs.first().map(|o| o.bytes.clone()), delta, regs: None, panic, send_failed }
        }
    }
}

fn seen_kind(s: Seen) -> Option<Kind> {
    match s {
        Seen::Time => Some(Kind::Time),
        Seen::Deny => Some(Kind::Deny),
        Seen::Nak => Some(Kind::Nak),
        Seen::Nothing => Some(Kind::Ignored),
        _ => None,
    }
}

/// C17: name, from the delivered request bytes alone, the known ways an answer outgrows its request.
/// * short-unique-identifier-padding: the request carries a unique-identifier field that the
///   answer's encoder pads (NTPv4: echoed fields get 16 bytes, the last one 28; NTPv5: only
///   authenticated fields of an NTS request get 16).
/// * v5-draft-identification-added: an NTPv5 request without a draft-identification field of
///   (at least) the 28 bytes every NTPv5 answer carries.
/// Anything else is `other` (never listed as known).
fn c17_cause(view: &wire::View, twin_answer: Seen) -> String {
    let mut causes: Vec<&str> = Vec::new();
    let short_uid = view.fields.iter().any(|f| {
        f.type_id == wire::T_UID
            && match view.version {
                4 => f.wire_len < 28,
                5 => f.wire_len < 16 && view.has_type(wire::T_ENC),
                _ => false,
            }
    });
    if short_uid {
        causes.push("short-unique-identifier-padding");
    }
    // (a draft-less NTPv5 request can only be answered through the failed-authenticator path: NAK / DENY)
    if view.version == 5 && twin_answer != Seen::Time && !view.fields.iter().any(|f| f.type_id == wire::T_DRAFT && f.wire_len >= 28) {
        causes.push("v5-draft-identification-added");
    }
    if causes.is_empty() {
        causes.push("other");
    }
    format!("cause={}", causes.join("+"))
}

/// Ground truth from the DELIVERED bytes: does this datagram authenticate as an NTS request of the
/// session it was made under? Independent check: exactly one cookie field before the first
/// authenticator field, carrying the cookie the server minted for the session, and the
/// authenticator field decrypts under the session's c2s key with everything before it as
/// associated data. Returns (server that minted the cookie, key epoch it was minted under).
/// Nothing else can make the server accept a datagram as NTS: only holders of the c2s key can
/// produce the authenticator, and the harness holds all of them.
fn delivered_auth(bytes: &[u8], view: &wire::View, spec: &ReqSpec) -> Option<(usize, u64)> {
    let (alg, _s2c, c2s) = spec.sess.as_ref()?;
    let ck = spec.cookie.as_ref()?;
    if !view.walk_ok {
        return None;
    }
    let enc_i = view.fields.iter().position(|f| f.type_id == wire::T_ENC)?;
    let mut cookies = view.fields[..enc_i].iter().filter(|f| f.type_id == wire::T_COOKIE);
    let first = cookies.next()?;
    if cookies.next().is_some() || !first.body.starts_with(&ck.bytes) {
        return None;
    }
    let f = &view.fields[enc_i];
    let (nonce, ct) = wire::split_enc(&f.body)?;
    cipher_for(*alg, c2s).decrypt(nonce, ct, &bytes[..f.start]).ok()?;
    Some((ck.server, ck.epoch))
}

async fn deliver(w: &mut World, d: Datagram<ReqSpec>) {
    let si = d.to as usize;
    let spec = d.meta.clone();
    let ci = spec.client;
    if w.servers[si].dead {
        return;
    }
    w.sync_time();
    let now = w.t;
    let addr = w.clients[ci].addr;
    let port = w.clients[ci].port;
    // what reaches the server's handler: the daemon's 1024-byte receive buffer cuts longer datagrams
    let mut bytes = d.bytes.clone();
    let damaged = d.mutation.is_some() || bytes.len() > MAX_PACKET_SIZE;
    if bytes.len() > MAX_PACKET_SIZE {
        bytes.truncate(MAX_PACKET_SIZE);
        fault("udp-cut-to-1024");
    }
    let ts = unix_at(&w.servers[si], now);
    let recv_raw = oracle::ntp_from_unix(ts.0, ts.1);

    // ---- the model's view before the server sees the datagram --------------------------------
    let view = wire::walk(&bytes);
    // every attribute the oracles use below is read from the delivered bytes (`view`, `auth`,
    // `pristine_strict`), never from the generator's recipe
    let auth = delivered_auth(&bytes, &view, &spec);
    let pristine_strict = spec.strict_bytes.as_deref() == Some(&bytes[..]);
    let cfg = w.servers[si].cfg.clone();
    let verdict = oracle::lists(&cfg, addr);
    let slot = w.servers[si].indexer.verif_slot_index(addr);
    // socket-level faults of the daemon's serve loop (decided before the model looks, because an
    // untimestamped datagram never reaches the rate limiter)
    let no_timestamp = w.real_serve && !w.clean && chance("sock.nots", 0.01);
    let send_fail = w.real_serve && !w.clean && chance("sock.sendfail", 0.02);
    let (model_limited, collided) = if verdict == ListVerdict::Pass && !no_timestamp {
        let node = &mut w.servers[si];
        if let Some(Some((a, t))) = slot.and_then(|i| node.slots.slots.get(i)) {
            if *a == addr && cfg.cutoff_ns > 1 {
                if now - t == cfg.cutoff_ns {
                    probe("same-address-exactly-at-cutoff");
                } else if now - t + 1 == cfg.cutoff_ns {
                    probe("same-address-1ns-before-cutoff");
                }
            }
        }
        node.slots.arrive(addr, slot, now, cfg.cutoff_ns)
    } else {
        (false, false)
    };
    if collided {
        probe("slot-collision");
    }
    if model_limited {
        probe("model-rate-limited");
    }
    let info_model = w.servers[si].info_model.clone();
    let epoch = w.servers[si].epoch;

    // ---- the real server ---------------------------------------------------------------------
    if no_timestamp {
        fault("sock-no-timestamp");
    }
    if send_fail {
        if let Real::Task { sock, .. } = &w.servers[si].real {
            sock.lock().unwrap().fail_next_sends = 1;
        }
    }
    let obs = real_handle(w, si, addr, port, if no_timestamp { None } else { Some(ts) }, &bytes).await;
    if let Real::Task { sock, .. } = &w.servers[si].real {
        sock.lock().unwrap().fail_next_sends = 0;
    }
    if obs.send_failed {
        fault("sock-send-error");
    }
    let seen = oracle::classify(obs.resp.as_deref());
    ev!(
        "rx s{si} c{ci} {addr} {} len={} dmg={} lists={verdict:?} rl={model_limited} -> {seen:?} len={} [{}]",
        spec.label,
        bytes.len(),
        damaged as u8,
        obs.resp.as_ref().map(|r| r.len()).unwrap_or(0),
        fmt_delta(&obs.delta)
    );

    // ---- C22 ----------------------------------------------------------------------------------
    simkit::oracle("C22");
    if let Some(msg) = &obs.panic {
        simkit::violation("C22", "c22-server-panicked", format!("{} request of {} bytes from {addr}: {msg}", spec.label, bytes.len()));
        w.servers[si].dead = true;
        w.stop = true;
        return;
    }

    if no_timestamp {
        // the daemon could not take a receive time: it must account for the datagram, once, and answer nothing
        let want = oracle::increments(Kind::Ignored, false);
        check!("C21", "c21-untimestamped-datagram", obs.delta == want && obs.resp.is_none(), "no-timestamp datagram: counters moved by [{}], reply {:?}", fmt_delta(&obs.delta), seen);
        return;
    }

    // ---- C16 ----------------------------------------------------------------------------------
    if let Some(resp) = &obs.resp {
        check!("C16", "c16-response-longer-than-request", resp.len() <= bytes.len(), "{} request of {} bytes answered with {} bytes", spec.label, bytes.len(), resp.len());
    } else {
        simkit::oracle("C16");
    }

    // ---- C21 ----------------------------------------------------------------------------------
    let decoded = oracle::decode_delta(&obs.delta);
    check!("C21", "c21-exactly-one-entry", decoded.is_some(), "counters moved by [{}] for one datagram", fmt_delta(&obs.delta));
    if let Some(regs) = &obs.regs {
        check!("C21", "c21-register-called-once", regs.len() == 1, "{} statistics entries for one datagram: {:?}", regs.len(), regs);
        if let (Some(reg), Some((k, nts))) = (regs.first(), decoded) {
            // the daemon's counters moved by exactly what the entry stands for
            check!("C21", "c21-counter-mapping", kind_of(reg.2, reg.3) == k && reg.1 == nts, "entry {:?} but counters moved by [{}]", reg, fmt_delta(&obs.delta));
        }
    }
    if let Some((k, nts)) = decoded {
        let want = seen_kind(seen);
        let kind_ok = match (want, k) {
            (Some(Kind::Ignored), Kind::Ignored | Kind::RateLimited) => true,
            (Some(a), b) => a == b,
            (None, _) => true,
        };
        check!("C21", "c21-kind-matches-action", kind_ok, "client saw {seen:?} but the entry says {k:?} ({} request, {} bytes)", spec.label, bytes.len());
        let plain = !view.has_nts_types();
        if plain {
            check!("C21", "c21-nts-flag-on-plain", !nts, "NTS flag set for a {} request without NTS fields ({} bytes)", spec.label, bytes.len());
        }
        // a datagram that arrives with a cookie field and an authenticator field is an NTS request,
        // whatever the server thinks of the cookie
        let nts_request = view.walk_ok && view.has_type(wire::T_COOKIE) && view.has_type(wire::T_ENC);
        if nts_request && seen != Seen::Nothing {
            let cookie_state = match auth {
                Some((cs, _)) if cs != si => "authentic, cookie of another server",
                Some((_, ce)) if epoch - ce > cfg.history as u64 => "authentic, cookie key rotated out",
                Some(_) => "authentic, valid cookie",
                None => "does not authenticate",
            };
            check!("C21", "c21-nts-flag-on-answered-nts", nts, "answered ({seen:?}) {} request ({cookie_state}) counted without the NTS flag", spec.label);
        }
    }
    if obs.send_failed {
        check!("C21", "c21-send-error-counted", obs.delta[oracle::SEND_ERRORS] == 1, "failed send, send_errors moved by {}", obs.delta[oracle::SEND_ERRORS]);
    } else {
        check!("C21", "c21-send-error-counted", obs.delta[oracle::SEND_ERRORS] == 0, "no failed send, send_errors moved by {}", obs.delta[oracle::SEND_ERRORS]);
    }

    // ---- C20 ----------------------------------------------------------------------------------
    let real_limited = obs.delta[oracle::RATE_LIMITED] == 1;
    if verdict == ListVerdict::Pass {
        if cfg.cache_size == 0 {
            check!("C20", "c20-limited-with-cache-off", !real_limited, "cache size 0 but {addr} was rate limited");
        } else if model_limited {
            check!("C20", "c20-not-limited", real_limited && obs.resp.is_none(), "{addr} asked again within the cutoff ({} ns) with its slot untouched, but got {seen:?} [{}]", cfg.cutoff_ns, fmt_delta(&obs.delta));
        } else {
            check!("C20", "c20-limited-unexpectedly", !real_limited, "{addr} rate limited although its previous accepted request (if any) is not within the cutoff / slot was taken over");
        }
    } else {
        check!("C20", "c20-limited-on-list-verdict", !real_limited, "{addr} is stopped by the access lists ({verdict:?}) yet counted as rate limited");
    }

    // ---- C15 ----------------------------------------------------------------------------------
    let at_most_deny = |a: Action| match a {
        Action::Ignore => seen == Seen::Nothing,
        Action::Deny => matches!(seen, Seen::Nothing | Seen::Deny),
    };
    match verdict {
        ListVerdict::Denied(a) => check!("C15", "c15-deny-list", at_most_deny(a), "{addr} is on the deny list (action {a:?}) but saw {seen:?}"),
        ListVerdict::NotAllowed(a) => check!("C15", "c15-allow-list", at_most_deny(a), "{addr} is not on the allow list (action {a:?}) but saw {seen:?}"),
        ListVerdict::Pass => simkit::oracle("C15"),
    }
    if view.malformed {
        check!("C15", "c15-malformed-answered", seen == Seen::Nothing, "malformed datagram ({} bytes, version {}) answered with {seen:?}", bytes.len(), view.version);
    }
    if !bytes.is_empty() && view.mode != 3 {
        let what = if view.has_type(wire::T_ENC) { " carrying an NTS authenticator field" } else { "" };
        check!("C15", "c15-non-client-answered", seen == Seen::Nothing, "mode {} datagram{what} answered with {seen:?}", view.mode);
    }
    if !bytes.is_empty() && !cfg.versions.contains(&view.version) {
        check!("C15", "c15-version-not-accepted-answered", seen == Seen::Nothing, "version {} (accepted {:?}) answered with {seen:?}", view.version, cfg.versions);
    }
    if cfg.require_nts.is_some() && auth.is_none() {
        check!("C15", "c15-plain-time-under-require-nts", seen != Seen::Time, "{} request that (as delivered) does not authenticate got time although NTS is required", spec.label);
    }
    let cookie_ok = match auth {
        Some((cs, ce)) => cs == si && epoch - ce <= cfg.history as u64,
        // delivered exactly as built and built without NTS fields
        None => spec.sess.is_none() && !view.has_nts_types() && cfg.require_nts.is_none(),
    };
    if let Some((cs, ce)) = auth {
        if cs != si {
            probe("nts-cookie-of-another-server");
        } else if epoch - ce > cfg.history as u64 {
            probe("nts-cookie-key-rotated-out");
        } else if epoch != ce {
            probe("nts-cookie-under-older-key");
        }
    }
    let must_time = verdict == ListVerdict::Pass && !model_limited && pristine_strict && cfg.versions.contains(&view.version) && cookie_ok;
    if must_time {
        check!(
            "C15",
            "c15-accepted-request-not-served",
            seen == Seen::Time,
            "well-formed {} request ({} bytes) from {addr}, passing both lists, not rate limited, got {seen:?} [{}]",
            spec.label,
            bytes.len(),
            fmt_delta(&obs.delta)
        );
        probe("c15-must-time");
    }

    // ---- C18 ----------------------------------------------------------------------------------
    let mut harvested: Vec<Vec<u8>> = Vec::new();
    if let Some(resp) = &obs.resp {
        let mut plain: Option<Vec<u8>> = None;
        if let Some(sess) = spec.sess.as_ref() {
            let rv = wire::walk(resp);
            if let Some(f) = rv.fields.iter().find(|f| f.type_id == wire::T_ENC) {
                if let Some((nonce, ct)) = wire::split_enc(&f.body) {
                    let s2c = cipher_for(sess.0, &sess.1);
                    plain = s2c.decrypt(nonce, ct, &resp[..f.start]).ok();
                }
                if auth.is_some() {
                    check!("C18", "c18-nts-answer-unreadable", plain.is_some(), "answer to an authentic {} request does not decrypt under the session's s2c key", spec.label);
                }
            }
        }
        // canaries sit in fields that are not echoed *in the layout they were built for*
        // (damage can move a canary into a field that is echoed: those bytes may come back)
        let echo_hdr: &[u8] = if bytes.len() < 48 { &[] } else if view.version == 5 { &bytes[24..32] } else { &bytes[40..48] };
        let canaries: Vec<[u8; 8]> = if view.version == spec.built_version {
            spec.canaries
                .iter()
                .filter(|c| !wire::contains(echo_hdr, &c[..]) && !view.fields.iter().any(|f| f.type_id == wire::T_UID && wire::contains(&f.body, &c[..])))
                .copied()
                .collect()
        } else {
            Vec::new()
        };
        let canaries = &canaries;
        let ctx = oracle::RespCtx { req: &bytes, req_view: &view, resp, info: &info_model, recv_raw, plain: plain.as_deref(), canaries, nts_keys: auth.is_some() };
        let findings = oracle::check_response(&ctx);
        simkit::oracle("C18");
        for (clause, detail) in findings {
            simkit::violation("C18", clause, format!("{} request of {} bytes, answer {seen:?} of {} bytes: {detail}", spec.label, bytes.len(), resp.len()));
        }
        if let Some(p) = &plain {
            if let Some(fields) = wire::walk_plain(p, view.version == 5) {
                for f in fields {
                    if f.type_id == wire::T_COOKIE {
                        harvested.push(f.body.clone());
                    }
                }
            }
        }
        if seen == Seen::Time {
            probe(match spec.label {
                "v4-poll" => "time:v4-poll",
                "v4-upgrade-poll" => "time:v4-upgrade-poll",
                "v5-poll" => "time:v5-poll",
                "v3-poll" => "time:v3-poll",
                "nts-v4-poll" => "time:nts-v4-poll",
                "nts-v5-poll" => "time:nts-v5-poll",
                "v4-strict-layout" => "time:v4-strict-layout",
                "v5-strict-layout" => "time:v5-strict-layout",
                "v4-adversarial" => "time:v4-adversarial",
                "v5-adversarial" => "time:v5-adversarial",
                "nts-v4-adversarial" => "time:nts-v4-adversarial",
                "nts-v5-adversarial" => "time:nts-v5-adversarial",
                _ => "time:other",
            });
            if spec.real_client && pristine_strict && auth.is_some() {
                let asked = view.count(wire::T_COOKIE) + view.count(wire::T_PLACEHOLDER);
                if harvested.len() == asked {
                    probe("nts-client-got-as-many-cookies-as-fields");
                } else {
                    probe("nts-client-got-fewer-cookies-than-fields");
                }
            }
        }
        match seen {
            Seen::Time => probe("answer-time"),
            Seen::Deny => probe("answer-deny"),
            Seen::Nak => probe("answer-nak"),
            _ => {}
        }
    }

    // ---- C17: the twin with a 4096-byte buffer --------------------------------------------------
    if !real_limited {
        let node = &mut w.servers[si];
        let mut tstats = TwinStats::default();
        let twin = &mut node.twin;
        let res = exec::catch(|| {
            let mut big = [0u8; 4096];
            match twin.handle(addr, convert_ts(ts.0, ts.1), &bytes, &mut big, &mut tstats) {
                ServerAction::Ignore => None,
                ServerAction::Respond { message } => Some(message.to_vec()),
            }
        });
        match res {
            Err(msg) => {
                simkit::violation("C22", "c22-server-panicked-large-buffer", format!("{} request of {} bytes: {msg}", spec.label, bytes.len()));
                w.stop = true;
            }
            Ok(tresp) => {
                let tseen = oracle::classify(tresp.as_deref());
                if let Some(tr) = &tresp {
                    let reason = obs.regs.as_ref().and_then(|r| r.first()).map(|r| format!("{:?}", r.2)).unwrap_or_else(|| fmt_delta(&obs.delta));
                    check!(
                        "C17",
                        "c17-answer-needs-more-than-request-sized-buffer",
                        seen == tseen,
                        "{} request of {} bytes ({}; uid fields {}, cookie+placeholder fields {}): with a 4096-byte buffer the server answers {tseen:?} in {} bytes, with the daemon's request-sized buffer the client saw {seen:?} (statistics: {reason})",
                        spec.label,
                        bytes.len(),
                        c17_cause(&view, tseen),
                        view.count(wire::T_UID),
                        view.count(wire::T_COOKIE) + view.count(wire::T_PLACEHOLDER),
                        tr.len()
                    );
                    if tr.len() > bytes.len() {
                        probe("twin-answer-longer-than-request");
                    }
                } else {
                    simkit::oracle("C17");
                }
            }
        }
    }

    // ---- the client digests the answer -----------------------------------------------------------
    let same_session = match (&spec.sess, w.clients[ci].session.as_ref()) {
        (Some(a), Some(b)) => a.2 == b.c2s,
        _ => false,
    };
    if let (true, Some(sess)) = (same_session, w.clients[ci].session.as_mut()) {
        for c in harvested {
            if sess.cookies.len() < 8 {
                sess.cookies.push_back(Cookie { bytes: c, server: si, epoch });
            }
        }
        if seen == Seen::Nak && chance("client.rekey-on-nak", 0.5) {
            w.clients[ci].session = None;
        }
    }
}

// ---------------------------------------------------------------------------
// run
// ---------------------------------------------------------------------------

fn build_world(focus: &str) -> World {
    let clean = !chance("cfg.faulty", 0.75);
    // how the real server is driven: 0 = mirrored glue (every statistics entry visible), 1 = the daemon's real serve loop
    let real_serve = choose("cfg.real-serve", 2) == 1;
    let n_servers = 1 + weighted("cfg.nservers", &[5, 2, 1, 1]);
    let mut servers = Vec::new();
    let mut all_nets: Vec<Subnet> = Vec::new();
    for i in 0..n_servers {
        let cfg = gen_cfg(focus);
        all_nets.extend(cfg.deny.iter().cloned());
        all_nets.extend(cfg.allow.iter().filter(|s| s.mask != 0).cloned());
        let listen = SocketAddr::new(IpAddr::V4(Ipv4Addr::new(10, 200, 0, 1 + i as u8)), 123);
        let unix_base = [1_700_000_000i64, 2_085_978_496 - 20, 4_000_000_000, 0][weighted("cfg.epoch", &[5, 2, 1, 1])];
        let (info_model, info) = gen_info(unix_base);
        let info = Arc::new(RwLock::new(info));
        let provider = KeySetProvider::new(cfg.history);
        let clock = SimClock::new("server", oracle::ntp_from_unix(unix_base, 0).wrapping_add(choose("cfg.clockoff", 3) * 12345), 0.0, 0.0);
        let dcfg = daemon_cfg(&cfg, listen, cfg.cache_size);
        let server = Server::new_internal(dcfg.clone().into(), clock.clone(), info.clone(), provider.get());
        let twin = Server::new_internal(daemon_cfg(&cfg, listen, 0).into(), clock.clone(), info.clone(), provider.get());
        let indexer = Server::new_internal(dcfg.clone().into(), clock.clone(), info.clone(), provider.get());
        let real = if real_serve {
            let sock: dsock::SharedSock = Default::default();
            dsock::install(listen, sock.clone());
            let stats = ServerStats::default();
            let (keyset_tx, keyset_rx) = tokio::sync::watch::channel(provider.get());
            let handle = ServerTask::spawn(server, dcfg, stats.clone(), keyset_rx, NETWORK_WAIT);
            Real::Task { sock, stats, handle, keyset_tx }
        } else {
            Real::Mirror { server, stats: Counting { inner: ServerStats::default(), regs: Vec::new() } }
        };
        ev!(
            "server {i} deny={:?}/{:?} allow={:?}/{:?} cache={} cutoff={} require_nts={:?} versions={:?} history={} serve={}",
            cfg.deny.iter().map(|s| s.text.as_str()).collect::<Vec<_>>(),
            cfg.deny_action,
            cfg.allow.iter().map(|s| s.text.as_str()).collect::<Vec<_>>(),
            cfg.allow_action,
            cfg.cache_size,
            cfg.cutoff_ns,
            cfg.require_nts,
            cfg.versions,
            cfg.history,
            if real_serve { "daemon-task" } else { "mirror" }
        );
        let slots = Slots::new(cfg.cache_size);
        servers.push(ServerNode { listen, cfg, real, twin, indexer, info, info_model, provider, epoch: 0, slots, unix_base, dead: false });
    }
    let n_clients = 2 + choose("cfg.nclients", if focus == "C20" { 6 } else { 14 }) as usize;
    let mut clients = Vec::new();
    for _ in 0..n_clients {
        let addr = gen_addr(&all_nets);
        clients.push(Client {
            addr,
            port: 1024 + choose("client.port", 60000) as u16,
            server: choose("client.server", n_servers as u64) as usize,
            poll: [6u8, 4, 10, 17, 0, 0x7f, 0x80, 0xff][weighted("client.poll", &[6, 2, 2, 1, 1, 1, 1, 1])],
            session: None,
        });
    }
    let net = SimNet::new(if clean { NetCfg::clean() } else { NetCfg::swarm() });
    World { servers, clients, net, clean, real_serve, t: 0, stop: false }
}

async fn rotate(w: &mut World, si: usize) {
    let node = &mut w.servers[si];
    node.provider.rotate();
    node.epoch += 1;
    let ks = node.provider.get();
    node.twin.update_keyset(ks.clone());
    fault("key-rotate");
    ev!("rotate s{si} epoch={}", node.epoch);
    let task_sock = match &mut node.real {
        Real::Mirror { server, .. } => {
            server.update_keyset(ks);
            None
        }
        Real::Task { sock, keyset_tx, .. } => {
            dsock::mark_busy(sock);
            let _ = keyset_tx.send(ks);
            Some(())
        }
    };
    if task_sock.is_some() {
        w.settle(si).await;
    }
}

async fn drain_due(w: &mut World, until: u64) {
    while let Some(tn) = w.net.next_time() {
        if tn > until || w.stop || simkit::out_of_budget() {
            break;
        }
        w.advance_to(tn).await;
        let now = w.t.max(tn);
        if let Some((_, d)) = w.net.pop_due(now) {
            deliver(w, d).await;
        }
    }
}

async fn world_main(focus: &'static str) {
    let mut w = build_world(focus);
    if w.real_serve {
        for si in 0..w.servers.len() {
            w.settle(si).await;
        }
    }
    w.sync_time();
    let steps = 10 + choose("cfg.steps", if simkit::thorough() { 400 } else { 150 });
    let burst_w = if focus == "C20" { 5 } else { 1 };
    for _ in 0..steps {
        if w.stop || simkit::out_of_budget() {
            break;
        }
        let dt = [1_000_000u64, 0, 1_000, 100_000_000, 1_000_000_000, 16_000_000_000, 64_000_000_000, 1_000_000_000_000, 86_400_000_000_000]
            [weighted("step.dt", &[6, 2, 2, 4, 4, 2, 2, 1, 1])];
        let target = w.t + dt;
        drain_due(&mut w, target).await;
        if w.stop {
            break;
        }
        w.advance_to(target).await;
        let now = w.t;
        match weighted("step.action", &[12, burst_w, 1, 1, if w.real_serve && !w.clean { 1 } else { 0 }]) {
            0 => {
                let ci = choose("step.client", w.clients.len() as u64) as usize;
                // mostly the client's own server; sometimes another one (its cookies do not belong there)
                let si = if w.servers.len() > 1 && chance("step.otherserver", 0.1) { choose("step.server", w.servers.len() as u64) as usize } else { w.clients[ci].server };
                let (bytes, spec) = build_request(&mut w, ci, focus);
                w.net.send(now, 1000 + ci as u32, si as u32, bytes, spec);
            }
            1 => {
                // a burst from one address with spacings around the cutoff, optionally with a slot-mate in between
                let ci = choose("burst.client", w.clients.len() as u64) as usize;
                let si = w.clients[ci].server;
                let cutoff = w.servers[si].cfg.cutoff_ns;
                let n = 2 + choose("burst.n", 4);
                let mut at = now + 1_000_000;
                let my_slot = w.servers[si].indexer.verif_slot_index(w.clients[ci].addr);
                let mate = (0..w.clients.len()).find(|c| *c != ci && w.clients[*c].server == si && my_slot.is_some() && w.servers[si].indexer.verif_slot_index(w.clients[*c].addr) == my_slot && w.clients[*c].addr != w.clients[ci].addr);
                for k in 0..n {
                    let (bytes, spec) = build_request(&mut w, ci, focus);
                    w.net.inject(at, Datagram { id: 0, from: 1000 + ci as u32, to: si as u32, bytes, original: None, mutation: None, duplicate: false, sent_ns: now, meta: spec });
                    if k + 1 < n {
                        if let Some(m) = mate {
                            if chance("burst.mate", 0.3) {
                                let (bytes, spec) = build_request(&mut w, m, focus);
                                w.net.inject(at + cutoff / 2, Datagram { id: 0, from: 1000 + m as u32, to: si as u32, bytes, original: None, mutation: None, duplicate: false, sent_ns: now, meta: spec });
                            }
                        }
                        let gap = match choose("burst.gap", 6) {
                            0 => cutoff,
                            1 => cutoff.saturating_sub(1),
                            2 => cutoff + 1,
                            3 => cutoff / 2,
                            4 => 0,
                            _ => cutoff.saturating_mul(2),
                        };
                        at += gap;
                    }
                }
                probe("burst");
            }
            2 => {
                let si = choose("step.rotate.server", w.servers.len() as u64) as usize;
                if !w.servers[si].dead {
                    rotate(&mut w, si).await;
                }
            }
            3 => {
                let si = choose("step.info.server", w.servers.len() as u64) as usize;
                let unix_now = unix_at(&w.servers[si], now).0;
                let (m, info) = gen_info(unix_now);
                ev!("info s{si} stratum={} leap={} refid={:02x?} precision={} delay={:#x}", m.stratum, m.leap_bits, m.refid, m.precision, m.root_delay_raw);
                *w.servers[si].info.write().unwrap() = info;
                w.servers[si].info_model = m;
                fault("server-state-change");
            }
            _ => {
                // socket trouble in the daemon's serve loop
                let si = choose("step.sock.server", w.servers.len() as u64) as usize;
                if let Real::Task { sock, .. } = &w.servers[si].real {
                    let sock = sock.clone();
                    if w.servers[si].dead {
                        continue;
                    }
                    match choose("step.sock.kind", 3) {
                        0 => {
                            fault("sock-recv-error");
                            dsock::push(&sock, dsock::Inbound::Error(dsock::EHOSTUNREACH));
                        }
                        1 => {
                            fault("sock-enetdown-reopen");
                            dsock::push(&sock, dsock::Inbound::Error(dsock::ENETDOWN));
                        }
                        _ => {
                            fault("sock-enetdown-reopen-fails");
                            sock.lock().unwrap().fail_next_opens = 1 + choose("step.sock.fails", 3) as u32;
                            dsock::push(&sock, dsock::Inbound::Error(dsock::ENETDOWN));
                        }
                    }
                    let before = match &w.servers[si].real {
                        Real::Task { stats, .. } => snap(stats),
                        _ => unreachable!(),
                    };
                    w.settle(si).await;
                    let after = match &w.servers[si].real {
                        Real::Task { stats, .. } => snap(stats),
                        _ => unreachable!(),
                    };
                    ev!("sock-fault s{si} opens={}", sock.lock().unwrap().opens);
                    check!("C21", "c21-counters-move-without-datagram", before == after, "a receive error moved the counters");
                    if w.servers[si].dead {
                        simkit::violation("C22", "c22-server-task-ended", format!("server task ended after a socket error: {}", exec::take_panic_message()));
                        w.stop = true;
                    }
                }
            }
        }
    }
    // let everything in flight arrive
    if !w.stop {
        drain_due(&mut w, u64::MAX).await;
    }
    ev!("end t={} delivered={}", w.t, w.net.delivered);
    if w.real_serve {
        for s in &w.servers {
            if let Real::Task { handle, .. } = &s.real {
                handle.abort();
            }
        }
        dsock::uninstall_all();
    }
}

pub fn run() {
    simntp::reset_hooks();
    let focus = simkit::focus();
    // both modes share world_main; mirror mode never waits for anything
    exec::block_on(async move {
        world_main(focus).await;
    });
    dsock::uninstall_all();
    ntp_proto::verif::clear();
}
