//! One simulated run of the spawn world (see main.rs).
//!
//! Tasks under the seeded multiplexer:
//!   * `spawner`  – the REAL `spawner_task`, generic over `Rec<S>`, a recording
//!     wrapper (delegation only) around the real `PoolSpawner`, the real
//!     `StandardSpawner`, or the scripted `Scripted` spawner of this file;
//!   * `main`     – the simulated system: consumes `SpawnEvent`s, answers with
//!     the real `SystemEvent::SourceRegistered`, later removes sources with
//!     `SystemEvent::SourceRemoved(reason)`, sends `Idle` pokes; all at seeded
//!     times (bursts, ±1 ns around the one-second ticket boundary).
//! The resolver closure installed at the H8 seam scripts the DNS answers.
//!
//! Oracles are written from the property statements:
//!   C35  created-minus-removed set: size ≤ count, distinct addresses, no ignored address.
//!   C36  attempt starts ≥ 1 s apart; while incomplete the next attempt starts
//!        within 1 s (+ handler time) of the previous attempt's end; standard
//!        spawner: no create after Demobilized, resolver queried again before
//!        the create that follows an Unreachable removal.

use std::cell::RefCell;
use std::collections::BTreeMap;
use std::net::{IpAddr, Ipv4Addr, Ipv6Addr, SocketAddr};
use std::rc::Rc;
use std::sync::{Arc, Mutex};
use std::time::Duration;

use ntp_proto::verif::clock_id_raw;
use ntp_proto::{ClockId, ProtocolVersion, SourceConfig};
use ntpd::verif::spawn::{
    self as sp, spawner_task, DnsReply, PoolSourceConfig, PoolSpawner, SourceCreateParameters, SourceRemovalReason,
    SourceRemovedEvent, SpawnAction, SpawnEvent, Spawner, SpawnerId, StandardSource, StandardSpawner, SystemEvent,
};
use simkit::{chance, check, choose, ev, exec, fault, probe, weighted};
use tokio::sync::mpsc;

const MS: u64 = 1_000_000;
const SEC: u64 = 1_000_000_000;
/// "network wait period (one second)" — from the property statement, not from the code.
const WAIT_NS: u64 = SEC;
/// timer granularity of the runtime (1 ms wheel) + rounding
const SLACK_NS: u64 = 2 * MS;
/// quiet tail after the last system-initiated event (lets the final stretch be judged)
const QUIET_NS: u64 = 3_500 * MS;
const PORT: u16 = 123;

fn now() -> u64 {
    let t = exec::elapsed_ns();
    simkit::set_now_ns(t);
    t
}

/// short printable form of a simulated address
fn sa(a: &SocketAddr) -> String {
    match a.ip() {
        IpAddr::V4(v4) if v4.octets()[0] == 10 && v4.octets()[1] == 9 => format!("h{}", u16::from(v4.octets()[2]) * 256 + u16::from(v4.octets()[3])),
        IpAddr::V6(v6) if v6.segments()[0] == 0xfd09 => format!("v{}", v6.segments()[7]),
        _ => a.to_string(),
    }
}

fn sas(v: &[SocketAddr]) -> String {
    let mut s = String::from("[");
    for (i, a) in v.iter().enumerate() {
        if i > 0 {
            s.push(',');
        }
        s.push_str(&sa(a));
    }
    s.push(']');
    s
}

fn host(n: u32) -> SocketAddr {
    if n % 5 == 4 {
        SocketAddr::new(IpAddr::V6(Ipv6Addr::new(0xfd09, 0, 0, 0, 0, 0, 0, n as u16)), PORT)
    } else {
        SocketAddr::new(IpAddr::V4(Ipv4Addr::new(10, 9, (n >> 8) as u8, n as u8)), PORT)
    }
}

/// 0 / a few ms / a fraction of a second / more than the wait period
fn draw_delay(kind: &'static str, val: &'static str, weights: &[u32]) -> u64 {
    match weighted(kind, weights) {
        0 => 0,
        1 => (1 + choose(val, 50)) * MS,
        2 => (200 + choose(val, 700)) * MS,
        _ => (1000 + choose(val, 2000)) * MS,
    }
}

// ---------------------------------------------------------------------------
// recording wrapper around a spawner (delegation only)
// ---------------------------------------------------------------------------

#[derive(Debug, Clone, Copy)]
enum TrEv {
    AttemptStart(u64),
    /// (time, is_complete() afterwards)
    AttemptEnd(u64, bool),
    /// (start, end, is_complete() afterwards)
    Handler(u64, u64, bool),
}

#[derive(Default)]
struct Trace {
    task_start: u64,
    initial_complete: bool,
    events: Vec<TrEv>,
    attempts: u64,
    last_start: Option<u64>,
    last_end: Option<u64>,
    in_attempt: bool,
    /// (time, returned an error)
    ended: Option<(u64, bool)>,
}

type Shared = Arc<Mutex<Trace>>;

trait Inspect {
    fn view(&self) -> String;
}

impl Inspect for PoolSpawner {
    fn view(&self) -> String {
        let v = self.verif_view();
        let cur: Vec<String> = v.current.iter().map(|(id, a)| format!("{}@{}", id, sa(a))).collect();
        format!("current=[{}] known_ips={}", cur.join(","), sas(&v.known_ips))
    }
}

impl Inspect for StandardSpawner {
    fn view(&self) -> String {
        let v = self.verif_view();
        format!("resolved={} has_spawned={}", v.resolved.map(|a| sa(&a)).unwrap_or_else(|| "-".into()), v.has_spawned)
    }
}

struct Rec<S> {
    inner: S,
    tr: Shared,
}

impl<S: Spawner + Inspect + Send> Spawner for Rec<S> {
    type Error = S::Error;

    async fn try_spawn(&mut self, action_tx: &mpsc::Sender<SpawnEvent>) -> Result<(), S::Error> {
        let t0 = now();
        {
            let mut tr = self.tr.lock().unwrap();
            // C36, first sentence: at most one attempt start per network wait period.
            if let Some(prev) = tr.last_start {
                check!(
                    "C36",
                    "c36-pace-min-gap",
                    t0 - prev >= WAIT_NS,
                    "attempt #{} starts at {} ns, only {} ns after the start of attempt #{} at {} ns (previous attempt ended at {:?})",
                    tr.attempts + 1,
                    t0,
                    t0 - prev,
                    tr.attempts,
                    prev,
                    tr.last_end
                );
            } else {
                simkit::oracle("C36");
            }
            tr.attempts += 1;
            tr.last_start = Some(t0);
            tr.in_attempt = true;
            tr.events.push(TrEv::AttemptStart(t0));
            ev!("attempt-start #{}", tr.attempts);
        }
        let r = self.inner.try_spawn(action_tx).await;
        let t1 = now();
        let complete = self.inner.is_complete();
        {
            let mut tr = self.tr.lock().unwrap();
            tr.in_attempt = false;
            tr.last_end = Some(t1);
            tr.events.push(TrEv::AttemptEnd(t1, complete));
            ev!("attempt-end #{} ok={} complete={} {}", tr.attempts, r.is_ok(), complete, self.inner.view());
        }
        r
    }

    fn is_complete(&self) -> bool {
        self.inner.is_complete()
    }

    async fn handle_source_removed(&mut self, event: SourceRemovedEvent) -> Result<(), S::Error> {
        let t0 = now();
        let id = clock_id_raw(event.id);
        let r = self.inner.handle_source_removed(event).await;
        let t1 = now();
        let complete = self.inner.is_complete();
        self.tr.lock().unwrap().events.push(TrEv::Handler(t0, t1, complete));
        ev!("spawner-handled removed id={} complete={}", id, complete);
        r
    }

    async fn handle_registered(&mut self, event: SourceCreateParameters) -> Result<(), S::Error> {
        let t0 = now();
        let id = clock_id_raw(event.get_id());
        let r = self.inner.handle_registered(event).await;
        let t1 = now();
        let complete = self.inner.is_complete();
        self.tr.lock().unwrap().events.push(TrEv::Handler(t0, t1, complete));
        ev!("spawner-handled registered id={} complete={}", id, complete);
        r
    }

    fn get_id(&self) -> SpawnerId {
        self.inner.get_id()
    }

    fn get_addr_description(&self) -> String {
        self.inner.get_addr_description()
    }

    fn get_description(&self) -> &'static str {
        self.inner.get_description()
    }
}

// ---------------------------------------------------------------------------
// scripted spawner (harness code implementing the real trait)
// ---------------------------------------------------------------------------

#[derive(Debug)]
struct ScriptErr;

impl std::fmt::Display for ScriptErr {
    fn fmt(&self, f: &mut std::fmt::Formatter<'_>) -> std::fmt::Result {
        write!(f, "scripted spawner error")
    }
}

impl std::error::Error for ScriptErr {}

struct Scripted {
    id: SpawnerId,
    clean: bool,
    /// number of sources it wants to hold
    want: usize,
    /// never reports completion
    never_complete: bool,
    /// 0..=3: how often an attempt creates nothing
    fail_level: u8,
    may_error: bool,
    mine: Vec<u64>,
    created_total: u32,
}

impl Inspect for Scripted {
    fn view(&self) -> String {
        format!("mine={:?}", self.mine)
    }
}

impl Spawner for Scripted {
    type Error = ScriptErr;

    async fn try_spawn(&mut self, action_tx: &mpsc::Sender<SpawnEvent>) -> Result<(), ScriptErr> {
        let (pre, post) = if self.clean {
            (0, 0)
        } else {
            (
                draw_delay("scr.pre.kind", "scr.pre.ns", &[6, 2, 1, 1]),
                draw_delay("scr.post.kind", "scr.post.ns", &[12, 2, 1, 1]),
            )
        };
        if pre + post >= WAIT_NS {
            fault("slow-try-spawn");
        }
        let missing = if self.never_complete {
            usize::from(self.created_total < 6 && self.mine.len() < 3)
        } else {
            self.want.saturating_sub(self.mine.len())
        };
        let fails = match self.fail_level {
            0 => false,
            1 => chance("scr.fail", 0.3),
            2 => chance("scr.fail", 0.7),
            _ => true,
        };
        let n_create = if fails || missing == 0 { 0 } else { 1 + choose("scr.ncreate", missing as u64) as usize };
        if pre > 0 {
            tokio::time::sleep(Duration::from_nanos(pre)).await;
        }
        for _ in 0..n_create {
            let id = ClockId::new();
            self.created_total += 1;
            self.mine.push(clock_id_raw(id));
            let addr = SocketAddr::new(IpAddr::V4(Ipv4Addr::new(192, 0, 2, self.created_total as u8)), PORT);
            let action = SpawnAction::create_ntp(
                id,
                addr,
                sp::normalized_address("scripted.sim", PORT),
                ProtocolVersion::V4,
                SourceConfig::default(),
                None,
            );
            action_tx.send(SpawnEvent::new(self.id, action)).await.map_err(|_| ScriptErr)?;
        }
        if post > 0 {
            tokio::time::sleep(Duration::from_nanos(post)).await;
        }
        if self.may_error && chance("scr.err", 0.05) {
            fault("spawner-error");
            return Err(ScriptErr);
        }
        Ok(())
    }

    fn is_complete(&self) -> bool {
        !self.never_complete && self.mine.len() >= self.want
    }

    async fn handle_source_removed(&mut self, event: SourceRemovedEvent) -> Result<(), ScriptErr> {
        let id = clock_id_raw(event.id);
        self.mine.retain(|m| *m != id);
        if !self.clean {
            let d = draw_delay("scr.hrm.kind", "scr.hrm.ns", &[10, 1, 1, 0]);
            if d > 0 {
                fault("slow-handler");
                tokio::time::sleep(Duration::from_nanos(d)).await;
            }
        }
        Ok(())
    }

    async fn handle_registered(&mut self, _event: SourceCreateParameters) -> Result<(), ScriptErr> {
        if !self.clean {
            let d = draw_delay("scr.hreg.kind", "scr.hreg.ns", &[10, 1, 1, 0]);
            if d > 0 {
                fault("slow-handler");
                tokio::time::sleep(Duration::from_nanos(d)).await;
            }
        }
        Ok(())
    }

    fn get_id(&self) -> SpawnerId {
        self.id
    }

    fn get_addr_description(&self) -> String {
        "scripted.sim".into()
    }

    fn get_description(&self) -> &'static str {
        "scripted"
    }
}

// ---------------------------------------------------------------------------
// world state: resolver script, models, history
// ---------------------------------------------------------------------------

#[derive(Clone, Copy, PartialEq, Eq, Debug)]
enum Kind {
    Pool,
    Standard,
    Scripted,
}

struct DnsRec {
    step: u64,
    /// `None` = the lookup failed
    answer: Option<Vec<SocketAddr>>,
}

struct Active {
    addr: SocketAddr,
    step: u64,
}

struct World {
    kind: Kind,
    clean: bool,
    step: u64,
    hist: Vec<String>,
    // resolver
    universe: Vec<SocketAddr>,
    next_host: u32,
    unroutable: Vec<SocketAddr>,
    dns_log: Vec<DnsRec>,
    // pool model (C35)
    count: usize,
    ignore: Vec<IpAddr>,
    active: BTreeMap<u64, Active>,
    // standard model (C36)
    demob_sent: Option<u64>,
    /// resolver query count when the last Unreachable removal was sent (cleared by the next create)
    unreachable_at_queries: Option<u64>,
}

impl World {
    fn tick(&mut self) -> u64 {
        self.step += 1;
        self.step
    }

    fn hist_tail(&self, n: usize) -> String {
        let from = self.hist.len().saturating_sub(n);
        self.hist[from..].join(" | ")
    }

    fn fresh_host(&mut self) -> SocketAddr {
        self.next_host += 1;
        host(self.next_host)
    }

    /// The simulated resolver: one scripted answer per query.
    fn dns_answer(&mut self, name: &str) -> DnsReply {
        let q = sp::dns_queries();
        let t = now();
        let kind = if self.clean {
            0
        } else {
            match self.kind {
                // normal, duplicate entries, error, empty, only ignored, universe changes
                Kind::Pool => weighted("dns.kind", &[10, 4, 2, 1, 1, 3]),
                _ => weighted("dns.kind", &[10, 0, 3, 1, 0, 4]),
            }
        };
        let delay = if self.clean { 0 } else { draw_delay("dns.delay.kind", "dns.delay.ns", &[8, 2, 1, 1]) };
        if delay >= WAIT_NS {
            fault("dns-slow");
        }
        let result: std::io::Result<Vec<SocketAddr>> = match kind {
            2 => {
                fault("dns-error");
                Err(std::io::Error::other("simulated resolver failure"))
            }
            3 => {
                fault("dns-empty");
                Ok(vec![])
            }
            4 => {
                let v: Vec<SocketAddr> = self.universe.iter().filter(|a| self.ignore.contains(&a.ip())).copied().collect();
                Ok(v)
            }
            k => {
                if k == 5 {
                    fault("dns-change");
                    let n = 1 + choose("dns.change.n", 2) as usize;
                    for _ in 0..n {
                        let fresh = self.fresh_host();
                        if self.universe.is_empty() || chance("dns.change.add", 0.2) {
                            self.universe.push(fresh);
                        } else {
                            let i = choose("dns.change.i", self.universe.len() as u64) as usize;
                            self.universe[i] = fresh;
                        }
                    }
                }
                // an answer: k distinct addresses of the universe, in a seeded order
                let mut pool = self.universe.clone();
                let max = pool.len().min(6);
                let k_addrs = if self.clean || max == 0 { max } else { 1 + choose("dns.n", max as u64) as usize };
                let mut ans = Vec::with_capacity(k_addrs + 2);
                for _ in 0..k_addrs {
                    let i = choose("dns.pick", pool.len() as u64) as usize;
                    ans.push(pool.remove(i));
                }
                if k == 1 && !ans.is_empty() {
                    fault("dns-dup");
                    let n = 1 + choose("dns.dup.n", 2) as usize;
                    for _ in 0..n {
                        let src = ans[choose("dns.dup.src", ans.len() as u64) as usize];
                        let at = choose("dns.dup.at", ans.len() as u64 + 1) as usize;
                        ans.insert(at, src);
                    }
                }
                Ok(ans)
            }
        };
        let step = self.tick();
        match &result {
            Ok(ans) => {
                if ans.iter().any(|a| self.ignore.contains(&a.ip())) {
                    if self.clean { probe("dns-ignored") } else { fault("dns-ignored") }
                }
                let overlap = ans.iter().any(|a| self.dns_log.iter().any(|d| d.answer.as_ref().is_some_and(|v| v.contains(a))));
                if overlap {
                    if self.clean { probe("dns-overlap") } else { fault("dns-overlap") }
                }
                ev!("dns-query #{} name={} answer={} delay={}", q, name, sas(ans), delay);
                self.hist.push(format!("t={t} dns#{q}={}", sas(ans)));
                self.dns_log.push(DnsRec { step, answer: Some(ans.clone()) });
            }
            Err(_) => {
                ev!("dns-query #{} name={} error delay={}", q, name, delay);
                self.hist.push(format!("t={t} dns#{q}=ERR"));
                self.dns_log.push(DnsRec { step, answer: None });
            }
        }
        DnsReply { delay: Duration::from_nanos(delay), result }
    }

    /// The system received a create event.
    fn on_create(&mut self, id: u64, addr: SocketAddr) {
        let t = now();
        let step = self.tick();
        let queries = sp::dns_queries();
        self.hist.push(format!("t={t} create id={id} {}", sa(&addr)));
        match self.kind {
            Kind::Pool => {
                // C35 clause 3: never a source for an ignored address
                check!(
                    "C35",
                    "c35-ignored-addr",
                    !self.ignore.contains(&addr.ip()),
                    "pool created source id={id} for ignored address {} (ignore list {:?}); history: {}",
                    addr,
                    self.ignore,
                    self.hist_tail(16)
                );
                // C35 clause 2: no two active sources for the same server address
                let twin = self.active.iter().filter(|(_, a)| a.addr == addr).map(|(i, a)| (*i, a.step)).min_by_key(|(_, s)| *s);
                let cause = match twin {
                    Some((_, since)) => {
                        // Was the address handed out by the resolver while its twin was already active?
                        let answered = self
                            .dns_log
                            .iter()
                            .any(|d| d.step > since && d.answer.as_ref().is_some_and(|v| v.contains(&addr)));
                        if answered { "answered-while-active" } else { "duplicate-unused-address" }
                    }
                    None => "",
                };
                let mut supply = "";
                if twin.is_some() {
                    // for the report: was the address duplicated inside one answer, or only across answers?
                    let within = self
                        .dns_log
                        .iter()
                        .any(|d| d.answer.as_ref().is_some_and(|v| v.iter().filter(|a| **a == addr).count() > 1));
                    probe(if within { "c35-dup-addr-within-one-answer" } else { "c35-dup-addr-only-across-answers" });
                    supply = if within { "within-one-answer" } else { "across-answers" };
                }
                check!(
                    "C35",
                    "c35-distinct-addr",
                    twin.is_none(),
                    "pool (count={}) created source id={id} for {} while source id={} with the same address is still active; cause={cause}; supply={supply}; history: {}",
                    self.count,
                    sa(&addr),
                    twin.map(|t| t.0).unwrap_or(0),
                    self.hist_tail(24)
                );
                self.active.insert(id, Active { addr, step });
                // C35 clause 1: never more active sources than the configured count
                check!(
                    "C35",
                    "c35-count",
                    self.active.len() <= self.count,
                    "pool has {} active sources {:?} with count={}; history: {}",
                    self.active.len(),
                    self.active.iter().map(|(i, a)| format!("{i}@{}", sa(&a.addr))).collect::<Vec<_>>(),
                    self.count,
                    self.hist_tail(16)
                );
            }
            Kind::Standard => {
                // C36: a plain single-server spawner never respawns a demobilised source
                check!(
                    "C36",
                    "c36-std-no-respawn-after-demobilize",
                    self.demob_sent.is_none(),
                    "standard spawner created source id={id} after source id={} was removed as Demobilized; history: {}",
                    self.demob_sent.unwrap_or(0),
                    self.hist_tail(16)
                );
                // C36: ... and re-resolves the server name after an unreachable removal
                if let Some(q0) = self.unreachable_at_queries.take() {
                    let last = self.dns_log.last();
                    let from_last = last.is_some_and(|d| d.answer.as_ref().is_some_and(|v| v.contains(&addr)));
                    check!(
                        "C36",
                        "c36-std-reresolve-after-unreachable",
                        queries > q0 && from_last,
                        "standard spawner created source id={id} for {} after an Unreachable removal: resolver queries then={} now={}, address in latest answer={}; history: {}",
                        sa(&addr),
                        q0,
                        queries,
                        from_last,
                        self.hist_tail(16)
                    );
                }
                self.active.insert(id, Active { addr, step });
            }
            Kind::Scripted => {
                self.active.insert(id, Active { addr, step });
            }
        }
    }

    /// The system removes a source (decided now; the spawner hears about it later).
    fn on_remove(&mut self, id: u64, why: Why) {
        let t = now();
        self.tick();
        self.active.remove(&id);
        self.hist.push(format!("t={t} remove id={id} {why:?}"));
        if self.kind == Kind::Standard {
            match why {
                Why::Demobilized => self.demob_sent = Some(id),
                Why::Unreachable => self.unreachable_at_queries = Some(sp::dns_queries()),
                Why::NetworkIssue => {}
            }
        }
    }
}

#[derive(Clone, Copy, Debug, PartialEq, Eq)]
enum Why {
    NetworkIssue,
    Unreachable,
    Demobilized,
}

impl Why {
    fn real(self) -> SourceRemovalReason {
        match self {
            Why::NetworkIssue => SourceRemovalReason::NetworkIssue,
            Why::Unreachable => SourceRemovalReason::Unreachable,
            Why::Demobilized => SourceRemovalReason::Demobilized,
        }
    }
}

// ---------------------------------------------------------------------------
// the simulated system
// ---------------------------------------------------------------------------

struct SysCfg {
    clean: bool,
    /// system events may be sent at sub-millisecond instants (manual clock advance)
    jitter: bool,
    horizon: u64,
    /// weights: removal reason NetworkIssue / Unreachable / Demobilized
    why_w: [u32; 3],
    /// weights for source lifetime class: 0-50 ms / 0.2-2 s / 2-10 s / never removed
    life_w: [u32; 4],
    burst_p: f64,
    poke_p: f64,
    slow_register: bool,
}

enum Act {
    Register(u64),
    Remove(u64),
    Burst,
    Poke(u32),
    Tick,
}

struct Due {
    t: u64,
    seq: u64,
    act: Act,
}

struct Src {
    id: ClockId,
    params: Option<SourceCreateParameters>,
    registered: bool,
    removed: bool,
}

async fn sleep_to(t: u64, jitter: bool) {
    let start = exec::start_instant();
    if jitter {
        let floor = t / MS * MS;
        tokio::time::sleep_until(start + Duration::from_nanos(floor)).await;
        let n = exec::elapsed_ns();
        if n < t {
            fault("ns-jitter");
            tokio::time::advance(Duration::from_nanos(t - n)).await;
        }
    } else {
        tokio::time::sleep_until(start + Duration::from_nanos(t)).await;
    }
}

struct System {
    cfg: SysCfg,
    w: Rc<RefCell<World>>,
    tr: Shared,
    notify_tx: mpsc::Sender<SystemEvent>,
    due: Vec<Due>,
    seq: u64,
    srcs: BTreeMap<u64, Src>,
    attempts_seen: u64,
    removals: u32,
    pokes: u32,
}

impl System {
    fn schedule(&mut self, t: u64, act: Act) {
        let t = if self.cfg.jitter { t } else { t.div_ceil(MS) * MS };
        self.seq += 1;
        self.due.push(Due { t, seq: self.seq, act });
    }

    fn draw_why(&self) -> Why {
        [Why::NetworkIssue, Why::Unreachable, Why::Demobilized][weighted("sys.why", &self.cfg.why_w)]
    }

    fn on_spawn_event(&mut self, event: SpawnEvent) {
        let t = now();
        let SpawnAction::Create(params) = event.action;
        let id = params.get_id();
        let raw = clock_id_raw(id);
        let addr = match &params {
            SourceCreateParameters::Ntp(p) => p.addr,
            _ => {
                simkit::abort("unexpected non-NTP create".into());
                return;
            }
        };
        ev!("sys-recv create spawner={:?} id={} addr={}", event.id, raw, sa(&addr));
        if self.srcs.contains_key(&raw) {
            simkit::abort(format!("source id {raw} created twice"));
            return;
        }
        self.w.borrow_mut().on_create(raw, addr);
        self.srcs.insert(raw, Src { id, params: Some(params), registered: false, removed: false });
        let d = if self.cfg.slow_register { draw_delay("sys.reg.kind", "sys.reg.ns", &[6, 2, 2, 1]) } else { 0 };
        if d > 0 {
            fault("slow-register");
        }
        self.schedule(t + d, Act::Register(raw));
    }

    async fn send(&mut self, e: SystemEvent) {
        // The real system awaits the send as well; outstanding messages are bounded well below the capacity.
        // (A stuck send would hang the paused-clock runtime: bound it and report harness trouble.)
        match tokio::time::timeout(Duration::from_secs(30), self.notify_tx.send(e)).await {
            Ok(_) => {}
            Err(_) => {
                simkit::abort("system blocked for 30 s sending a notification to the spawner".into());
                exec::stop();
            }
        }
    }

    async fn remove(&mut self, raw: u64, why: Why) {
        let Some(s) = self.srcs.get_mut(&raw) else { return };
        if s.removed || !s.registered {
            return;
        }
        s.removed = true;
        let id = s.id;
        self.removals += 1;
        self.w.borrow_mut().on_remove(raw, why);
        ev!("sys-send removed id={} reason={:?}", raw, why);
        if self.tr.lock().unwrap().in_attempt {
            probe("removal-during-attempt");
        }
        self.send(SystemEvent::source_removed(id, why.real())).await;
    }

    async fn perform(&mut self, act: Act) {
        let t = now();
        match act {
            Act::Register(raw) => {
                let Some(s) = self.srcs.get_mut(&raw) else { return };
                let Some(params) = s.params.take() else { return };
                s.registered = true;
                ev!("sys-send registered id={}", raw);
                self.send(SystemEvent::SourceRegistered(params)).await;
                if t < self.cfg.horizon {
                    let life = match weighted("sys.life", &self.cfg.life_w) {
                        0 => Some(choose("sys.life.ns", 50) * MS),
                        1 => Some((200 + choose("sys.life.ns", 1800)) * MS),
                        2 => Some((2000 + choose("sys.life.ns", 8000)) * MS),
                        _ => None,
                    };
                    if let Some(l) = life {
                        let mut at = t + l;
                        if self.cfg.jitter && chance("sys.life.sub", 0.5) {
                            at += choose("sys.life.subns", MS);
                        }
                        self.schedule(at, Act::Remove(raw));
                    }
                }
            }
            Act::Remove(raw) => {
                if t <= self.cfg.horizon && self.removals < 60 {
                    let why = self.draw_why();
                    self.remove(raw, why).await;
                }
            }
            Act::Burst => {
                if t <= self.cfg.horizon {
                    let ids: Vec<u64> = self.srcs.iter().filter(|(_, s)| s.registered && !s.removed).map(|(i, _)| *i).collect();
                    if ids.len() > 1 {
                        fault("removal-burst");
                    }
                    for raw in ids {
                        if chance("sys.burst.skip", 0.2) {
                            continue;
                        }
                        let why = self.draw_why();
                        self.remove(raw, why).await;
                    }
                }
            }
            Act::Poke(n) => {
                if t <= self.cfg.horizon {
                    for _ in 0..n {
                        // never let optional pokes eat the room needed by Registered / Removed messages
                        if self.notify_tx.capacity() > 14 && self.notify_tx.try_send(SystemEvent::Idle).is_ok() {
                            self.pokes += 1;
                            ev!("sys-send idle");
                        }
                    }
                }
            }
            Act::Tick => {
                if t < self.cfg.horizon {
                    self.schedule(t + 250 * MS, Act::Tick);
                    self.observe_attempts(t);
                    if !self.cfg.clean {
                        if chance("sys.burst", self.cfg.burst_p) {
                            self.schedule(t + choose("sys.burst.in", 250) * MS, Act::Burst);
                        }
                        if chance("sys.poke", self.cfg.poke_p) {
                            let n = 1 + choose("sys.poke.n", 4) as u32;
                            self.schedule(t + choose("sys.poke.in", 250) * MS, Act::Poke(n));
                        }
                    }
                }
            }
        }
    }

    /// When a new attempt has ended, maybe aim an event at the ticket boundary (end + 1 s ± a little).
    fn observe_attempts(&mut self, t: u64) {
        let (n, last_end) = {
            let tr = self.tr.lock().unwrap();
            (tr.attempts, if tr.in_attempt { None } else { tr.last_end })
        };
        if n == self.attempts_seen {
            return;
        }
        let Some(end) = last_end else { return };
        self.attempts_seen = n;
        if self.cfg.clean || !chance("sys.boundary", 0.5) {
            return;
        }
        let boundary = end + WAIT_NS;
        let delta: i64 = match choose("sys.boundary.delta", if self.cfg.jitter { 9 } else { 3 }) {
            0 => 0,
            1 => -(MS as i64),
            2 => MS as i64,
            3 => -1,
            4 => 1,
            5 => -2,
            6 => -(choose("sys.boundary.ns", MS) as i64),
            7 => choose("sys.boundary.ns", MS) as i64,
            _ => -999_999,
        };
        let at = (boundary as i64 + delta) as u64;
        if at <= t {
            return;
        }
        fault("boundary-event");
        // what arrives at the boundary: an idle poke, a burst of pokes, or the removal of an active source
        let victim = self.srcs.iter().find(|(_, s)| s.registered && !s.removed).map(|(i, _)| *i);
        match (choose("sys.boundary.what", 3), victim) {
            (1, Some(raw)) => self.schedule(at, Act::Remove(raw)),
            (2, _) => self.schedule(at, Act::Poke(3)),
            _ => self.schedule(at, Act::Poke(1)),
        }
    }

    async fn run(mut self, mut spawn_rx: mpsc::Receiver<SpawnEvent>) -> u64 {
        let end = self.cfg.horizon + QUIET_NS;
        self.schedule(0, Act::Tick);
        loop {
            let t = now();
            if t >= end || simkit::out_of_budget() {
                break;
            }
            // earliest due action
            let next = self.due.iter().enumerate().min_by_key(|(_, d)| (d.t, d.seq)).map(|(i, d)| (i, d.t));
            if let Some((i, dt)) = next {
                if dt <= t {
                    let d = self.due.swap_remove(i);
                    self.perform(d.act).await;
                    continue;
                }
            }
            let wake = next.map(|(_, dt)| dt).unwrap_or(end).min(end);
            let jitter = self.cfg.jitter;
            tokio::select! {
                biased;
                e = spawn_rx.recv() => match e {
                    Some(e) => self.on_spawn_event(e),
                    None => break, // the spawner task is gone
                },
                _ = sleep_to(wake, jitter) => {}
            }
        }
        // Close the notification channel: the real spawner_task then returns. Keep consuming
        // creates (and judging them) until it has dropped its sender.
        let t_close = now();
        ev!("sys-close");
        drop(self.notify_tx);
        loop {
            let e = match tokio::time::timeout(Duration::from_secs(60), spawn_rx.recv()).await {
                Ok(Some(e)) => e,
                Ok(None) => break,
                Err(_) => {
                    simkit::abort("spawner task did not end within 60 s of closing its notification channel".into());
                    break;
                }
            };
            let t = now();
            let SpawnAction::Create(params) = e.action;
            if let SourceCreateParameters::Ntp(p) = &params {
                ev!("sys-recv create (closing) id={} addr={}", clock_id_raw(p.id), sa(&p.addr));
                self.w.borrow_mut().on_create(clock_id_raw(p.id), p.addr);
            }
            let _ = t;
        }
        t_close
    }
}

// ---------------------------------------------------------------------------
// C36 bounded liveness over the recorded trace
// ---------------------------------------------------------------------------

/// "While incomplete, keeps attempting at that pace": once the spawner is incomplete, the
/// next attempt must start no later than max(previous attempt end + 1 s, the moment it
/// became incomplete) + time spent inside event handlers after that + timer granularity.
fn check_liveness(tr: &Trace, t_final: u64) {
    let mut last_end: Option<u64> = None;
    let mut inc_since: Option<u64> = if tr.initial_complete { None } else { Some(tr.task_start) };
    let mut handlers: Vec<(u64, u64)> = vec![];
    let mut in_attempt = false;
    let mut n = 0u64;
    let judge = |at: u64, inc: u64, last_end: Option<u64>, handlers: &[(u64, u64)]| -> (u64, u64) {
        let base = match last_end {
            None => inc,
            Some(e) => inc.max(e + WAIT_NS),
        };
        let overlap: u64 = handlers
            .iter()
            .filter(|(s, e)| *e > base && *s < at)
            .map(|(s, e)| (*e).min(at) - (*s).max(base))
            .sum();
        (base, base + overlap + SLACK_NS)
    };
    for e in &tr.events {
        match *e {
            TrEv::AttemptStart(t) => {
                n += 1;
                in_attempt = true;
                if let Some(inc) = inc_since {
                    let (base, allowed) = judge(t, inc, last_end, &handlers);
                    check!(
                        "C36",
                        "c36-keeps-attempting",
                        t <= allowed,
                        "attempt #{n} started at {t} ns although the spawner was incomplete since {inc} ns and the previous attempt ended at {:?}: due at {base} ns, allowed until {allowed} ns",
                        last_end
                    );
                }
            }
            TrEv::AttemptEnd(t, complete) => {
                in_attempt = false;
                last_end = Some(t);
                inc_since = if complete { None } else { Some(t) };
                handlers.clear();
            }
            TrEv::Handler(s, e, complete) => {
                handlers.push((s, e));
                if complete {
                    inc_since = None;
                } else if inc_since.is_none() {
                    inc_since = Some(e);
                }
            }
        }
    }
    if in_attempt {
        return;
    }
    if let Some(inc) = inc_since {
        let (base, allowed) = judge(t_final, inc, last_end, &handlers);
        if t_final > base {
            check!(
                "C36",
                "c36-keeps-attempting",
                t_final <= allowed,
                "no attempt after #{n} until {t_final} ns although the spawner was incomplete since {inc} ns and the previous attempt ended at {:?}: due at {base} ns",
                last_end
            );
        }
    }
}

// ---------------------------------------------------------------------------
// one run
// ---------------------------------------------------------------------------

fn launch<S: Spawner + Inspect + Send + 'static>(
    inner: S,
    tr: Shared,
    action_tx: mpsc::Sender<SpawnEvent>,
    notify_rx: mpsc::Receiver<SystemEvent>,
) {
    tr.lock().unwrap().initial_complete = inner.is_complete();
    let rec = Rec { inner, tr: tr.clone() };
    exec::spawn_noncritical("spawner", async move {
        tr.lock().unwrap().task_start = now();
        let r = spawner_task(rec, action_tx, notify_rx).await;
        let t = now();
        ev!("spawner-task-end ok={}", r.is_ok());
        tr.lock().unwrap().ended = Some((t, r.is_err()));
    });
}

pub fn run() {
    ntp_proto::verif::reset(simkit::rng::mix(&[simkit::seed(), 0x686f6f6b]));
    sp::reset();
    let focus = simkit::focus();

    // ---- swarm configuration -------------------------------------------------
    let clean = !chance("cfg.faulty", 0.75);
    let kind = match focus {
        "C35" => [Kind::Pool, Kind::Standard, Kind::Scripted][weighted("cfg.kind", &[17, 1, 2])],
        _ => [Kind::Scripted, Kind::Standard, Kind::Pool][weighted("cfg.kind", &[9, 7, 4])],
    };
    let jitter = !clean && chance("cfg.jitter", 0.4);
    let horizon = (6 + choose("cfg.horizon", 30)) * SEC;
    let count = 1 + choose("cfg.count", 5) as usize;
    let n_universe = match kind {
        Kind::Pool => 1 + choose("cfg.universe", 10) as usize,
        _ => 1 + choose("cfg.universe", 4) as usize,
    };
    let universe: Vec<SocketAddr> = (1..=n_universe as u32).map(host).collect();
    let mut ignore: Vec<IpAddr> = vec![];
    if kind == Kind::Pool && !clean {
        let n_ign = weighted("cfg.nignore", &[3, 3, 2, 1]);
        for _ in 0..n_ign {
            let a = universe[choose("cfg.ignore", universe.len() as u64) as usize].ip();
            if !ignore.contains(&a) {
                ignore.push(a);
            }
        }
        if chance("cfg.ignore.extra", 0.2) {
            ignore.push(host(900).ip());
        }
    }
    let mut unroutable = vec![];
    if kind == Kind::Standard && !clean && chance("cfg.unroutable", 0.3) {
        unroutable.push(universe[choose("cfg.unroutable.i", universe.len() as u64) as usize]);
    }
    let why_w = match kind {
        // demobilisation ends the story of a standard spawner: keep it rarer there
        Kind::Standard => [5, 5, 2],
        _ => [4, 3, 3],
    };
    let life_w = [[2, 4, 3, 1], [4, 3, 1, 1], [1, 3, 5, 2]][choose("cfg.life", 3) as usize];
    let cfg = SysCfg {
        clean,
        jitter,
        horizon,
        why_w,
        life_w,
        burst_p: if clean { 0.0 } else { [0.0, 0.05, 0.2][choose("cfg.burst", 3) as usize] },
        poke_p: if clean { 0.0 } else { [0.0, 0.1, 0.5][choose("cfg.poke", 3) as usize] },
        slow_register: !clean && chance("cfg.slowreg", 0.4),
    };
    let chan_cap = if clean { sp::MESSAGE_BUFFER_SIZE } else { [sp::MESSAGE_BUFFER_SIZE, 1, 2][weighted("cfg.chan", &[3, 1, 1])] };
    if chan_cap < sp::MESSAGE_BUFFER_SIZE {
        fault("small-channel");
    }
    ev!(
        "config kind={:?} clean={} jitter={} horizon={} count={} universe={} ignore={:?} unroutable={} chan={}",
        kind,
        clean,
        jitter,
        horizon,
        count,
        sas(&universe),
        ignore,
        sas(&unroutable),
        chan_cap
    );

    let world = Rc::new(RefCell::new(World {
        kind,
        clean,
        step: 0,
        hist: vec![],
        universe,
        next_host: 100,
        unroutable: unroutable.clone(),
        dns_log: vec![],
        count,
        ignore: ignore.clone(),
        active: BTreeMap::new(),
        demob_sent: None,
        unreachable_at_queries: None,
    }));

    // ---- seams -----------------------------------------------------------------
    {
        let w = world.clone();
        sp::set_resolver(move |name, _port| w.borrow_mut().dns_answer(name));
        let w = world.clone();
        sp::set_route_check(move |addr| {
            if w.borrow().unroutable.contains(&addr) {
                fault("route-fail");
                ev!("route-check {} unreachable", sa(&addr));
                Err(std::io::Error::other("simulated: network unreachable"))
            } else {
                Ok(())
            }
        });
    }

    let tr: Shared = Arc::new(Mutex::new(Trace::default()));
    let tr_main = tr.clone();
    let world_main = world.clone();

    exec::block_on(async move {
        let (action_tx, action_rx) = mpsc::channel::<SpawnEvent>(chan_cap);
        let (notify_tx, notify_rx) = mpsc::channel::<SystemEvent>(sp::MESSAGE_BUFFER_SIZE);
        match kind {
            Kind::Pool => {
                let config = PoolSourceConfig {
                    addr: sp::normalized_address("pool.sim", PORT).into(),
                    count,
                    ignore,
                    ntp_version: ProtocolVersion::V4,
                };
                launch(PoolSpawner::new(config, SourceConfig::default()), tr.clone(), action_tx, notify_rx);
            }
            Kind::Standard => {
                let config = StandardSource {
                    address: sp::normalized_address("server.sim", PORT).into(),
                    ntp_version: ProtocolVersion::V4,
                };
                launch(StandardSpawner::new(config, SourceConfig::default()), tr.clone(), action_tx, notify_rx);
            }
            Kind::Scripted => {
                let s = Scripted {
                    id: SpawnerId::new(),
                    clean,
                    want: 1 + choose("scr.want", 3) as usize,
                    never_complete: chance("scr.never", 0.25),
                    fail_level: weighted("scr.faillevel", &[4, 3, 2, 1]) as u8,
                    may_error: !clean && chance("scr.mayerr", 0.15),
                    mine: vec![],
                    created_total: 0,
                };
                ev!("scripted want={} never_complete={} fail_level={}", s.want, s.never_complete, s.fail_level);
                launch(s, tr.clone(), action_tx, notify_rx);
            }
        }
        let system = System {
            cfg,
            w: world.clone(),
            tr: tr.clone(),
            notify_tx,
            due: vec![],
            seq: 0,
            srcs: BTreeMap::new(),
            attempts_seen: 0,
            removals: 0,
            pokes: 0,
        };
        let t_close = system.run(action_rx).await;

        // ---- history checks ------------------------------------------------------
        let tr = tr.lock().unwrap();
        let crashed = exec::crashes();
        if let Some((name, msg)) = crashed.first() {
            simkit::abort(format!("task {name} crashed: {msg}"));
            return;
        }
        if simkit::out_of_budget() {
            return;
        }
        match tr.ended {
            // the scripted spawner returned an error: the task is entitled to stop
            Some((_, true)) => probe("spawner-ended-with-error"),
            _ => {
                if jitter {
                    // manual sub-millisecond clock advances let time pass while the spawner is
                    // runnable; the timing bound is only judged on runs without them
                    probe("liveness-not-judged-jitter");
                } else {
                    check_liveness(&tr, t_close);
                }
            }
        }
        if tr.attempts >= 10 {
            probe("ten-or-more-attempts");
        }
    });

    {
        let w = world_main.borrow();
        if w.kind == Kind::Standard && w.demob_sent.is_some() {
            probe("standard-demobilized");
        }
        let _ = &tr_main;
    }
    sp::clear();
    ntp_proto::verif::clear();
}
