//! W4 — source spawning world (DESIGN.md §4): the real
//! `ntpd::daemon::spawn::spawner_task` under the paused tokio clock, driving
//! (a) scripted simulated spawners and (b) the real `PoolSpawner` /
//! `StandardSpawner` against a simulated resolver, with a simulated "system"
//! that registers the created sources and removes them again for seeded
//! reasons at seeded times. Decides C35 and C36.

mod world;

use simkit::batch::{cli_main, Level, Property, WorldDef};

fn main() {
    let p = |id, rule| Property {
        id,
        level: Level::Exploration,
        quick_runs: 120_000,
        thorough_runs: 4_000_000,
        quick_wall_s: 60.0,
        thorough_wall_s: 600.0,
        event_cap: 6_000,
        enumerate: None,
        rule,
        assumptions: &[
            "DNS is the simulated resolver behind NormalizedAddress::lookup_host (hook H8); the UDP connect_address reachability probe of resolve_single_ntp_server is replaced by a simulated route check (hook H9)",
            "the system side (SystemTask: registering a created source, notifying the spawner of removals) is a simulated task that sends the real SystemEvent messages over the real mpsc channels",
            "NtsSpawner / NtsPoolSpawner are not run (they need a TcpStream seam for the key exchange)",
        ],
    };
    cli_main(WorldDef {
        name: "w4",
        run: world::run,
        properties: vec![
            p("C35", "one run = the real spawner_task with the real PoolSpawner (count 1-5, seeded ignore list) against a scripted resolver (duplicates, overlaps, ignored addresses, errors, empty and changing answers) and a system removing sources for seeded reasons at seeded times; after every create the set of created-minus-removed sources is checked for size <= count, distinct addresses and no ignored address"),
            p("C36", "one run = the real spawner_task driving a scripted spawner (succeeds / fails / stays incomplete, slow try_spawn and handlers), the real StandardSpawner or the real PoolSpawner; start and end of every try_spawn are recorded in simulated time; consecutive starts must be >= 1 s apart under bursts, slow handlers and events at +-1 ns around the ticket boundary; without clock jitter the next attempt must start within 1 s (+ handler time) while incomplete; StandardSpawner: no create after a Demobilized removal, a resolver query before the create that follows an Unreachable removal"),
        ],
        real_components: &[
            "ntpd::daemon::spawn::spawner_task (ticket pacing loop)",
            "ntpd::daemon::spawn::pool::PoolSpawner",
            "ntpd::daemon::spawn::standard::StandardSpawner + resolve_single_ntp_server",
            "NormalizedAddress::lookup_host up to the resolver seam",
            "tokio mpsc channels and tokio::time (paused clock)",
        ],
        stub_components: &[
            "DNS -> scripted resolver (hook H8); UDP reachability probe -> simulated route check (hook H9)",
            "SystemTask -> simulated system task sending the real SystemEvent values",
            "NtsSpawner, NtsPoolSpawner: not run",
        ],
    })
}
