//! Shared NTP-side simulation pieces: the simulated clock implementing the
//! repo's `NtpClock` seam, and per-run reset of the in-crate hook state.

use std::sync::{Arc, Mutex};

use ntp_proto::verif::{dur_to_fixed, ts_from_fixed, ts_to_fixed};
use ntp_proto::{NtpClock, NtpDuration, NtpLeapIndicator, NtpTimestamp};
use simkit::ev;

/// Call at the start of every run that touches ntp-proto.
pub fn reset_hooks() {
    ntp_proto::verif::reset(simkit::rng::mix(&[simkit::seed(), 0x686f6f6b]));
}

#[derive(Clone, Debug, PartialEq)]
pub enum ClockCall {
    SetFrequency(f64),
    Step(i64),
    DisableNtpAlgorithm,
    ErrorEstimate { est: i64, max: i64 },
    Status(NtpLeapIndicator),
}

#[derive(Clone, Debug)]
pub struct CallRecord {
    pub seq: u64,
    pub t_ns: u64,
    pub call: ClockCall,
}

#[derive(Debug)]
struct Inner {
    name: String,
    base_ns: u64,
    base_value: u64,
    /// true frequency error of the oscillator (s/s), excluding steering
    true_freq: f64,
    /// steering frequency applied via set_frequency (or the initial kernel value)
    steer: f64,
    calls: Vec<CallRecord>,
    seq: u64,
    /// total of all steps applied (fixed-point, wrapping)
    stepped_total: i64,
    /// every step applied, never dropped (the `calls` log is a bounded window)
    steps: Vec<i64>,
}

impl Inner {
    fn value_at(&self, now_ns: u64) -> u64 {
        let el = now_ns.saturating_sub(self.base_ns) as u128;
        // exact 2^32/1e9 scaling of the nominal part, float only for the ppm-sized deviation
        let ticks = ((el << 32) / 1_000_000_000u128) as u64;
        let rate_dev = (1.0 + self.true_freq) * (1.0 + self.steer) - 1.0;
        let dev = (ticks as f64 * rate_dev) as i64;
        self.base_value.wrapping_add(ticks).wrapping_add(dev as u64)
    }
    fn rebase(&mut self, now_ns: u64) {
        self.base_value = self.value_at(now_ns);
        self.base_ns = now_ns;
    }
}

/// A simulated settable clock: an affine function of simulated time plus steering.
#[derive(Clone, Debug)]
pub struct SimClock(Arc<Mutex<Inner>>);

#[derive(Debug)]
pub struct SimClockError;
impl std::fmt::Display for SimClockError {
    fn fmt(&self, f: &mut std::fmt::Formatter<'_>) -> std::fmt::Result {
        write!(f, "simulated clock error")
    }
}
impl std::error::Error for SimClockError {}

impl SimClock {
    /// `epoch`: raw 32.32 NTP value at simulated time 0; `kernel_freq`: what get_frequency reports initially.
    pub fn new(name: &str, epoch: u64, true_freq: f64, kernel_freq: f64) -> SimClock {
        SimClock(Arc::new(Mutex::new(Inner {
            name: name.to_string(),
            base_ns: simkit::now_ns(),
            base_value: epoch,
            true_freq,
            steer: kernel_freq,
            calls: Vec::new(),
            seq: 0,
            stepped_total: 0,
            steps: Vec::new(),
        })))
    }

    pub fn raw_now(&self) -> u64 {
        self.0.lock().unwrap().value_at(simkit::now_ns())
    }

    pub fn now_ts(&self) -> NtpTimestamp {
        ts_from_fixed(self.raw_now())
    }

    /// External jump of the clock not caused by the daemon ("meddling").
    pub fn meddle_step(&self, fixed: i64) {
        let mut i = self.0.lock().unwrap();
        let now = simkit::now_ns();
        i.rebase(now);
        i.base_value = i.base_value.wrapping_add(fixed as u64);
    }

    /// Change the oscillator's true frequency error (wander / excursion).
    pub fn set_true_freq(&self, f: f64) {
        let mut i = self.0.lock().unwrap();
        let now = simkit::now_ns();
        i.rebase(now);
        i.true_freq = f;
    }

    pub fn true_freq(&self) -> f64 {
        self.0.lock().unwrap().true_freq
    }

    pub fn steer(&self) -> f64 {
        self.0.lock().unwrap().steer
    }

    /// Calls made so far (monotone sequence numbers).
    pub fn calls_since(&self, seq: u64) -> Vec<CallRecord> {
        self.0.lock().unwrap().calls.iter().filter(|c| c.seq >= seq).cloned().collect()
    }

    pub fn next_seq(&self) -> u64 {
        self.0.lock().unwrap().seq
    }

    /// All steps applied since creation (unlike `calls_since`, which only covers a recent window).
    pub fn steps(&self) -> Vec<i64> {
        self.0.lock().unwrap().steps.clone()
    }

    pub fn stepped_total(&self) -> i64 {
        self.0.lock().unwrap().stepped_total
    }

    fn record(&self, call: ClockCall) {
        let mut i = self.0.lock().unwrap();
        let seq = i.seq;
        i.seq += 1;
        let t_ns = simkit::now_ns();
        // keep memory bounded on long runs: the oracles only look at recent calls
        if i.calls.len() > 4096 {
            i.calls.drain(..2048);
        }
        if let ClockCall::Step(d) = call {
            i.steps.push(d);
        }
        i.calls.push(CallRecord { seq, t_ns, call });
    }
}

impl NtpClock for SimClock {
    type Error = SimClockError;

    fn now(&self) -> Result<NtpTimestamp, Self::Error> {
        Ok(self.now_ts())
    }

    fn set_frequency(&self, freq: f64) -> Result<NtpTimestamp, Self::Error> {
        let now = simkit::now_ns();
        let name = {
            let mut i = self.0.lock().unwrap();
            i.rebase(now);
            // a non-finite frequency must not poison the simulated clock itself
            i.steer = if freq.is_finite() { freq.clamp(-0.5, 0.5) } else { 0.0 };
            i.name.clone()
        };
        ev!("clock {name} set_frequency {freq:e}");
        self.record(ClockCall::SetFrequency(freq));
        Ok(self.now_ts())
    }

    fn get_frequency(&self) -> Result<f64, Self::Error> {
        Ok(self.0.lock().unwrap().steer)
    }

    fn step_clock(&self, offset: NtpDuration) -> Result<NtpTimestamp, Self::Error> {
        let fixed = dur_to_fixed(offset);
        let now = simkit::now_ns();
        let name = {
            let mut i = self.0.lock().unwrap();
            i.rebase(now);
            i.base_value = i.base_value.wrapping_add(fixed as u64);
            i.stepped_total = i.stepped_total.wrapping_add(fixed);
            i.name.clone()
        };
        ev!("clock {name} step {fixed}");
        self.record(ClockCall::Step(fixed));
        Ok(self.now_ts())
    }

    fn disable_ntp_algorithm(&self) -> Result<(), Self::Error> {
        self.record(ClockCall::DisableNtpAlgorithm);
        Ok(())
    }

    fn error_estimate_update(&self, est_error: NtpDuration, max_error: NtpDuration) -> Result<(), Self::Error> {
        self.record(ClockCall::ErrorEstimate {
            est: dur_to_fixed(est_error),
            max: dur_to_fixed(max_error),
        });
        Ok(())
    }

    fn status_update(&self, leap_status: NtpLeapIndicator) -> Result<(), Self::Error> {
        let name = self.0.lock().unwrap().name.clone();
        ev!("clock {name} status {leap_status:?}");
        self.record(ClockCall::Status(leap_status));
        Ok(())
    }
}

pub fn fixed_to_secs(v: i64) -> f64 {
    v as f64 / 4294967296.0
}

pub fn secs_to_fixed(s: f64) -> i64 {
    (s * 4294967296.0) as i64
}

pub fn ts_raw(t: NtpTimestamp) -> u64 {
    ts_to_fixed(t)
}
